"""C08 - Each remote call completes exactly once, with the reply that belongs to it.

Correspondence + oracle harness.

A *scenario* is a JSON object {'stream', 'ready', 'serial0', 'ops': [...]} run on a real
`DBusClientConnection` (StringTransport, `txdbus.client.reactor` replaced by a `task.Clock`,
handshake and Hello reply driven by hand).  Operations:

  ['call', er, tmo, rs]        callRemote(expectReply=er, timeout per tmo ('N' None, 'Z' 0, 'P' positive),
                               returnSignature rs ('K' = argument omitted, None, or a str))
  ['call', er, tmo, rs, react] the same, and the caller's errback issues the calls react = [[tmo, rs], ...]
                               (expectReply=True) synchronously when it runs - a retry - i.e. inside
                               errorReceived / _onMethodTimeout / methodReturnReceived (return that fails the
                               declared signature) / connectionLost
  ['callbad', rs]              callRemote with an invalid member name (construction raises)
  ['recall', k]                callRemoteMessage with the message object of call k again (same serial): while k is
                               outstanding this is outside the property (stream serial-reuse, correspondence only);
                               after k has completed it is a call like any other (stream resend, judged)
  ['callmsg', tmo, react]      callRemoteMessage with a freshly prepared message; react entries [tmo, 'SAME'] make the
                               errback re-send the SAME message object (same serial) when it runs
  ['ret', who, v]              method return; who = k (the k-th top-level call operation) | ['r', k, j] (the j-th
                               call issued by the errback of call k; no such call yet: an unused serial) |
                               ['u', n] unsolicited serial | ['h', n] Hello's serial | ['f', n] a serial n ahead of
                               the counter; v indexes RET_VARIANTS
  ['err', who, v]              error reply; v indexes ERR_VARIANTS
  ['group', [ret/err ops]]     several replies in ONE dataReceived
  ['expire', who]              the clock is advanced to the deadline of that call's timer (who as above)
  ['expire2', who, who]        two calls with EQUAL deadlines, both due in one Clock.advance
  ['lost', n]                  connectionLost(reason n)
  ['ondisc', 'raise' | [[tmo, rs], ...]]   notifyOnDisconnect of a callback that raises / issues these calls
                               (refs ['d', i, j]); a call may also carry a 6th element: calls its success callback
                               issues (refs ['s', k, j])
  ['otherconn']                a second connection of the process is made ready with one call outstanding
  ['callbig', rs]              callRemote whose message exceeds the maximum size (raises after the serial is taken)

Stream two-connections: {'stream': 'two-connections', 'ops': [[conn, op], ...]}, conn 'A' | 'B': two live connections of one
process (one reactor, one serial counter - not set by the harness: no 'serial0'), each with its own monitor and its own
run of the model; an operation on one is an idle step of the other.  who = ['x', k] in a reply: the serial of the k-th
top-level call of the OTHER connection.  A scenario may carry 'history': scenarios run first in the same process.
After every step every result delivered so far is looked at again (a delivered list / RemoteError must not change).

Replies are real message bytes (MethodReturnMessage / ErrorMessage .rawMessage) through
dataReceived.  After every operation the harness records: the new firings of every Deferred
handed out (each callback/errback firing is recorded), `_pendingCalls` (in dict order), and
`Clock.getDelayedCalls()`; an exception escaping an operation is recorded as a fault.

Two judgements per scenario: (S3) the same operations through the Lean model
(`lean/TxdbusModel/Client/Calls.lean` via drv_c08) must give the same line per step; (S4) the
`Monitor` below - written from the property statement, not from the model - must accept the
implementation's trace.
"""
import itertools
import json
import re
import struct
import types

STREAMS = ['cvt-direct', 'interleave-exhaustive', 'random-schedules', 'reentrant', 'disconnect-callbacks',
           'resend', 'two-connections', 'serial-reuse', 'not-ready']
THEOREMS = [
    'refinement',
    'exactly_once',
    'no_double_completion',
    'attribution',
    'unsolicited_completes_nothing',
    'first_wins',
    'pending_until_completed',
    'no_residue',
    'lost_leaves_nothing',
    'no_faults',
    'reply_convention',
    'reply_convention_remote_error_iff',
    'remote_error_fields_spec',
    'serials_distinct',
    'counter_run_properties',
    'serial_reuse_violates',
    'return_signature_binding',
    'caller_outcome',
    'caller_gets_convention',
    'retry_lands_after_loss',
    'disconnect_callback_call_is_failed',
    'disconnect_callback_calls_get_loss_reason',
    'raising_disconnect_callback_aborts_loss',
    'reentrant_reduces',
    'reentrant_exactly_once',
    'retry_during_loss_times_out',
]
TRUSTED_BASE = [
    'Twisted Deferred (fires its callback chain synchronously, raises AlreadyCalledError on a second firing) and '
    'task.Clock / DelayedCall.cancel semantics: mirrored by the model (firing log, timer list, explicit faults), '
    'validated by the correspondence streams',
    'Python dict semantics of _pendingCalls (insertion order, overwrite in place, KeyError on del): association list '
    'in the model, validated by the streams (the order of errbacks in connectionLost is compared)',
    'parseMessage / framing deliver to methodReturnReceived / errorReceived exactly the reply_serial, signature and body '
    'that were sent (C03/C04/C01): the harness feeds real message bytes and maps the sent (signature, body) to the '
    "model's Reply",
    'the reactor is single-threaded: a schedule is a sequence of atomic events',
    'time is abstract in the model (`expire` may happen whenever the timer is active); that callLater is given the '
    "caller's timeout as the delay is tied by the harness only (deadlines are multiples of 0.5 s of virtual time and "
    'the clock is advanced exactly to them; int, float, sub-second and `True` timeouts occur)',
]
ASSUMPTIONS = [
    'serials of the calls on one connection are pairwise distinct (proved for the process-wide counter: theorem '
    'serials_distinct; re-using one MethodCallMessage object through callRemoteMessage is outside the property)',
    'the connection is ready (Hello answered) when calls are issued; connectionLost before that is C09',
    'a caller\'s errback may issue new calls synchronously (stream reentrant, theorem reentrant_reduces); other '
    're-entrant use of the connection from callbacks (disconnecting, feeding data) is not generated',
    'reading of "outstanding" at a connection loss: a call issued by a notifyOnDisconnect callback while connectionLost '
    'is running (before anything has been failed) is outstanding and owed the loss reason by the time connectionLost '
    'returns (oracle keys call-issued-during-loss-not-failed / -completed-late, bookkeeping-left-after-loss, '
    'timer-left-after-loss; theorem disconnect_callback_calls_get_loss_reason); a call issued by the ERRBACK of a call '
    'the loss has just failed is issued after the loss: only its own deadline is owed (or an immediate loss failure)',
    'Twisted calls connectionLost at most once and delivers no data afterwards',
    'a result, once delivered, belongs to the caller: the list of values / the name, message and values of a RemoteError '
    'still read the same after later replies on this or another connection (keys delivered-value-changed-later, '
    'delivered-remoteerror-changed-later); that two results are distinct OBJECTS is not demanded, only that none changes',
    'argument domains: timeout is None, 0 / 0.0, or a positive finite int / float / True; negative, NaN, infinite or '
    'non-numeric timeouts are not modelled (Clock and the real reactor differ on them; a str makes callRemote return a '
    'failed Deferred with nothing registered); returnSignature is the default, None or a str',
    'readings the statement leaves open and the code model fixes: returnSignature=None declares "no value" (like \'\'), '
    'timeout=0 means no deadline; the monitor accepts both readings, a change of reading shows as a model '
    'disagreement without failing input (by design: the model has to follow)',
]
RULE = ('scenarios: all interleavings of per-call event lists (issue, then returns / errors / expiries in every order, '
        'duplicates included) for N <= 3 calls (quick) / N <= 4 (thorough), with an unsolicited reply or a connection '
        'loss inserted at every position; random schedules for N <= 12; errbacks that retry (1-2 new calls, with / '
        'without deadline) run by an error reply, a deadline, a signature mismatch or the loss, then every short order '
        'of deadline / reply / loss on the retries, plus random ones; 1-3 disconnect callbacks that raise or issue '
        'calls (deadline / none / timeout=0) with 0-2 calls outstanding (plain or with retrying errbacks) at the loss; '
        'two live connections with calls and deadlines on both, one lost, deadlines and late replies carrying the lost '
        "connection's serials on the other, then the second loss (systematic + random); the called path / member / "
        'interface / destination / arguments rotate over 5 targets; reply contents, return signatures and timeout '
        'kinds rotate over fixed variant tables.  distinct = distinct canonical JSON of the scenario; non-trivial = at '
        'least one call and one event after it')

# --------------------------------------------------------------------------- variant tables
# (signature, body) of method returns as SENT; what the parsed message shows is (sig, body if sig else None)
RET_VARIANTS = [
    (None, None),
    ('', None),
    ('s', ['x']),
    ('s', ['']),
    ('i', [5]),
    ('i', [0]),
    ('b', [False]),
    ('ii', [1, 2]),
    ('(ii)', [[1, 2]]),
    ('ai', [[1, 2]]),
    ('ai', [[]]),
    ('v', ['x']),
    ('a{si}', [{'a': 1}]),
    ('(i)s', [[1], 'x']),
    ('o', ['/p/q']),
    ('a(ii)', [[[1, 2], [3, 4]]]),
    ('sss', ['a', 'b', 'c']),
    ('d', [0.0]),
    ('ay', [[1, 2]]),
    ('a{sv}', [{'k': 5}]),
    ('v', [(1, 2)]),
    ('av', [[1, 'x']]),
    ('x', [2 ** 40]),
    ('s(ii)', ['a', [1, 2]]),
    ('ay', [[]]),
]
# (error name, signature, body) of error replies as sent
ERR_VARIANTS = [
    ('org.t.Err', None, None),
    ('org.t.Err', '', None),
    ('org.t.Err', 's', ['boom']),
    ('org.t.Err', 's', ['']),
    ('org.t.Other', 'si', ['m', 3]),
    ('org.t.Err', 'i', [3]),
    ('org.t.Err', 'is', [3, 'm']),
    ('org.t.Err', 'o', ['/p']),
    ('org.t.Err', 'as', [['a']]),
    ('org.t.Err', 'v', ['x']),
    ('org.freedesktop.DBus.Error.UnknownMethod', 'ss', ['no such', 'method']),
    ('org.t.Err', '(s)', [['in struct']]),
]
RS_VARIANTS = ['K', None, '', 's', 'i', 'ii', '(ii)', 'ai', 'v']


# --------------------------------------------------------------------------- tokens
def str_hex(s):
    return ''.join('%06x' % ord(c) for c in s) or '-'


def _norm(v):
    if isinstance(v, bool):
        return ['b', v]
    if isinstance(v, int):
        return ['i', int(v)]
    if isinstance(v, float):
        return ['f', struct.pack('>d', v).hex()]
    if isinstance(v, str):
        return ['s', str(v)]
    if isinstance(v, (bytes, bytearray)):
        return ['y', bytes(v).hex()]
    if isinstance(v, (list, tuple)):
        return ['l', [_norm(x) for x in v]]
    if isinstance(v, dict):
        return ['d', sorted(([_norm(k), _norm(x)] for k, x in v.items()), key=json.dumps)]
    if v is None:
        return ['n']
    return ['?', type(v).__name__]


def tok(v):
    """Opaque value token of the driver protocol: `s<code points>` for a str, `o<hex>` otherwise."""
    if isinstance(v, str):
        return 's' + str_hex(str(v))
    return 'o' + json.dumps(_norm(v), separators=(',', ':')).encode().hex()


def _hex_or_q(x):
    return str_hex(x) if isinstance(x, str) else '?' + tok(x)


def rs_tok(rs):
    if rs == 'K':
        return 'K'
    if rs is None:
        return 'N'
    return 'S' + str_hex(rs)


def sig_tok(sig):
    return 'N' if sig is None else 'S' + str_hex(sig)


def body_tok(body):
    return 'N' if body is None else ' '.join(['L'] + [tok(v) for v in body])


def parsed_view(sig, body):
    """(msg.signature, msg.body) of the parsed message for a reply sent with (sig, body)."""
    return sig, (body if sig else None)


# --------------------------------------------------------------------------- running the implementation
class Reason:
    pass


def le32(b):
    return struct.unpack('<I', b)[0]


_TEMPLATES = {}
_MARK = 0x5A5B5C5D


def patched_reply(message, kind, variant, reply_serial, own_serial):
    """Real `.rawMessage` bytes of the reply variant, built once with a marker reply serial, with the two
    serial fields (own serial at offset 8, REPLY_SERIAL header value) overwritten."""
    key = (id(message), kind, variant)
    t = _TEMPLATES.get(key)
    if t is None:
        if kind == 'ret':
            sig, body = RET_VARIANTS[variant]
            raw = message.MethodReturnMessage(_MARK, signature=sig, body=body).rawMessage
        elif kind == 'err':
            name, sig, body = ERR_VARIANTS[variant]
            raw = message.ErrorMessage(name, _MARK, signature=sig, body=body).rawMessage
        else:
            raw = message.MethodReturnMessage(_MARK, signature='s', body=[':1.42']).rawMessage
        mark = struct.pack('<I', _MARK)
        assert raw.count(mark) == 1
        t = (raw, raw.index(mark), message)
        _TEMPLATES[key] = t
    raw, off, _ = t
    return raw[:8] + struct.pack('<I', own_serial) + raw[12:off] + struct.pack('<I', reply_serial) + raw[off + 4:]


# what is called: path, member, interface, destination, signature, body - rotates with the number of the call
TARGETS = [
    ('/obj', 'Method', 'org.t.Iface', 'org.t.Dest', None, None),
    ('/obj', 'Other', 'org.t.Iface', 'org.t.Dest', 's', ['x']),
    ('/obj/sub', 'Method', 'org.t.Iface2', 'org.t.Dest', None, None),
    ('/', 'Method', None, ':1.7', 'ii', [1, 2]),
    ('/obj', 'Method', 'org.t.Iface', 'org.t.Dest2', 'as', [['a', 'b']]),
]

UNIT = 0.5      # seconds of virtual time between two expiry operations (sub-second timeouts occur)


class DisconnectCallbackBoom(Exception):
    """What a raising disconnect callback of the harness raises."""


_LOCATORS = {}


def locators(client, message):
    """Per tree under test: the reply converter and the serial counter, found through public behaviour
    (harness/c08_locate.py) - no private helper of the library is named."""
    from harness import c08_locate
    key = (id(client), id(message))
    if key not in _LOCATORS:
        _LOCATORS[key] = types.SimpleNamespace(conv=c08_locate.Converter(client, message),
                                               serials=c08_locate.SerialCounter(message),
                                               NOCHECK=c08_locate.Converter.NOCHECK, mod=c08_locate)
    return _LOCATORS[key]


class SetupFailure(Exception):
    """The connection could not be brought to the ready state: the Hello call - itself a remote call - was
    not completed by its matching return."""


class Impl:
    """One real DBusClientConnection brought to the authenticated (and, if ready, Hello-answered) state."""

    def __init__(self, scn, share=None, label=''):
        """`share` = another Impl of the same scenario (stream two-connections): this connection lives beside it -
        same process, same reactor (clock), same process-wide serial counter."""
        from twisted.internet import task
        from twisted.internet.testing import StringTransport
        from twisted.python import failure
        from twisted.internet import error as terror
        import txdbus.client as client
        from txdbus import message, error
        self.client, self.message, self.error = client, message, error
        self.failure = failure
        self.label = label
        self.peer = share
        if share is not None:
            share.peer = self
            self.world = share.world
            self.clock = share.clock
        else:
            # what the connections of one scenario have in common: the count of expiry operations (deadlines are
            # planned over the whole scenario) and every delayed call ever seen (kept alive: ids stay unique)
            self.world = {'n_expire': 0, 'seen': {}}
            self.clock = task.Clock()
            client.reactor = self.clock
        self.loc = locators(client, message)
        if share is None and 'serial0' in scn:
            # the counter is the process's: a scenario without `serial0` takes it as the earlier ones left it
            self.loc.serials.set(scn['serial0'])
        self.factory = client.DBusClientFactory()
        self.conn = self.factory.buildProtocol(None)
        self.tr = StringTransport()
        self.conn.makeConnection(self.tr)
        self.tr.clear()
        self.conn.dataReceived(b'OK 1234deadbeef\r\n')
        sent = self.tr.value()
        assert sent.startswith(b'BEGIN\r\n'), sent
        self.hello_serial = le32(sent[7 + 8:7 + 12])
        self.tr.clear()
        self.connected = []
        self.factory.getConnection().addBoth(self.connected.append)
        self.templates = scn.get('stream') != 'random-schedules'
        if scn.get('ready', True):
            if self.templates and share is None:
                own = self.loc.serials.take()
                self.conn.dataReceived(patched_reply(message, 'hello', 0, self.hello_serial, own))
            else:
                self.conn.dataReceived(message.MethodReturnMessage(
                    self.hello_serial, signature='s', body=[':1.42']).rawMessage)
            if not (self.conn.busName == ':1.42' and self.connected == [self.conn]):
                raise SetupFailure('Hello (serial %d) was answered by a method return with reply_serial %d carrying '
                                   "':1.42'; busName=%r, connect Deferred fired with %r, _pendingCalls=%r"
                                   % (self.hello_serial, self.hello_serial, self.conn.busName, self.connected,
                                      sorted(getattr(self.conn, '_pendingCalls', {}))))
        self.reasons = {}
        self.terror = terror
        self.rec = []          # (did, 'cb'|'eb', value) for every firing of every Deferred handed out
        self.dids = {}         # id(Deferred) -> did
        self.keep = []         # keeps Deferreds / messages alive (ids stay unique)
        self.calls = []        # per did: {'serial', 'er', 'tmo', 'rs', 'bad', 'mcall', 'ref'}
        self.top = []          # k-th top-level call operation -> did
        self.rdid = {}         # ('r'|'s'|'d', k, j) -> did of the j-th call issued by that callback
        self.dcs = []          # disconnect callbacks registered so far
        self.others = []       # other connections of the process
        self.foreign = set()   # delayed calls that belong to them (same reactor)
        self.is_lost = False
        self.created = []      # dids created during the current operation, in order
        self.harness_error = None
        self.deadline = {}
        self.frozen = []       # [did, kind, value delivered, what it looked like when it was delivered, reported]
        self.claim_timers()

    @property
    def n_expire(self):
        return self.world['n_expire']

    @n_expire.setter
    def n_expire(self, v):
        self.world['n_expire'] = v

    def claim_timers(self):
        """Delayed calls that appeared while this connection was being operated are not the other connection's."""
        seen = self.world['seen']
        for dc in self.clock.getDelayedCalls():
            if id(dc) not in seen:
                seen[id(dc)] = dc
                if self.peer is not None:
                    self.peer.foreign.add(id(dc))

    def reason(self, n):
        if n not in self.reasons:
            self.reasons[n] = self.failure.Failure(self.terror.ConnectionDone('reason %d' % n))
        return self.reasons[n]

    # -- references to calls ----------------------------------------------------
    @staticmethod
    def refkey(ref):
        """int k = the k-th top-level call operation; ['r', k, j] / ['s', k, j] = the j-th call issued by its
        errback / its callback; ['d', i, j] = the j-th call issued by the i-th disconnect callback."""
        if isinstance(ref, int):
            return ('t', ref)
        if isinstance(ref, (list, tuple)) and ref and ref[0] in ('r', 's', 'd') and len(ref) == 3:
            return (ref[0], ref[1], ref[2])
        return None

    def resolve(self, ref):
        """did of the call a reference names, None when there is no such call (yet)."""
        key = self.refkey(ref)
        if key is None:
            return None
        if key[0] == 't':
            return self.top[key[1]] if key[1] < len(self.top) else None
        return self.rdid.get(key)

    def _attach(self, did, d, react=None, react_ok=None, k=None, mcall=None):
        """Record every firing of `d`; `react` / `react_ok` = lists of [tmo, rs]: calls the errback / the callback
        issues at once, from inside whatever function of the connection fired the Deferred."""
        self.dids[id(d)] = did
        self.keep.append(d)
        rec = self.rec

        def again(kind, calls):
            try:
                for j, (tmo, rs) in enumerate(calls):
                    if rs == 'SAME':
                        # the caller re-sends the very same prepared message object (same serial)
                        self._issue((kind, k, j), 1, tmo, 'K', via_msg=True, mcall=mcall)
                    else:
                        self._issue((kind, k, j), 1, tmo, rs)
            except Exception as e:          # the harness's own failure must not vanish inside the Deferred
                self.harness_error = e

        def cb(v):
            rec.append((did, 'cb', v))
            self.frozen.append([did, 'cb', v, freeze('cb', v), False])
            if react_ok:
                again('s', react_ok)

        def eb(f):
            rec.append((did, 'eb', f))
            self.frozen.append([did, 'eb', f, freeze('eb', f), False])
            if react:
                again('r', react)
        d.addCallbacks(cb, eb)

    def _issue(self, key, er, tmo, rs, react=None, react_ok=None, via_msg=False, mcall=None):
        """callRemote (or, via_msg, callRemoteMessage with a prepared message object - a new one, or `mcall`
        again); returns (did, serial).  The serial is read from the bytes the connection wrote."""
        did = len(self.calls)
        kw = {}
        if rs != 'K':
            kw['returnSignature'] = rs
        timeout = self.timeout_for(key, did, tmo)
        mark = len(self.tr.value())
        path, member, iface, dest, sig, body = TARGETS[did % len(TARGETS)]
        if via_msg:
            if mcall is None:
                mcall = self.message.MethodCallMessage(path, member, interface=iface, destination=dest,
                                                       signature=sig, body=body)
            d = self.conn.callRemoteMessage(mcall, timeout)
            d.addCallback(lambda m: self.loc.conv.convert(m, self.loc.NOCHECK))       # what callRemote adds
        else:
            d = self.conn.callRemote(path, member, interface=iface, destination=dest, signature=sig, body=body,
                                     expectReply=bool(er), timeout=timeout, **kw)
        sent = self.tr.value()[mark:]
        serial = le32(sent[8:12]) if len(sent) >= 16 else None
        # nothing written: the message could not be built - or (a conceivable repair) the connection refuses
        # calls once it is lost
        self.calls.append({'serial': serial, 'er': bool(er), 'tmo': tmo, 'rs': rs,
                           'bad': serial is None and not self.is_lost, 'unsent': serial is None and self.is_lost,
                           'ref': key, 'mcall': mcall})
        self.created.append(did)
        if key[0] == 't':
            self.top.append(did)
        else:
            self.rdid[key] = did
        self._attach(did, d, react, react_ok, key[1] if key[0] == 't' else None, mcall)
        return did, serial

    def plan_deadlines(self, ops):
        """The j-th expiry operation of the scenario advances the clock to UNIT*j; the call(s) it names get that
        absolute deadline (its first mention after the call exists); timers never expired in the scenario get a far
        deadline.  `expire2` names two calls: equal deadlines, both due in one `Clock.advance`."""
        j = 0
        pos = {}
        for op in ops:
            if op[0] in ('expire', 'expire2'):
                j += 1
                for ref in op[1:]:
                    pos.setdefault(self.refkey(ref), []).append(j)
        self.expire_pos = pos

    def timeout_for(self, key, did, tmo):
        if tmo == 'N':
            return None
        if tmo == 'Z':
            return 0 if did % 2 == 0 else 0.0
        later = [j for j in self.expire_pos.get(key, []) if j > self.n_expire]
        deadline = UNIT * later[0] if later else 1.0e6 + did
        delta = deadline - self.clock.seconds()
        assert delta > 0
        self.deadline[did] = deadline
        if did % 2 == 0 and delta == int(delta):
            return True if delta == 1 and did % 4 == 0 else int(delta)      # True is the int 1
        return delta

    def serial_of(self, who):
        key = self.refkey(who)
        if key is not None:
            did = self.resolve(who)
            if did is None or self.calls[did]['serial'] is None:
                # a reply for a call that does not exist (yet): a serial nobody uses, the same in every run
                return 0x7e000000 + 64 * key[1] + (1 + 'rsd'.index(key[0]) * 16 + key[2] if key[0] != 't' else 0)
            return self.calls[did]['serial']
        kind, n = who
        if kind == 'x':
            # the serial of the n-th top-level call of the OTHER connection of the scenario
            pr = self.peer
            if pr is not None and n < len(pr.top) and pr.calls[pr.top[n]]['serial'] is not None:
                return pr.calls[pr.top[n]]['serial']
            return 0x7c000000 + n
        if kind == 'u':
            return 0x7f000000 + n
        if kind == 'h':
            return self.hello_serial
        return self.loc.serials.peek() + n    # 'f': ahead of the counter

    def raw_reply(self, op):
        m = self.message
        serial = self.serial_of(op[1])
        if self.templates:
            own = self.loc.serials.take()        # the reply would have consumed one serial of the process-wide counter
            return serial, patched_reply(m, op[0], op[2], serial, own)
        if op[0] == 'ret':
            sig, body = RET_VARIANTS[op[2]]
            return serial, m.MethodReturnMessage(serial, signature=sig, body=body).rawMessage
        name, sig, body = ERR_VARIANTS[op[2]]
        return serial, m.ErrorMessage(name, serial, signature=sig, body=body).rawMessage

    def model_reply_line(self, op, serial):
        if op[0] == 'ret':
            sig, body = parsed_view(*RET_VARIANTS[op[2]])
            return 'ret %d %s %s' % (serial, sig_tok(sig), body_tok(body))
        name, sig, body = ERR_VARIANTS[op[2]]
        sig, body = parsed_view(sig, body)
        return 'err %d %s %s' % (serial, 'S' + str_hex(name), body_tok(body))

    @staticmethod
    def newcalls_line(kind, k, calls):
        return ' '.join('%s %s {%s:%d:%d}' % (t, rs_tok('K' if r == 'SAME' else r), kind, k, j)
                        for j, (t, r) in enumerate(calls))

    def do(self, op):
        """Run one operation; returns (model lines, fault names, reply serials used, dids the operation names).
        A model line may contain placeholders `{r:k:j}` (serial of a call a callback will issue), filled in by
        `finish_lines` when the scenario is over."""
        kind = op[0]
        lines, faults, serials, targets = [], [], [], []
        self.created = []
        if kind in ('ret', 'err', 'group'):
            # the reply bytes are built outside the guarded region: a failure here is the harness's own
            raws = []
            for sub in (op[1] if kind == 'group' else [op]):
                targets.append(self.resolve(sub[1]))
                serial, raw = self.raw_reply(sub)
                serials.append(serial)
                lines.append(self.model_reply_line(sub, serial))
                raws.append(raw)
            data = b''.join(raws)
        try:
            if kind == 'call':
                er, tmo, rs = op[1], op[2], op[3]
                react = op[4] if len(op) > 4 and op[4] and er else None
                react_ok = op[5] if len(op) > 5 and op[5] and er else None
                k = len(self.top)
                did, serial = self._issue(('t', k), er, tmo, rs, react, react_ok)
                if serial is None:
                    lines.append('callbad %s' % rs_tok(rs))
                else:
                    lines.append('call %d %d %s %s' % (serial, 1 if er else 0, tmo, rs_tok(rs)))
                    if react:
                        lines.append('onerr %d %s' % (did, self.newcalls_line('r', k, react)))
                    if react_ok:
                        lines.append('onok %d %s' % (did, self.newcalls_line('s', k, react_ok)))
            elif kind == 'callmsg':
                # callRemoteMessage with a prepared message; the errback may re-send the same object
                tmo = op[1]
                react = op[2] if len(op) > 2 and op[2] else None
                k = len(self.top)
                did, serial = self._issue(('t', k), 1, tmo, 'K', react, None, via_msg=True)
                lines.append('call %d 1 %s K' % (serial, tmo))
                if react:
                    lines.append('onerr %d %s' % (did, self.newcalls_line('r', k, react)))
            elif kind in ('callbad', 'callbig'):
                rs = op[1]
                did = len(self.calls)
                kw = {}
                if rs != 'K':
                    kw['returnSignature'] = rs
                mark = len(self.tr.value())
                if kind == 'callbad':
                    d = self.conn.callRemote('/obj', 'bad member!', interface='org.t.Iface', **kw)
                else:
                    # message larger than the maximum: raised by _marshal AFTER the serial was taken
                    cls = self.message.DBusMessage
                    saved = cls._maxMsgLen
                    cls._maxMsgLen = 120
                    try:
                        d = self.conn.callRemote('/obj', 'Method', interface='org.t.Iface', destination='org.t.Dest',
                                                 signature='s', body=['x' * 300], **kw)
                    finally:
                        cls._maxMsgLen = saved
                sent = self.tr.value()[mark:]
                self.calls.append({'serial': None, 'er': True, 'tmo': 'N', 'rs': rs, 'bad': True,
                                   'sent': len(sent), 'ref': ('t', len(self.top))})
                self.created.append(did)
                self.top.append(did)
                self._attach(did, d)
                lines.append('callbad %s' % rs_tok(rs))
            elif kind == 'recall':
                k = self.resolve(op[1])
                did = len(self.calls)
                c = self.calls[k]
                timeout = self.timeout_for(('t', len(self.top)), did, c['tmo'])
                mcall = c.get('mcall')
                if mcall is None:
                    raise ValueError('recall of a call that was not made with a prepared message (callmsg)')
                d = self.conn.callRemoteMessage(mcall, timeout)
                d.addCallback(lambda m: self.loc.conv.convert(m, self.loc.NOCHECK))
                self.calls.append({'serial': c['serial'], 'er': True, 'tmo': c['tmo'], 'rs': 'K', 'mcall': mcall,
                                   'ref': ('t', len(self.top))})
                self.created.append(did)
                self.top.append(did)
                self._attach(did, d)
                lines.append('call %d 1 %s K' % (c['serial'], c['tmo']))
            elif kind == 'ondisc':
                i = len(self.dcs)
                action = op[1]
                self.dcs.append(action)
                if action == 'raise':
                    def dc(conn, reason):
                        raise DisconnectCallbackBoom('disconnect callback %d raises' % i)
                    lines.append('ondisc raise')
                else:
                    def dc(conn, reason, i=i, action=action):
                        for j, (tmo, rs) in enumerate(action):
                            self._issue(('d', i, j), 1, tmo, rs)
                    lines.append('ondisc calls %s' % self.newcalls_line('d', i, action))
                self.conn.notifyOnDisconnect(dc)
            elif kind == 'otherconn':
                self.other_connection()
            elif kind in ('ret', 'err', 'group'):
                self.conn.dataReceived(data)
            elif kind in ('expire', 'expire2'):
                self.n_expire += 1
                ds = [self.resolve(ref) for ref in op[1:]]
                targets.extend(ds)
                # equal deadlines run in the order the timers were created = the order of the calls
                for did in sorted(ds, key=lambda x: (x is None, x)):
                    lines.append('expire %d' % (did if did is not None else 999999))
                target = UNIT * self.n_expire
                self.clock.advance(target - self.clock.seconds())
            elif kind == 'lost':
                lines.append('lost %d' % op[1])
                self.is_lost = True
                self.conn.connectionLost(self.reason(op[1]))
            else:
                raise ValueError('unknown op %r' % (op,))
        except DisconnectCallbackBoom:
            faults.append('callbackRaised')
        except KeyError:
            faults.append('keyError')
        except (self.terror.AlreadyCalled, self.terror.AlreadyCancelled):
            faults.append('alreadyCalled')
        except (AssertionError, ValueError, self.loc.mod.LocateError):
            raise
        except Exception as e:   # anything else escaping the code under test
            faults.append('exc:' + type(e).__name__)
        if self.harness_error is not None:
            raise self.harness_error
        self.tr.clear()
        self.claim_timers()
        return lines, faults, serials, targets

    def other_connection(self):
        """A second connection of the same process (own transport, same reactor), made ready, with one call
        outstanding that nothing in the scenario ever answers: whatever happens on the first connection, it must
        neither complete nor disappear."""
        before = set(id(dc) for dc in self.clock.getDelayedCalls())
        c, t, f, hello = self.loc.mod.ready_connection(self.client, self.message, ':1.43')
        t.clear()
        d = c.callRemote('/obj', 'Method', interface='org.t.Iface', destination='org.t.Dest')
        serial = le32(t.value()[8:12])
        self.foreign |= set(id(dc) for dc in self.clock.getDelayedCalls()) - before
        fired = []
        d.addBoth(fired.append)
        self.others.append({'conn': c, 'serial': serial, 'fired': fired, 'ready': c.busName == ':1.43'})

    def finish_lines(self, lines):
        """Fill in the serials of the calls issued by callbacks (a callback that never ran: any unused serial)."""
        def sub(m):
            key = (m.group(1), int(m.group(2)), int(m.group(3)))
            did = self.rdid.get(key)
            if did is None or self.calls[did]['serial'] is None:
                return str(0x7d000000 + 64 * key[1] + 'rsd'.index(key[0]) * 16 + key[2])
            return str(self.calls[did]['serial'])
        return [PLACEHOLDER_RE.sub(sub, ln) for ln in lines]

    def my_delayed(self):
        """Delayed calls of THIS connection (another connection of the process uses the same reactor)."""
        return [dc for dc in self.clock.getDelayedCalls() if id(dc) not in self.foreign]

    # -- canonical observation -------------------------------------------------
    def outcome_str(self, did, kind, val):
        c = self.calls[did]
        if kind == 'cb':
            return self.value_str(val, None)
        e = val.value
        err = self.error
        for n, r in self.reasons.items():
            if val is r or e is r.value:
                return 'LOST %d' % n
        if isinstance(e, err.RemoteError):
            if 'values' in e.__dict__:
                vals = _clip(e.values, 64) if isinstance(e.values, (list, tuple)) else ['<%s>' % type(e.values).__name__]
                return ' '.join(['RE', _hex_or_q(e.errName), _hex_or_q(e.message)] + [tok(v) for v in vals])
            return 'SE'        # locally generated RemoteError: class only, its wording is not the property's
        if isinstance(e, err.TimeOut):
            return 'TO'
        if c.get('bad'):
            return 'EXC'
        return '?' + type(e).__name__

    def value_str(self, val, _):
        if val is None:
            return 'N'
        # `_cbCvtReply` returns msg.body[0] or msg.body; tell them apart through the last reply delivered
        body = self.last_body
        if body is not None:
            if len(body) == 1 and tok(val) == tok(body[0]):
                return '1 ' + tok(val)
            if isinstance(val, list) and [tok(v) for v in val] == [tok(v) for v in body]:
                return ' '.join(['L'] + [tok(v) for v in val])
        return '?' + tok(val)

    last_body = None

    def timer_owners(self):
        """(did, serial) of the call each delayed call of this connection belongs to ((-1, -1): nobody's)."""
        ts = []
        unmatched = []
        for dc in self.my_delayed():
            # which call the timer belongs to: the Deferred among its arguments, else the serial among them
            args = list(dc.args) + list(dc.kw.values())
            did = next((self.dids[id(a)] for a in args if id(a) in self.dids), None)
            serial = next((a for a in args if type(a) is int), None)
            if did is None and serial is not None:
                did = next((k for k in range(len(self.calls) - 1, -1, -1) if self.calls[k]['serial'] == serial), None)
            if did is not None and serial is None:
                serial = self.calls[did]['serial']
            if did is not None and serial is not None:
                ts.append((did, serial))
            else:
                unmatched.append(dc)
        # a timer that carries neither (a closure): the call whose deadline it has
        taken = set(t[0] for t in ts) | set(r[0] for r in self.rec)      # completed calls have no timer to claim
        for dc in unmatched:
            did = next((k for k in sorted(self.deadline) if k not in taken and self.calls[k]['er']
                        and abs(self.deadline[k] - dc.getTime()) < 1e-9), None)
            if did is None:
                ts.append((-1, -1))
            else:
                taken.add(did)
                ts.append((did, self.calls[did]['serial']))
        return ts

    def snapshot(self, new_rec, faults, bodies):
        fs = []
        for i, (did, kind, val) in enumerate(new_rec):
            self.last_body = bodies.get(did)
            fs.append('%d=%s' % (did, self.outcome_str(did, kind, val)))
        ps = []
        for serial, (d, timeout) in self.conn._pendingCalls.items():
            ps.append('%d:%s:%s' % (serial, self.dids.get(id(d), '?'), 't' if timeout else '-'))
        ts = sorted(self.timer_owners())
        return 'F[%s] P[%s] T[%s] X[%s]' % (';'.join(fs), ','.join(ps),
                                            ','.join('%d:%d' % t for t in ts), ','.join(faults))


def _clip(vals, n=32):
    """A list a leak lets grow without bound is looked at up to its first n items and its length."""
    return list(vals) if len(vals) <= n else list(vals[:n]) + ['<%d values in all>' % len(vals)]


def freeze(kind, val):
    """What a delivered result looks like now: the value, or the name / message / values of a RemoteError."""
    if kind == 'cb':
        return tok_deep(val)
    e = val.value
    if type(e).__name__ == 'RemoteError':
        vals = getattr(e, 'values', None)
        return json.dumps([_norm(getattr(e, 'errName', None)), _norm(getattr(e, 'message', None)),
                           _norm(_clip(vals) if isinstance(vals, (list, tuple)) else vals)])
    return None


PLACEHOLDER_RE = re.compile(r'\{([rsd]):(\d+):(\d+)\}')
LINE_RE = re.compile(r'^F\[(.*)\] P\[(.*)\] T\[(.*)\] X\[(.*)\]$')


def merge_lines(lines):
    """Merge the model's answers to the operations of one group into one observation line."""
    lines = [ln for ln in lines if ln != 'ok'] or ['ok']      # `onerr` only registers an errback
    if len(lines) == 1:
        return lines[0]
    fs, xs, p, t = [], [], '', ''
    for ln in lines:
        m = LINE_RE.match(ln)
        if not m:
            return ' | '.join(lines)
        if m.group(1):
            fs.append(m.group(1))
        if m.group(4):
            xs.append(m.group(4))
        p, t = m.group(2), m.group(3)
    return 'F[%s] P[%s] T[%s] X[%s]' % (';'.join(fs), p, t, ','.join(xs))


class Step:
    __slots__ = ('op', 'lines', 'faults', 'new', 'obs', 'serials', 'targets', 'created')


def _bodies_for(im, op, new, serials):
    """did -> parsed body of the reply of this operation that carries that call's serial (in order of arrival:
    the first reply with the serial is the one that can have completed the call)."""
    out = {}
    subs = op[1] if op[0] == 'group' else [op]
    fired = [did for did, kind, _ in new if kind == 'cb']
    for sub, serial in zip(subs, serials):
        if sub[0] != 'ret':
            continue
        _, body = parsed_view(*RET_VARIANTS[sub[2]])
        for did in fired:
            if im.calls[did]['serial'] == serial and did not in out:
                out[did] = body
                break
    return out


# --------------------------------------------------------------------------- the property monitor (S4)
class Monitor:
    """Judges a trace of the implementation against the property statement.  Independent of the model:
    it knows the calls issued (serial read from the bytes the connection wrote), the events injected and
    what every Deferred delivered."""

    def __init__(self, im):
        self.im = im
        self.state = {}         # did -> 'open' | 'done'
        self.fired = {}         # did -> number of firings
        self.lost = False
        self.postloss = set()   # calls issued after the connection was lost / by errbacks while it was being lost
        self.missed = set()     # calls issued by a disconnect callback that the loss did not fail
        self.problems = []      # (key, text)

    def bad(self, key, text):
        self.problems.append((key, text))

    def is_loss_reason(self, k, v):
        """An errback with the reason connectionLost was given (the Failure, or one carrying its exception) - or,
        for a call made on a connection that is already gone, any connection-closed failure."""
        if k != 'eb':
            return False
        if any(v is r or v.value is r.value for r in self.im.reasons.values()):
            return True
        return isinstance(v.value, self.im.terror.ConnectionClosed)

    def open_with_serial(self, serial):
        return [d for d, s in self.state.items() if s == 'open' and self.im.calls[d]['serial'] == serial
                and self.im.calls[d]['er'] and not self.im.calls[d].get('bad')]

    # expected value predicates ------------------------------------------------
    def expect_return(self, did, sig, body, kind, val):
        err = self.im.error
        rs = self.im.calls[did]['rs']
        sig, body = parsed_view(sig, body)
        have = sig or ''
        if rs == 'K':
            mismatch = False
        elif rs is None:
            mismatch = None     # None is not a declared signature: either reading is accepted
        else:
            mismatch = (rs != have)
        is_remote = (kind == 'eb' and isinstance(val.value, err.RemoteError))
        if mismatch is True:
            if not is_remote:
                self.bad('return-signature-mismatch-not-remoteerror',
                         'call %d declared %r, reply has %r, delivered %s' % (did, rs, have, _short(kind, val)))
            return
        if mismatch is None and is_remote:
            return
        if kind != 'cb':
            self.bad('return-delivered-as-error', 'call %d: matching return delivered as %s' % (did, _short(kind, val)))
            return
        vals = body or []
        if len(vals) == 0:
            want = None
        elif len(vals) == 1 and not have.startswith('('):
            want = vals[0]
        else:
            want = vals
        if tok_deep(val) != tok_deep(want):
            self.bad('reply-convention', 'call %d: reply %r %r delivered %r, convention says %r'
                     % (did, sig, body, val, want))

    def expect_error(self, did, name, sig, body, kind, val):
        err = self.im.error
        sig, body = parsed_view(sig, body)
        if kind != 'eb' or not isinstance(val.value, err.RemoteError):
            self.bad('error-reply-not-remoteerror', 'call %d: error reply delivered as %s' % (did, _short(kind, val)))
            return
        e = val.value
        if e.errName != name:
            self.bad('remoteerror-name', 'call %d: RemoteError name %r, reply said %r' % (did, e.errName, name))
        vals = body or []
        got = getattr(e, 'values', ['<no values attribute>'])
        got = _clip(got) if isinstance(got, (list, tuple)) else [got]
        if tok_deep(got) != tok_deep(vals):
            self.bad('remoteerror-values', 'call %d: RemoteError values %r, reply carried %r' % (did, got, vals))
        if vals and sig[:1] == 's':
            if e.message != vals[0]:
                self.bad('remoteerror-message', 'call %d: RemoteError message %r, reply said %r'
                         % (did, e.message, vals[0]))
        elif not vals:
            if e.message != '':
                self.bad('remoteerror-message', 'call %d: RemoteError message %r for a reply without arguments'
                         % (did, e.message))

    # one step -----------------------------------------------------------------
    def step(self, st):
        im = self.im
        op = st.op
        expected = {}       # did -> checker(kind, val)
        optional = {}       # did -> checker: may fire in this step, need not
        during = set()      # calls issued by disconnect callbacks during this connectionLost
        kind = op[0]
        if kind == 'hello':
            self.state[0] = 'skip'
            return
        # kind == 'idle': the operation was done on the OTHER connection of the scenario - nothing is expected here
        if kind in ('call', 'callmsg', 'callbad', 'callbig', 'recall') and not st.created:
            pass        # the operation raised before a call existed (reported below as a fault)
        elif kind in ('call', 'callmsg', 'callbad', 'callbig', 'recall'):
            did = st.created[0]
            c = im.calls[did]
            if c.get('bad'):
                self.state[did] = 'open'
                expected[did] = lambda k, v: None if k == 'eb' else self.bad(
                    'failed-construction-not-errback', 'call %d could not be constructed but was called back' % did)
            elif not c['er']:
                self.state[did] = 'open'
                expected[did] = lambda k, v: None if (k == 'cb' and v is None) else self.bad(
                    'no-reply-call-not-none', 'expectReply=False call %d delivered %s' % (did, _short(k, v)))
            else:
                self.state[did] = 'open'
        elif kind in ('ret', 'err', 'group'):
            subs = op[1] if kind == 'group' else [op]
            for sub, who in zip(subs, st.targets):
                # the reply belongs to the call it was built for (by identity, not by looking for calls that
                # happen to carry the same serial): nothing else may complete on it.  A reply built for no call
                # (unsolicited, Hello's serial, a serial not yet issued) belongs to nobody.
                if who is None:
                    continue
                c = im.calls[who]
                if not (self.state.get(who) == 'open' and c['er'] and not c.get('bad')) or who in expected:
                    continue
                did = who
                # no data is delivered on a lost connection: a reply fed to it anyway for a call issued after the
                # loss may complete that call (correctly) or not - only its deadline is owed to it
                into = optional if did in self.postloss else expected
                if did in into:
                    continue
                if sub[0] == 'ret':
                    sig, body = RET_VARIANTS[sub[2]]
                    into[did] = (lambda k, v, did=did, sig=sig, body=body: self.expect_return(did, sig, body, k, v))
                else:
                    name, sig, body = ERR_VARIANTS[sub[2]]
                    into[did] = (lambda k, v, did=did, name=name, sig=sig, body=body:
                                 self.expect_error(did, name, sig, body, k, v))
        elif kind in ('expire', 'expire2'):
            for did in st.targets:
                if did is not None and self.state.get(did) == 'open' and im.calls[did]['tmo'] == 'P' \
                        and im.calls[did]['er'] and not im.calls[did].get('unsent'):
                    def chk(k, v, did=did):
                        if not (k == 'eb' and isinstance(v.value, im.error.TimeOut)):
                            self.bad('deadline-not-timeout', 'call %d: deadline passed, delivered %s' % (did, _short(k, v)))
                    expected[did] = chk
            # timeout=0: the statement does not say whether that is "no deadline" (what the code does) or a
            # deadline that has passed at once; a TimeOut for such a call when the clock moves is accepted
            for z, s in self.state.items():
                if s == 'open' and im.calls[z]['tmo'] == 'Z' and im.calls[z]['er'] and not im.calls[z].get('bad'):
                    optional[z] = (lambda k, v, z=z: None if (k == 'eb' and isinstance(v.value, im.error.TimeOut))
                                   else self.bad('deadline-not-timeout', 'call %d (timeout=0): delivered %s'
                                                 % (z, _short(k, v))))
        elif kind == 'lost':
            reason = im.reason(op[1])
            for did, s in self.state.items():
                c = im.calls[did]
                if s == 'open' and c['er'] and not c.get('bad'):
                    def chk(k, v, did=did):
                        if not (k == 'eb' and (v is reason or v.value is reason.value)):
                            self.bad('loss-reason', 'call %d: connection lost, delivered %s' % (did, _short(k, v)))
                    expected[did] = chk
            if not self.lost:
                # connectionLost tells the disconnect callbacks (notifyOnDisconnect) and fails what is outstanding.
                # A call one of those callbacks issues - a last ReleaseName, a goodbye - is issued while the loss
                # is being handled, before anything has been failed: it is outstanding when the outstanding calls
                # are failed and is owed the loss reason like them, by the time connectionLost returns - not a
                # TimeOut later, not nothing.  (A connection that refuses the call at once with a
                # connection-closed failure does as well.)  Calls issued by the ERRBACKS of the calls the loss
                # fails are a different matter: see `late` below.
                for did in st.created:
                    c = im.calls[did]
                    if c['ref'] and c['ref'][0] == 'd' and c['er'] and not c.get('bad'):
                        during.add(did)

                        def chk(k, v, did=did):
                            if not self.is_loss_reason(k, v):
                                self.bad('loss-reason', 'call %d, issued by a disconnect callback while the loss was '
                                         'handled: delivered %s' % (did, _short(k, v)))
                        expected[did] = chk
            self.lost = True

        # a raising disconnect callback that connectionLost lets through ends connectionLost before the pending
        # calls are failed: one finding (F-1), not a shower of generic ones
        aborted = kind == 'lost' and 'callbackRaised' in st.faults
        # calls issued after the connection is lost, or by the errbacks of the calls the loss fails: failing them at
        # once with the loss reason is as good as leaving them to their deadline (the disconnect callbacks' calls
        # are in `expected`: they are owed the loss reason)
        late = set(st.created) if self.lost else set()
        # (1) exactly once / attribution: the Deferreds that fired in this step are exactly the expected ones
        seen = {}
        for did, k, v in st.new:
            seen[did] = seen.get(did, 0) + 1
            self.fired[did] = self.fired.get(did, 0) + 1
            if self.fired[did] > 1:
                self.bad('double-completion', 'call %d completed %d times' % (did, self.fired[did]))
            if kind == 'idle':
                self.bad('other-connection-affected', 'call %d of connection %s fired (%s) on %r done on the OTHER '
                         'connection' % (did, im.label, _short(k, v), op[1:]))
                self.state[did] = 'done'
            elif self.state.get(did) == 'missed':
                self.bad('call-issued-during-loss-completed-late', 'call %d, issued by a disconnect callback while '
                         'the loss was handled, was not failed by the loss; it completed only on %r, with %s'
                         % (did, op, _short(k, v)))
                self.state[did] = 'done'
            elif did in optional and did not in expected:
                optional[did](k, v)
                self.state[did] = 'done'
            elif did not in expected and (did in late or did in self.postloss) and self.state.get(did) != 'done' \
                    and self.is_loss_reason(k, v):
                self.state[did] = 'done'
            elif did not in expected:
                why = 'it had already completed' if self.state.get(did) == 'done' else 'nothing addressed to it happened'
                self.bad('completion-without-cause', 'call %d fired (%s) on %r although %s' % (did, _short(k, v), op, why))
            else:
                expected[did](k, v)
        if aborted:
            missing = sorted(d for d in expected if d not in seen)
            for did in expected:
                if did in seen:
                    self.state[did] = 'done'
            if missing:
                self.bad('loss-aborted-by-raising-disconnect-callback',
                         'a disconnect callback raised and connectionLost let the exception through: call(s) %r were '
                         'not failed with the loss reason, %d entr(ies) stay in _pendingCalls, %d timer(s) stay scheduled'
                         % (missing, len(im.conn._pendingCalls), len(im.my_delayed())))
        else:
            for did in expected:
                if did not in seen and did in during:
                    c = im.calls[did]
                    self.bad('call-issued-during-loss-not-failed', 'call %d (serial %s, %s), issued by disconnect '
                             'callback %d while connectionLost was running, had not completed when connectionLost '
                             'returned: it was not failed with the loss reason'
                             % (did, c['serial'], {'P': 'with a deadline', 'Z': 'timeout=0', 'N': 'no deadline'}[c['tmo']],
                                c['ref'][1]))
                    self.missed.add(did)
                    self.state[did] = 'missed'
                    continue
                if did not in seen:
                    self.bad('completion-missing', 'call %d did not complete on %r' % (did, op))
                self.state[did] = 'done'
        for f in st.faults:
            if f == 'callbackRaised':
                continue        # the caller's own exception; what matters is what it did to the calls (above)
            key = 'double-completion' if f == 'exc:AlreadyCalledError' else 'operation-raised'
            self.bad(key, '%r raised %s out of the connection' % (op, f))
        # calls issued by errbacks that ran during this operation (retries) are issued calls like any other
        for did in st.created:
            if self.lost and self.state.get(did) not in ('done', 'missed'):
                self.postloss.add(did)
            if did not in self.state:
                self.state[did] = 'open'
        # a call the connection did not even send because it is gone: only owed what it may get
        for did in st.created:
            if im.calls[did].get('unsent'):
                self.postloss.add(did)

        # (1b) what was delivered stays what it was: the value / the RemoteError's name, message and values are
        # those of the reply that completed the call, also after later replies (to this or any other call)
        for fz in im.frozen:
            if not fz[4] and fz[3] is not None and freeze(fz[1], fz[2]) != fz[3]:
                fz[4] = True
                what = 'remoteerror' if fz[1] == 'eb' else 'value'
                self.bad('delivered-%s-changed-later' % what,
                         'call %d was completed with %s; after %r the same object reads %s'
                         % (fz[0], fz[3], op, freeze(fz[1], fz[2])))

        # (2) no residue for completed calls; nothing at all after a loss
        pend = im.conn._pendingCalls
        delayed = im.my_delayed()
        for did, s in self.state.items():
            if s != 'done':
                continue
            c = im.calls[did]
            d = im.keep[did] if did < len(im.keep) else None
            if c['serial'] is not None and c['serial'] in pend and pend[c['serial']][0] is d:
                self.bad('residue-pending-entry', 'call %d completed but serial %d is still in _pendingCalls'
                         % (did, c['serial']))
            for dc in delayed:
                if any(a is d for a in dc.args):
                    self.bad('residue-timer', 'call %d completed but its timeout is still scheduled' % did)
        # independent of how a timer refers to its call: there are never more timers than calls that still
        # wait for a reply under a deadline
        waiting = sum(1 for did, s in self.state.items() if s in ('open', 'missed') and im.calls[did]['er']
                      and not im.calls[did].get('bad') and im.calls[did]['tmo'] in ('P', 'Z'))
        for o in im.others:
            if o['fired']:
                self.bad('other-connection-affected', "a call outstanding on ANOTHER connection of the process was "
                         'completed (%r) by %r on this one' % (o['fired'][0], op))
                o['fired'] = []
            elif o['ready'] and list(o['conn']._pendingCalls) != [o['serial']]:
                self.bad('other-connection-affected', "the table of another connection changed to %r on %r"
                         % (sorted(o['conn']._pendingCalls), op))
                o['ready'] = False
        if len(delayed) > waiting:
            self.bad('residue-timer', '%d delayed call(s) scheduled, only %d call(s) still wait under a deadline'
                     % (len(delayed), waiting))
        if kind == 'lost' and not aborted:
            # what the ERRBACKS issued while the connection was being torn down is new bookkeeping, not residue;
            # what the disconnect callbacks issued was outstanding when the table was failed: nothing of it stays
            retries = [d for d in st.created if d not in during]
            mine = {im.calls[d]['serial'] for d in retries}
            theirs = {im.calls[d]['serial']: d for d in during if im.calls[d]['serial'] is not None}
            left = sorted(k for k in pend if k not in mine and k not in theirs)
            if left:
                self.bad('residue-after-loss', '_pendingCalls not empty after connectionLost: %r' % left)
            left = sorted(k for k in pend if k not in mine and k in theirs)
            if left:
                self.bad('bookkeeping-left-after-loss', '_pendingCalls still holds serial(s) %r after connectionLost: '
                         'call(s) %r issued by disconnect callbacks while the loss was handled'
                         % (left, [theirs[k] for k in left]))
            owners = [t[0] for t in im.timer_owners()]
            held = sorted(d for d in during if d in owners)
            if held:
                self.bad('timer-left-after-loss', 'the timeout(s) of call(s) %r, issued by disconnect callbacks while '
                         'the loss was handled, are still scheduled after connectionLost' % held)
            fresh = sum(1 for d in retries if im.calls[d]['tmo'] in ('P', 'Z'))
            if len(delayed) - len(held) > fresh:
                self.bad('residue-timer-after-loss', '%d delayed call(s) left after connectionLost (%d issued by '
                         'errbacks during it)' % (len(delayed) - len(held), fresh))


def tok_deep(v):
    return json.dumps(_norm(v), separators=(',', ':'))


def _short(kind, val):
    if kind == 'cb':
        return 'callback(%r)' % (val,)
    return 'errback(%s: %s)' % (type(val.value).__name__, val.value)


# --------------------------------------------------------------------------- generators
def merges(seqs):
    """All interleavings of the sequences (each keeps its own order)."""
    seqs = [s for s in seqs if s]
    if not seqs:
        yield []
        return
    for i, s in enumerate(seqs):
        rest = seqs[:i] + [s[1:]] + seqs[i + 1:]
        for tail in merges(rest):
            yield [s[0]] + tail


def canon_calls(seq):
    """Rename call labels by order of issue."""
    ren = {}
    out = []
    for ev in seq:
        kind, lab = ev[0], ev[1]
        if kind == 'C':
            ren[lab] = len(ren)
        out.append((kind, ren[lab]) + tuple(ev[2:]))
    return tuple(out)


NO_TIMER_PROFILES = [[], ['R'], ['E'], ['R', 'R'], ['R', 'E'], ['E', 'R'], ['E', 'E']]
TIMER_PROFILES = [[], ['R'], ['E'], ['X'], ['R', 'X'], ['X', 'R'], ['E', 'X'], ['X', 'E'], ['X', 'X']]


def profiles(maxlen, timer):
    alphabet = 'REX' if timer else 'RE'
    out = []
    for n in range(maxlen + 1):
        for p in itertools.product(alphabet, repeat=n):
            if p.count('X') <= 2:
                out.append(list(p))
    return out


def abstract_schedules(n_calls, maxlen, special=()):
    """Distinct interleavings (up to renaming of calls) of n_calls call sequences.
    A call sequence is ('C', i, kind) followed by its events; kind in 'T' (timer), 'P' (plain), 'O'
    (expectReply=False), 'B' (construction fails)."""
    kinds = [('T', p) for p in profiles(maxlen, True)] + [('P', p) for p in profiles(maxlen, False)]
    kinds += list(special)
    seen = set()
    for combo in itertools.combinations_with_replacement(range(len(kinds)), n_calls):
        seqs = []
        for i, ki in enumerate(combo):
            k, p = kinds[ki]
            seqs.append([('C', i, k)] + [(e, i) for e in p])
        for m in merges(seqs):
            c = canon_calls(m)
            if c not in seen:
                seen.add(c)
                yield c


class Rot:
    """Deterministic rotation over the variant tables (so that contents are spread over the scenarios)."""

    def __init__(self, rng):
        self.i = rng.randrange(1000)

    def next(self, n):
        self.i += 1
        return (self.i * 7919) % n


def concretise(abstract, rot, extra=None, extra_pos=None, stream='interleave-exhaustive'):
    """abstract schedule -> scenario.  extra = ('L',) loss | ('U', kind) unsolicited reply, inserted at extra_pos."""
    ops = []
    evs = list(abstract)
    if extra is not None:
        evs.insert(extra_pos, extra)
    # contents of the returns first, so that a call's declared signature can be made to match its first return
    retv = {}
    first_ret = {}
    for i, ev in enumerate(evs):
        if ev[0] == 'R':
            retv[i] = rot.next(len(RET_VARIANTS))
            first_ret.setdefault(ev[1], retv[i])
    for i, ev in enumerate(evs):
        k = ev[0]
        if k == 'C':
            kind = ev[2]
            q = rot.next(10)
            if q < 4:
                rs = 'K'
            elif q < 7 and ev[1] in first_ret:
                rs = RET_VARIANTS[first_ret[ev[1]]][0] or ''
            else:
                rs = RS_VARIANTS[rot.next(len(RS_VARIANTS))]
            if kind == 'T':
                ops.append(['call', 1, 'P', rs])
            elif kind == 'P':
                ops.append(['call', 1, 'N' if rot.next(2) else 'Z', rs])
            elif kind == 'O':
                ops.append(['call', 0, 'P' if rot.next(2) else 'N', rs])
            else:
                ops.append(['callbad', rs])
        elif k == 'R':
            ops.append(['ret', ev[1], retv[i]])
        elif k == 'E':
            ops.append(['err', ev[1], rot.next(len(ERR_VARIANTS))])
        elif k == 'X':
            ops.append(['expire', ev[1]])
        elif k == 'L':
            ops.append(['lost', rot.next(3)])
        elif k == 'U':
            who = [ev[1], rot.next(5)]
            if rot.next(2):
                ops.append(['ret', who, rot.next(len(RET_VARIANTS))])
            else:
                ops.append(['err', who, rot.next(len(ERR_VARIANTS))])
    return {'stream': stream, 'ready': True, 'serial0': 1 + rot.next(3) * 255, 'ops': ops}


def gen_exhaustive(ctx):
    """(n calls, max events per call, special call kinds, 1/k of the schedules get a loss at every position,
    1/k an unsolicited reply at every position, 1/k of the plain schedules are run).  k = 0: none."""
    rot = Rot(ctx.rng)
    special = [('O', []), ('O', ['R']), ('O', ['E']), ('B', [])]
    if ctx.tier == 'thorough':
        plan = [(1, 3, special, 1, 1, 1), (2, 2, special, 1, 1, 1), (3, 1, [], 1, 1, 1),
                (3, 2, [], 0, 0, 60), (4, 1, [], 20, 0, 1)]
    elif ctx.widen:
        plan = [(1, 3, special, 1, 1, 1), (2, 2, special, 1, 2, 1), (3, 1, [], 2, 4, 1)]
    else:
        plan = [(1, 3, special, 1, 1, 1), (2, 1, special, 1, 1, 1), (2, 2, special, 6, 12, 1), (3, 1, [], 8, 16, 1)]
    for n, maxlen, spec, kloss, kunsol, kbase in plan:
        off = rot.next(997)
        for i, a in enumerate(abstract_schedules(n, maxlen, spec)):
            if (i + off) % kbase:
                continue
            yield concretise(a, rot)
            m = len(a)
            if kloss and (i + off) % kloss == 0:
                for pos in range(m + 1):
                    yield concretise(a, rot, ('L',), pos)
            if kunsol and (i + off) % kunsol == 0:
                for pos in range(m + 1):
                    yield concretise(a, rot, ('U', 'u' if pos % 3 else ('h' if pos % 2 else 'f')), pos)


def gen_random(rng, max_calls=12):
    n = rng.randint(1, max_calls)
    p_timer = rng.choice([0.0, 0.3, 0.6, 1.0])
    p_loss = rng.choice([0.0, 0.0, 0.04, 0.1])
    ops = []
    calls = []          # per did: {'er', 'tmo', 'bad', 'postloss'}
    lost = False
    steps = rng.randint(n, 4 * n + 4)
    issued = 0
    for _ in range(steps):
        r = rng.random()
        if issued < n and (r < 0.3 or not calls):
            q = rng.random()
            rs = 'K' if rng.random() < 0.5 else rng.choice(RS_VARIANTS)
            if q < 0.06:
                ops.append(['callbad', rs])
                calls.append({'er': True, 'tmo': 'N', 'bad': True, 'postloss': lost})
            else:
                er = 0 if q < 0.14 else 1
                tmo = 'P' if rng.random() < p_timer else rng.choice('NZ')
                ops.append(['call', er, tmo, rs])
                calls.append({'er': bool(er), 'tmo': tmo, 'bad': False, 'postloss': lost})
            issued += 1
            continue
        if not lost and rng.random() < p_loss:
            ops.append(['lost', rng.randrange(3)])
            lost = True
            continue

        def reply():
            if rng.random() < 0.12:
                who = [rng.choice('ufh'), rng.randrange(6)]
            else:
                cands = [i for i, c in enumerate(calls) if not c['bad'] and not (lost and c['postloss'])]
                if not cands:
                    who = ['u', rng.randrange(6)]
                else:
                    who = rng.choice(cands)
            if rng.random() < 0.6:
                return ['ret', who, rng.randrange(len(RET_VARIANTS))]
            return ['err', who, rng.randrange(len(ERR_VARIANTS))]

        if r < 0.75:
            if rng.random() < 0.15:
                ops.append(['group', [reply() for _ in range(rng.randint(2, 4))]])
            else:
                ops.append(reply())
        else:
            timed = [i for i, c in enumerate(calls) if c['tmo'] == 'P' and c['er'] and not c['bad']]
            if timed:
                ops.append(['expire', rng.choice(timed)])
            else:
                ops.append(reply())
    return {'stream': 'random-schedules', 'ready': True,
            'serial0': rng.choice([1, 1, 200, 2570, 65530, 2 ** 31 - 40]), 'ops': ops}


REENTRANT_REACTS = [[['P', 'K']], [['N', 'K']], [['Z', 'K']], [['P', 'K'], ['N', 'K']], [['P', 's'], ['P', 'K']]]


def gen_reentrant_systematic():
    """One or two calls whose errback retries (1-2 new calls, with / without deadline); the errback is made to run
    by an error reply, the call's own deadline, a return failing the declared signature, or the loss of the
    connection; then every short order of {deadline, return, error, loss} on the calls the errback issued."""
    def follows(react, k, may_lose):
        r0 = ['r', k, 0]
        x0 = [['expire', r0]] if react[0][0] == 'P' else []
        out = [[], [['ret', r0, 2]], [['err', r0, 2]]]
        if x0:
            out += [x0, x0 + [['ret', r0, 2]], [['ret', r0, 2]] + x0, [['err', r0, 2]] + x0, x0 + x0]
        if may_lose:
            out += [[['lost', 1]], [['lost', 1]] + x0, [['ret', r0, 4], ['lost', 1]]]
            if x0:
                out += [x0 + [['lost', 1]]]
        if len(react) > 1:
            r1 = ['r', k, 1]
            x1 = [['expire', r1]] if react[1][0] == 'P' else []
            out += [x0 + x1, x1 + x0, [['ret', r1, 2]] + x0 + x1]
            if may_lose:
                out += [[['lost', 1]] + x1 + x0]
        return out

    for nbase in (1, 2):
        for base_tmo in ('P', 'N'):
            for react in REENTRANT_REACTS:
                for trig in ('err', 'expire', 'mismatch', 'lost'):
                    if trig == 'expire' and base_tmo != 'P':
                        continue
                    rs = 's' if trig == 'mismatch' else 'K'
                    head = [['call', 1, base_tmo, rs, react] for _ in range(nbase)]
                    fire = {'err': [['err', 0, 2]], 'expire': [['expire', 0]], 'mismatch': [['ret', 0, 4]],
                            'lost': [['lost', 0]]}[trig]
                    for f in follows(react, 0, trig != 'lost'):
                        tail = list(f)
                        if nbase == 2 and trig == 'lost':
                            # the second call's errback retried as well
                            tail = tail + ([['expire', ['r', 1, 0]]] if react[0][0] == 'P' else [['ret', ['r', 1, 0], 2]])
                        yield {'stream': 'reentrant', 'ready': True, 'serial0': 1, 'ops': head + fire + tail}


def gen_reentrant_random(rng):
    n = rng.randint(1, 5)
    ops, tops, dcs = [], [], []  # tops: per top-level call {'tmo', 'react', 'react_ok'}; dcs: disconnect callbacks
    lost = False
    for _ in range(rng.randint(n + 1, 4 * n + 6)):
        r = rng.random()
        if len(tops) < n and (r < 0.3 or not tops):
            tmo = rng.choice('PPN')
            rs = rng.choice(['K', 'K', 's', 'i'])
            react = [[rng.choice('PPNZ'), rng.choice(['K', 'K', 's'])] for _ in range(rng.choice([0, 1, 1, 2]))]
            react_ok = [[rng.choice('PPNZ'), 'K'] for _ in range(rng.choice([0, 0, 1, 2]))]
            if rng.random() < 0.06:
                ops.append([rng.choice(['callbad', 'callbig']), rs])
                tops.append({'tmo': 'N', 'react': [], 'react_ok': [], 'bad': True})
                continue
            op = ['call', 1, tmo, rs]
            if react or react_ok:
                op.append(react)
            if react_ok:
                op.append(react_ok)
            ops.append(op)
            tops.append({'tmo': tmo, 'react': react, 'react_ok': react_ok})
            continue
        if r < 0.33 and not lost:
            q = rng.random()
            if q < 0.4:
                ops.append(['ondisc', [[rng.choice('PPNNZ'), rng.choice(['K', 'K', 'K', 's'])]
                                       for _ in range(rng.randint(1, 2))]])
                dcs.append(ops[-1][1])
                continue
            if q < 0.6:
                ops.append(['otherconn'])
                continue
        if not lost and r < 0.4:
            ops.append(['lost', rng.randrange(3)])
            lost = True
            continue
        refs = [k for k, t in enumerate(tops) if not t.get('bad')]
        refs += [['r', k, j] for k, t in enumerate(tops) for j in range(len(t['react']))]
        refs += [['s', k, j] for k, t in enumerate(tops) for j in range(len(t['react_ok']))]
        refs += [['d', i, j] for i, a in enumerate(dcs) for j in range(len(a))]
        if not refs:
            continue

        def tmo_of(w):
            if isinstance(w, int):
                return tops[w]['tmo']
            if w[0] == 'd':
                return dcs[w[1]][w[2]][0]
            return tops[w[1]]['react' if w[0] == 'r' else 'react_ok'][w[2]][0]
        who = rng.choice(refs)
        tmo = tmo_of(who)
        if tmo == 'P' and rng.random() < 0.5:
            other = [w for w in refs if w != who and tmo_of(w) == 'P']
            if other and rng.random() < 0.3:
                ops.append(['expire2', who, rng.choice(other)])     # equal deadlines, one Clock.advance
            else:
                ops.append(['expire', who])
        elif rng.random() < 0.55:
            ops.append(['err', who, rng.randrange(len(ERR_VARIANTS))])
        else:
            ops.append(['ret', who, rng.randrange(len(RET_VARIANTS))])
    return {'stream': 'reentrant', 'ready': True, 'serial0': rng.choice([1, 1, 300]), 'ops': ops}


DC_ACTIONS = [['raise'], [[['P', 'K']]], [[['N', 'K']]], [[['P', 'K']], 'raise'], ['raise', [['P', 'K']]],
              [[['N', 'K'], ['P', 'K']], [['P', 'K']]], ['raise', 'raise'],
              [[['Z', 'K']]], [[['P', 's']], [['N', 'K']], [['N', 'i'], ['P', 'K']]], [[['N', 'K']], [['P', '']]]]


def gen_disconnect_callbacks():
    """notifyOnDisconnect callbacks (1-3) that raise and / or issue calls (with a deadline, without, timeout=0,
    declared return signatures), 0-2 calls outstanding when the connection is lost - plain ones, or ones whose
    errback retries when the loss fails them (so that one connectionLost sees calls issued by disconnect callbacks
    AND calls issued by errbacks); afterwards the deadlines of everything that had one, and a late reply."""
    for nbase in (0, 1, 2):
        for base_tmo in ('P', 'N'):
            for react in (None, [['P', 'K']], [['N', 'K'], ['P', 'K']]):
                if react and not nbase:
                    continue
                for acts in DC_ACTIONS:
                    if react and 'raise' in acts:
                        continue
                    for early in (False, True):
                        ops = [['ondisc', a] for a in acts] if early else []
                        ops += [['call', 1, base_tmo, 'K'] + ([react] if react else []) for _ in range(nbase)]
                        if not early:
                            ops += [['ondisc', a] for a in acts]
                        ops.append(['lost', 0])
                        for i, a in enumerate(acts):
                            if a != 'raise':
                                for j, (tmo, rs) in enumerate(a):
                                    if tmo == 'P':
                                        ops.append(['expire', ['d', i, j]])
                        for k in range(nbase if react else 0):
                            for j, (tmo, rs) in enumerate(react):
                                if tmo == 'P':
                                    ops.append(['expire', ['r', k, j]])
                        if nbase and base_tmo == 'P':
                            ops.append(['expire', 0])
                        if nbase:
                            ops.append(['ret', nbase - 1, 2])
                        yield {'stream': 'disconnect-callbacks', 'ready': True, 'serial0': 1, 'ops': ops}


def gen_resend():
    """A prepared message sent with callRemoteMessage; once that call has completed (deadline, error reply, loss) the
    caller sends the SAME message object again - from inside the errback, or later from the top level.  The serial is
    the same, but never held by two outstanding calls: the second attempt is a call like any other."""
    def follows(r, tmo2, may_lose):
        x = [['expire', r]] if tmo2 == 'P' else []
        out = [[['ret', r, 2]], [['err', r, 2]], [['ret', r, 2], ['ret', r, 4]]]
        if x:
            out += [x, [['ret', r, 2]] + x, x + [['ret', r, 2]], [['err', r, 2]] + x]
        if may_lose:
            out += [[['lost', 1]] + x, [['ret', r, 2], ['lost', 1]]]
        return out

    for tmo1 in ('P', 'N'):
        for tmo2 in ('P', 'N'):
            for trig in ('expire', 'err', 'lost'):
                if trig == 'expire' and tmo1 != 'P':
                    continue
                for extra in ([], [['call', 1, 'P', 'K']]):
                    k = len(extra)
                    fire = {'expire': [['expire', k]], 'err': [['err', k, 2]], 'lost': [['lost', 0]]}[trig]
                    for f in follows(['r', k, 0], tmo2, trig != 'lost'):
                        if trig == 'lost':
                            f = [o for o in f if o[0] == 'expire']      # no data on a lost connection
                        yield {'stream': 'resend', 'ready': True, 'serial0': 1,
                               'ops': extra + [['callmsg', tmo1, [[tmo2, 'SAME']]]] + fire + f}
                    # the same, re-sent from the top level after the first attempt has completed
                    if trig != 'lost':
                        for f in follows(k + 1, tmo1, True):
                            yield {'stream': 'resend', 'ready': True, 'serial0': 1,
                                   'ops': extra + [['callmsg', tmo1]] + fire + [['recall', k]] + f}


def gen_two_connections():
    """Two live connections A and B of one process.  On each two calls (deadline / none in every combination that has
    a deadline), optionally a disconnect callback that issues a call; a reply on the one that stays; the other is LOST;
    then on the one that stays: its deadlines, late replies carrying the lost connection's serials, a new call and
    its reply; the lost one's deadlines (cancelled: nothing); finally the second loss.  Plus error replies with and
    without values alternating between the connections and on one connection (what was delivered must stay)."""
    for lose in 'AB':
        x, y = lose, ('B' if lose == 'A' else 'A')
        for t0, t1 in (('N', 'P'), ('P', 'P'), ('P', 'N')):
            for dc in (False, True):
                for kind, v in (('ret', 2), ('err', 4)):
                    for early_loss in (False, True):
                        ops = []
                        if dc:
                            ops += [[x, ['ondisc', [['P', 'K']]]], [y, ['ondisc', [['N', 'K'], ['P', 'K']]]]]
                        ops += [['A', ['call', 1, t0, 'K']], ['B', ['call', 1, t0, 'K']],
                                ['A', ['call', 1, t1, 'K']], ['B', ['call', 1, t1, 'K']]]
                        if early_loss:
                            ops += [[x, ['lost', 0]], [y, [kind, 0, v]]]
                        else:
                            ops += [[y, [kind, 0, v]], [x, ['lost', 0]]]
                        ops += [[y, ['expire', i]] for i, t in enumerate((t0, t1)) if t == 'P' and i == 1]
                        ops += [[y, ['ret', ['x', 1], 7]], [y, ['err', ['x', 0], 2]]]
                        ops += [[x, ['expire', i]] for i, t in enumerate((t0, t1)) if t == 'P']
                        if dc:
                            ops += [[x, ['expire', ['d', 0, 0]]]]
                        ops += [[y, ['call', 1, 'P', 'K']], [y, ['ret', 2, 9]], [y, ['expire', 2]]]
                        if t0 == 'P':
                            ops += [[y, ['expire', 0]]]
                        ops += [[y, ['lost', 1]]]
                        if dc:
                            ops += [[y, ['expire', ['d', 0, 1]]]]
                        yield {'stream': 'two-connections', 'ready': True, 'ops': ops}
    # what was delivered stays what it was (G12): error replies with / without values, returns with lists
    for seq in ([('A', 0, 'err', 4), ('B', 0, 'err', 0), ('A', 1, 'err', 2)],
                [('A', 0, 'err', 4), ('A', 1, 'err', 0), ('A', 2, 'err', 6)],
                [('A', 0, 'err', 2), ('B', 0, 'err', 4), ('B', 1, 'err', 1), ('A', 1, 'err', 10)],
                [('A', 0, 'ret', 7), ('B', 0, 'ret', 9), ('A', 1, 'ret', 7), ('B', 1, 'err', 4), ('A', 2, 'ret', 16)],
                [('A', 0, 'err', 0), ('A', 1, 'err', 4), ('B', 0, 'err', 0), ('B', 1, 'err', 5)]):
        for tmo in 'NP':
            ops = []
            for c in 'AB':
                n = 1 + max([k for cc, k, _, _ in seq if cc == c] + [-1])
                ops += [[c, ['call', 1, tmo, 'K']] for _ in range(n)]
            ops += [[c, [kind, k, v]] for c, k, kind, v in seq]
            yield {'stream': 'two-connections', 'ready': True, 'ops': ops}


def gen_two_random(rng):
    ops = []
    n = {'A': [], 'B': []}      # per connection: timeout kind of its top-level calls
    lost = set()
    for _ in range(rng.randint(6, 22)):
        c = rng.choice('AB')
        o = 'B' if c == 'A' else 'A'
        r = rng.random()
        if (r < 0.3 or not n[c]) and len(n[c]) < 5:
            tmo = rng.choice('PPN')
            ops.append([c, ['call', 1, tmo, rng.choice(['K', 'K', 's'])]])
            n[c].append(tmo)
        elif r < 0.36 and c not in lost:
            ops.append([c, ['ondisc', [[rng.choice('PN'), 'K']]]])
        elif r < 0.46 and c not in lost and n[c]:
            ops.append([c, ['lost', rng.randrange(3)]])
            lost.add(c)
        elif r < 0.62 and n[o] and c not in lost:
            # a reply that carries a serial of the OTHER connection
            if rng.random() < 0.5:
                ops.append([c, ['ret', ['x', rng.randrange(len(n[o]))], rng.randrange(len(RET_VARIANTS))]])
            else:
                ops.append([c, ['err', ['x', rng.randrange(len(n[o]))], rng.randrange(len(ERR_VARIANTS))]])
        elif r < 0.8 and n[c]:
            timed = [i for i, t in enumerate(n[c]) if t == 'P']
            if timed:
                ops.append([c, ['expire', rng.choice(timed)]])
        elif n[c] and c not in lost:
            k = rng.randrange(len(n[c]))
            if rng.random() < 0.5:
                ops.append([c, ['ret', k, rng.randrange(len(RET_VARIANTS))]])
            else:
                ops.append([c, ['err', k, rng.randrange(len(ERR_VARIANTS))]])
    return {'stream': 'two-connections', 'ready': True, 'ops': ops}


def gen_reuse(rng):
    """Scenarios that re-send one message object (same serial): correspondence of the dict overwrite and of the
    faults (KeyError / AlreadyCalled) only; the property's hypothesis does not hold here."""
    ops = [['callmsg', rng.choice('PNZ')]]
    n = 1
    for _ in range(rng.randint(2, 7)):
        r = rng.random()
        if r < 0.3:
            ops.append(['recall', rng.randrange(n)])
            n += 1
        elif r < 0.4:
            ops.append(['callmsg', rng.choice('PN')])
            n += 1
        elif r < 0.7:
            ops.append([rng.choice(['ret', 'err']), rng.randrange(n), rng.randrange(3)])
        elif r < 0.93:
            ops.append(['expire', rng.randrange(n)])
        else:
            ops.append(['lost', 0])
    # only calls that have a timer may be expired
    return {'stream': 'serial-reuse', 'ready': True, 'serial0': 1, 'ops': ops}


def fix_reuse(scn):
    """Drop expire operations that name a call without a timer (tmo is inherited by `recall`)."""
    tmo = []
    ops = []
    for op in scn['ops']:
        if op[0] == 'call':
            tmo.append(op[2])
        elif op[0] == 'callmsg':
            tmo.append(op[1])
        elif op[0] == 'recall':
            tmo.append(tmo[op[1]])
        elif op[0] == 'expire' and tmo[op[1]] != 'P':
            continue
        ops.append(op)
    scn['ops'] = ops
    return scn


def gen_not_ready(rng):
    ops = []
    n = 0
    for _ in range(rng.randint(1, 5)):
        r = rng.random()
        if r < 0.5:
            ops.append(['call', 1, rng.choice('PN'), 'K'])
            n += 1
        elif r < 0.8:
            ops.append(['lost', 0])
        elif n:
            ops.append(['ret', rng.randrange(1, n + 1), rng.randrange(len(RET_VARIANTS))])
    return {'stream': 'not-ready', 'ready': False, 'serial0': 1, 'ops': ops}


# --------------------------------------------------------------------------- cvt-direct stream
CVT_MSGS = [None] + [parsed_view(s, b) for s, b in RET_VARIANTS] + [
    # shapes no parsed message has (the model covers the whole function)
    (None, ['x']), ('', ['x']), ('s', []), ('s', None), (None, []), ('(s)', [['x'], 'y']), ('i', ['x', 'y']),
]
CVT_RS = RS_VARIANTS + ['__DBUS_NO_RETURN_VALUE', 'as', '(i)s']


def run_cvt_direct(ctx):
    import txdbus.client as client
    from txdbus import error, message
    loc = locators(client, message)
    ctx.note('reply converter located through: ' + loc.conv.route)
    sentinel = loc.conv.sentinel       # a str today; an object() would equal no string
    cases = [(rs, m) for rs in CVT_RS for m in CVT_MSGS]
    lines = []
    for rs, m in cases:
        if m is None:
            lines.append('cvt %s N' % rs_tok(rs))
        else:
            lines.append('cvt %s M %s %s' % (rs_tok(rs), sig_tok(m[0]), body_tok(m[1])))
    out = ctx.model(lines)
    for i, (rs, m) in enumerate(cases):
        msg = None if m is None else types.SimpleNamespace(signature=m[0], body=m[1])
        arg = loc.NOCHECK if rs == 'K' else rs
        raised = None
        val = None
        try:
            val = loc.conv.convert(msg, arg)
            if val is None:
                impl = 'N'
            elif m is not None and m[1] and len(m[1]) == 1 and val is m[1][0]:
                impl = '1 ' + tok(val)
            elif m is not None and val is m[1]:
                impl = ' '.join(['L'] + [tok(v) for v in val])
            else:
                impl = '?' + tok(val)
        except error.RemoteError as e:
            raised = e
            impl = 'SE'
        except loc.mod.LocateError:
            raise
        except Exception as e:          # a Python error on a shape no parsed message has
            raised = e
            impl = 'PYERR'
        case = {'stream': 'cvt-direct', 'rs': rs, 'msg': m}
        ctx.case('cvt-direct', sample=case, nontrivial=m is not None)
        ctx.stat('cvt:' + impl.split(' ')[0])
        # shapes a parsed message can have: signature absent / empty exactly when there is no value.  What the
        # function does on other shapes (TypeError today) is nobody's business: run, never compared
        wellformed = m is None or ((m[1] is None) == (not m[0]) and (m[1] is None or len(m[1]) > 0))
        if not wellformed:
            ctx.stat('cvt:shape-no-parsed-message-has')
            continue
        if out is not None and out[i] != impl:
            ctx.disagree('cvt-direct', case, out[i], impl)
        if m is None:
            if not (raised is None and val is None):
                ctx.violation('reply-convention', 'an expectReply=False call must deliver None', case, impl, 'N')
            continue
        have = m[0] or ''
        vals = m[1] or []
        declared = None if (rs == 'K' or (isinstance(sentinel, str) and rs == sentinel)) else rs
        if rs is None:
            if isinstance(raised, error.RemoteError):
                continue
            mismatch = False
        else:
            mismatch = declared is not None and declared != have
        if mismatch:
            if not isinstance(raised, error.RemoteError):
                ctx.violation('return-signature-mismatch-not-remoteerror',
                              'declared %r, reply %r: no RemoteError' % (rs, have), case, impl, 'RemoteError')
            continue
        if raised is not None:
            ctx.violation('reply-convention', 'matching reply raised %r' % (raised,), case, impl, 'a value')
            continue
        want = None if not vals else (vals[0] if len(vals) == 1 and not have.startswith('(') else vals)
        if tok_deep(val) != tok_deep(want):
            ctx.violation('reply-convention', 'reply %r %r delivered %r, convention says %r' % (m[0], m[1], val, want),
                          case, impl, tok_deep(want))
    ctx.impl_trace(len(cases))


# --------------------------------------------------------------------------- judging scenarios
def flat_ops(scn):
    """The operations of a scenario without the connection they are done on."""
    if scn.get('stream') == 'two-connections':
        return [o[1] for o in scn['ops']]
    return scn['ops']


def _step(im, mon, op, lines, faults, new, serials, targets, created):
    st = Step()
    st.op, st.lines, st.faults, st.new, st.serials = op, lines, faults, new, serials
    st.targets, st.created = targets, created
    st.obs = im.snapshot(new, faults, _bodies_for(im, op, new, serials) if op[0] in ('ret', 'err', 'group') else {})
    mon.step(st)
    return st


def monitor_two(scn):
    """Stream two-connections: two live connections A and B of one process (one reactor, one serial counter), operations
    `[conn, op]`.  Each connection has its own monitor and its own trace (compared with its own run of the model); an
    operation done on one is an `idle` step of the other: nothing may fire there, table and timers stay."""
    a = Impl(scn, label='A')
    b = Impl(scn, share=a, label='B')
    ims = {'A': a, 'B': b}
    j = 0
    pos = {'A': {}, 'B': {}}
    for c, op in scn['ops']:
        if op[0] in ('expire', 'expire2'):
            j += 1
            for ref in op[1:]:
                pos[c].setdefault(Impl.refkey(ref), []).append(j)
    a.expire_pos, b.expire_pos = pos['A'], pos['B']
    mons = {'A': Monitor(a), 'B': Monitor(b)}
    steps = {'A': [], 'B': []}
    for c, op in scn['ops']:
        o = 'B' if c == 'A' else 'A'
        im, other = ims[c], ims[o]
        n0, m0 = len(im.rec), len(other.rec)
        lines, faults, serials, targets = im.do(op)
        other.created = []
        steps[c].append(_step(im, mons[c], op, lines, faults, im.rec[n0:], serials, targets, list(im.created)))
        steps[o].append(_step(other, mons[o], ['idle', c, op], [], [], other.rec[m0:], [], [], list(other.created)))
    out = []
    for c in 'AB':
        for st in steps[c]:
            st.lines = ims[c].finish_lines(st.lines)
        out.append((ims[c], steps[c], [(k, 'connection %s: %s' % (c, t)) for k, t in mons[c].problems]))
    return out


def monitor_scenario(scn):
    """Run the scenario with the monitor attached after every step.  Returns the traces [(im, steps, problems)] - one
    per connection.  `history`: scenarios to run first in the same process (a replay that needs what came before)."""
    for h in scn.get('history', []):
        monitor_scenario(h)
    if scn.get('stream') == 'two-connections':
        return monitor_two(scn)
    im = Impl(scn)
    ops = scn['ops']
    im.plan_deadlines(ops)
    mon = Monitor(im)
    steps = []
    if not scn.get('ready', True):
        # the Hello call issued by connectionAuthenticated is Deferred 0 of the model
        d, timeout = im.conn._pendingCalls[im.hello_serial]
        im.dids[id(d)] = 0
        im.keep.append(d)
        im.calls.append({'serial': im.hello_serial, 'er': True, 'tmo': 'N', 'rs': 'K', 'hello': True, 'ref': None})
        st = Step()
        st.op, st.lines, st.faults, st.new, st.serials = ['hello'], ['call %d 1 N K' % im.hello_serial], [], [], []
        st.targets, st.created = [], [0]
        st.obs = im.snapshot([], [], {})
        steps.append(st)
        mon.step(st)
    for op in ops:
        n0 = len(im.rec)
        lines, faults, serials, targets = im.do(op)
        steps.append(_step(im, mon, op, lines, faults, im.rec[n0:], serials, targets, list(im.created)))
    for st in steps:
        st.lines = im.finish_lines(st.lines)
    return [(im, steps, mon.problems)]


ORACLE_STREAMS = ('interleave-exhaustive', 'random-schedules', 'reentrant', 'disconnect-callbacks', 'resend',
                  'two-connections')


def fresh_world_keys(scns):
    """Run the scenarios, in order, on a freshly imported txdbus (module- and class-level state as in a new process);
    the keys of the problems the monitor finds in the LAST one."""
    import sys
    saved = {m: sys.modules.pop(m) for m in list(sys.modules) if m == 'txdbus' or m.startswith('txdbus.')}
    n_loc, n_tpl = set(_LOCATORS), set(_TEMPLATES)
    try:
        keys = set()
        for i, scn in enumerate(scns):
            traces = monitor_scenario(scn)
            if i == len(scns) - 1:
                keys = {k for _, _, problems in traces for k, _ in problems}
        return keys
    except Exception:
        return set()
    finally:
        for m in list(sys.modules):
            if m == 'txdbus' or m.startswith('txdbus.'):
                del sys.modules[m]
        sys.modules.update(saved)
        for k in set(_LOCATORS) - n_loc:
            del _LOCATORS[k]
        for k in set(_TEMPLATES) - n_tpl:
            del _TEMPLATES[k]


class Exemplars:
    """Which input goes into the replay of a key.  All scenarios of a run share one process, so state leaked at module
    or class level makes a LATER, smaller scenario fail that passes when replayed alone.  A candidate becomes the
    exemplar only if it fails with the same key on a freshly imported txdbus - alone, or after a short history
    (the first scenario of the run that received an error reply / the scenarios just before it), which is then stored
    with it (`history`) and run first by `replay`."""
    TRIES = 6

    def __init__(self):
        self.best = {}          # key -> (size, input)
        self.tries = {}
        self.recent = []
        self.first_err = None

    def ran(self, scn):
        if self.first_err is None and any(o[0] in ('err', 'group') for o in flat_ops(scn)):
            self.first_err = scn
        self.recent.append(scn)
        del self.recent[:-12]

    def input_for(self, key, scn):
        size = len(json.dumps(scn, sort_keys=True))
        best = self.best.get(key)
        if best is not None and best[0] <= size:
            return best[1], True
        if self.tries.get(key, 0) >= self.TRIES:
            return (best[1], True) if best else (self.with_history(scn), False)
        self.tries[key] = self.tries.get(key, 0) + 1
        before = [h for h in self.recent if h is not scn]
        hists = [[]]
        if self.first_err is not None and self.first_err is not scn:
            hists.append([self.first_err])
        if before:
            hists.append(before[-3:])
            hists.append(before)
        for hist in hists:
            if key in fresh_world_keys([dict(h, history=[]) for h in hist] + [dict(scn, history=[])]):
                inp = dict(scn)
                inp.pop('history', None)
                if hist:
                    inp['history'] = [{k: v for k, v in h.items() if k != 'history'} for h in hist]
                cand = (len(json.dumps(inp, sort_keys=True)), inp)
                if best is None or cand[0] < best[0]:
                    self.best[key] = best = cand
                return best[1], True
        return (best[1], True) if best else (self.with_history(scn), False)

    def with_history(self, scn):
        """Not confirmed: the scenarios that ran just before it go with it (and make it larger than any confirmed
        exemplar found later, which then replaces it)."""
        inp = dict(scn)
        inp['history'] = [{k: v for k, v in h.items() if k != 'history'} for h in self.recent if h is not scn]
        return inp


def process_batch(ctx, batch, replaying=False):
    """batch: list of scenarios.  Runs implementation + monitor, then the model on all lines at once."""
    ex = ctx.__dict__.setdefault('_c08_exemplars', Exemplars())
    results = []
    lines = []
    for scn in batch:
        try:
            traces = monitor_scenario(scn)
        except SetupFailure as e:
            ctx.case(scn['stream'], sample=scn)
            ctx.violation('matching-return-does-not-complete-hello', str(e),
                          {'stream': scn['stream'], 'ready': True, 'serial0': scn.get('serial0', 1), 'ops': []},
                          observed='connection not ready', expected='busName set, connect Deferred fired once')
            return False
        stream = scn['stream']
        if stream in ORACLE_STREAMS:
            # judged here, while the process is in the state in which the scenario ran
            for im, steps, problems in traces:
                for key, text in problems:
                    inp, confirmed = (scn, True) if replaying else ex.input_for(key, scn)
                    if not confirmed:
                        text += ' [seen in a run of many scenarios in one process; this input alone, on a freshly ' \
                                'imported txdbus, did not show it - state left by earlier scenarios is involved]'
                    ctx.violation(key, text, inp, observed=[st.obs for st in steps], expected='see property statement')
        ex.ran(scn)
        results.append((scn, traces))
        for im, steps, problems in traces:
            lines.append('reset %d' % (1 if scn.get('ready', True) else 0))
            for st in steps:
                lines.extend(st.lines)
            stats(ctx, scn, im, steps)
    out = ctx.model(lines)
    pos = 0
    for scn, traces in results:
        stream = scn['stream']
        ctx.case(stream, sample=scn, nontrivial=any(o[0] in ('call', 'recall') for o in flat_ops(scn))
                 and len(scn['ops']) > 1)
        for im, steps, problems in traces:
            ctx.impl_trace()
            if out is None:
                continue
            pos += 1   # reset
            merged = []
            for st in steps:
                k = len(st.lines)
                ans = merge_lines(out[pos:pos + k]) if k else 'ok'
                if ans == 'ok':
                    # the operation only registers a callback (or concerns another connection): the model's state
                    # is what it was
                    m = LINE_RE.match(merged[-1]) if merged else None
                    ans = 'F[] P[%s] T[%s] X[]' % ((m.group(2), m.group(3)) if m else ('', ''))
                merged.append(ans)
                pos += k
            impl_lines = [st.obs for st in steps]
            if merged != impl_lines:
                j = next(x for x in range(len(merged)) if merged[x] != impl_lines[x])
                ctx.disagree(stream, scn, merged, impl_lines,
                             detail='%sfirst difference at step %d (%r): model %s / impl %s'
                                    % ('connection %s: ' % im.label if im.label else '', j, steps[j].op, merged[j],
                                       impl_lines[j]))
    return True


def stats(ctx, scn, im, steps):
    ncalls = sum(1 for o in flat_ops(scn) if o[0] in ('call', 'callbad', 'recall'))
    ctx.stat('%s:calls=%d' % (scn['stream'][:6], ncalls))
    for o in (flat_ops(scn) if im.label != 'B' else []):
        ctx.stat('op:' + o[0])
        if o[0] == 'call':
            ctx.stat('call:er=%d,tmo=%s' % (o[1], o[2]))
            if len(o) > 4 and o[4]:
                ctx.stat('call-with-retrying-errback')
    for st in steps:
        own = 1 if st.op[0] in ('call', 'callmsg', 'callbad', 'callbig', 'recall', 'hello') else 0
        if len(st.created) > own:
            ctx.stat('call-issued-by-callback-inside:' + st.op[0], len(st.created) - own)
        if st.op[0] == 'lost':
            for did in st.created:
                c = im.calls[did]
                ctx.stat('call-issued-during-loss:by-%s,tmo=%s' % (
                    'disconnect-callback' if c['ref'][0] == 'd' else 'errback', c['tmo']))
            nd = len(set(im.calls[d]['ref'][1] for d in st.created if im.calls[d]['ref'][0] == 'd'))
            if nd:
                ctx.stat('loss:disconnect-callbacks-issuing-calls=%d%s' % (
                    nd, ',errbacks-retrying-too' if any(im.calls[d]['ref'][0] == 'r' for d in st.created) else ''))
        for did, k, v in st.new:
            if k == 'cb':
                ctx.stat('completion:value')
            else:
                ctx.stat('completion:' + type(v.value).__name__)
        if st.op[0] in ('ret', 'err') and not st.new:
            ctx.stat('reply-completing-nothing')
        if st.op[0] == 'expire' and not st.new:
            ctx.stat('expiry-after-completion')


def batches(it, size):
    buf = []
    for x in it:
        buf.append(x)
        if len(buf) >= size:
            yield buf
            buf = []
    if buf:
        yield buf


def _quiet_twisted_log():
    """connectionLost reports a raising disconnect callback through twisted.python.log.err(); with no observer
    Twisted prints that to stderr.  The harness prints nothing: give the log a sink (once per process)."""
    try:
        from twisted.logger import globalLogBeginner
        globalLogBeginner.beginLoggingTo([lambda event: None], redirectStandardIO=False, discardBuffer=True)
    except Exception:
        pass


def run(ctx):
    _quiet_twisted_log()
    import txdbus.client as client
    saved_reactor = client.reactor
    from txdbus import message
    counter = locators(client, message).serials
    saved_serial = counter.peek() if counter.settable() else None
    try:
        run_cvt_direct(ctx)
        corpus = [c for _, c in ctx.corpus()]
        scns = [c for c in corpus if c.get('stream') in STREAMS and c.get('stream') != 'cvt-direct']
        if scns and not process_batch(ctx, scns):
            return
        for b in batches(gen_exhaustive(ctx), 4000):
            if not process_batch(ctx, b):
                return
        # only the thorough tier enumerates its space of abstract schedules completely (all interleavings for N <= 4
        # calls with <= 1 event each and N <= 2 with <= 2; N = 3, <= 1 event, with a loss / an unsolicited reply at every
        # position); the quick tier samples the insertions, and reply contents rotate in both
        ctx.exhaustive = ctx.tier == 'thorough'
        n = ctx.scale(quick=1500, thorough=15000)
        for b in batches((gen_random(ctx.rng, 12) for _ in range(n)), 4000):
            if not process_batch(ctx, b):
                return
        if not process_batch(ctx, list(gen_reentrant_systematic())):
            return
        if not process_batch(ctx, list(gen_disconnect_callbacks())):
            return
        if not process_batch(ctx, list(gen_resend())):
            return
        two = list(gen_two_connections())
        two += [gen_two_random(ctx.rng) for _ in range(ctx.scale(quick=300, thorough=4000))]
        if not process_batch(ctx, two):
            return
        k = ctx.scale(quick=700, thorough=12000)
        for b in batches((gen_reentrant_random(ctx.rng) for _ in range(k)), 4000):
            if not process_batch(ctx, b):
                return
        m = ctx.scale(quick=600, thorough=6000)
        process_batch(ctx, [fix_reuse(gen_reuse(ctx.rng)) for _ in range(m)])
        process_batch(ctx, [gen_not_ready(ctx.rng) for _ in range(ctx.scale(quick=100, thorough=1000))])
    finally:
        client.reactor = saved_reactor
        if saved_serial is not None:
            counter.set(max(saved_serial, counter.peek()))


def replay(ctx, data):
    _quiet_twisted_log()
    import txdbus.client as client
    saved_reactor = client.reactor
    try:
        scn = data.get('input', data)
        if scn.get('stream') == 'cvt-direct':
            run_cvt_direct(ctx)
        else:
            process_batch(ctx, [scn], replaying=True)
    finally:
        client.reactor = saved_reactor
