"""C06 - the bus authenticates a peer only after a mechanism accepted it.  Correspondence + oracle harness.

Implementation under test: the real `txdbus.bus.BusProtocol` with the real `BusAuthenticator` on a
`StringTransport`.  Peer credentials: the SO_PEERCRED lookup of dataReceived runs for real against a fake socket of
THAT connection (module flag located by behaviour); only a minority of the single-connection cases, and trees without
such a switch, get `_unix_creds` set by hand.

  scripted streams   the `authenticators` table of a `BusAuthenticator` subclass maps the offered names
                     (same names, same order) to a mechanism whose `step` pops a script of outcomes
                     accept / challenge / reject: the quantifier's "scripts of mechanism outcomes".
                     Line sequences over the command alphabet (AUTH / DATA with argument classes none,
                     valid hex, invalid hex, hex of non-ASCII; BEGIN, CANCEL, ERROR, NEGOTIATE_UNIX_FD,
                     unknown), bounded-exhaustive with the outcome tree explored depth-first, plus long
                     random ones crossing the rejection limit, 16 KiB boundary probes and malformed
                     bytes; every conversation under several splittings into reads.
  real stream        the three real mechanisms in a temporary HOME (fake `pwd` module, deterministic
                     `os.urandom`, recording `hashlib.sha1`); conforming and non-conforming clients;
                     the harness computes right and wrong cookie responses like a client would.
  bus streams        several connections of ONE bus alive at once (state-leak round): every connection has its own
                     outcome script / its own peer credentials / its own cookie exchange, the reads interleave, connections
                     are made late, lost ("dropped" without CANCEL), crash (the others go on), the clock advances, the
                     keyring file may hold entries from before.  Every connection is judged by the full oracle on its own
                     byte stream + per-connection acceptance clauses; the whole history goes to the bus model
                     (Auth/ServerMulti.lean, driver commands N / M) and is the replay input.

  S3 correspondence  Lean model (drv_c06) vs implementation: lines written, closed, authenticated,
                     crashed, guid, bytes handed to the binary branch, lines handed to the authenticator,
                     authenticator state / reject count / current mechanism, cancel() and step() counts,
                     cookie files and keyring directories.
  S4 oracle          implementation only: a reference monitor written from the property statement
                     (state table of the DBus specification + the four closing rules), the safety
                     monitor (authenticated => an accept of an offered mechanism, then BEGIN, no
                     rejection between), acceptance of conforming clients, no acceptance of a wrong
                     cookie response, and independence of the splitting.
"""
import binascii
import hashlib
import itertools
import json
import os
import shutil
import sys
import tempfile
import time
import types

STREAMS = ['bytes-helpers', 'spec-table', 'scripted-exhaustive', 'scripted-random', 'scripted-boundary',
           'scripted-malformed', 'real-mechs', 'real-interleaved', 'real-overlapping', 'config-sequences',
           'bus-scripted', 'bus-external', 'bus-cookie']
THEOREMS = ['authenticated_only_after_accept', 'refines_spec_server', 'authenticated_iff_spec',
            'mechanism_consulted_iff_table_asks', 'real_mechanisms_never_raise', 'closes_exactly_when',
            'no_line_processed_after_close', 'conforming_client_accepted', 'conforming_client_accepted_from',
            'wrong_cookie_never_accepted', 'cookie_accept_tied_to_challenge', 'line_partition_independent',
            'bus_authenticated_only_after_accept', 'bus_refines_spec', 'bus_connections_independent',
            'bus_external_own_credentials', 'bus_scripted_private', 'external_accept_has_entry']
TRUSTED_BASE = [
    'Python semantics mirrored by hand in Auth/ServerBytes.lean and validated only by the stream bytes-helpers: '
    'bytes.split(), bytes.strip(), bytes.split(b" ", 1), bytes.split(b"\\r\\n"), binascii.hexlify/unhexlify, '
    '.decode("ascii"), strict UTF-8 validity of .decode(), int(str) on ASCII text, str(int)',
    'Auth/SpecServer.lean: transcription of the server state table of the DBus specification (compared on every '
    'run, stream spec-table, with the Python monitor of this harness).  The TABLE is transcribed twice '
    'independently; the LINE GRAMMAR (command word up to the first space, whitespace-separated AUTH arguments, '
    'strip + unhexlify + ASCII for responses) is one transcription shared by spec, code model and monitor: '
    'lexical decisions such as `AUTH ANONYMOUS\\t6162` = mechanism + response are checked against nothing independent',
    'the environment of the real mechanisms (passwd, keyring directory, cookie file, os.urandom, hashlib.sha1, '
    'time) enters the model as explicit inputs recorded from the run of the implementation; SHA-1 itself is a '
    'parameter of the model',
    'Twisted: StringTransport.loseConnection sets `disconnecting`; an exception escaping dataReceived makes the '
    'reactor drop the connection (no further read is delivered)',
]
ASSUMPTIONS = [
    'a line whose command word is not valid UTF-8 is outside the command alphabet: cmd.decode() raises '
    'UnicodeDecodeError out of dataReceived (modelled as `crashed`, exercised, not judged by the oracle)',
    'reads are non-empty (Twisted never delivers an empty read; data[0] of an empty first read raises IndexError)',
    'time does not advance by 30 s within one handshake; existing cookie files are well-formed; no stale lock file',
    'EXTERNAL: a peer uid without a passwd entry (or -1) is REJECTED (repair C06-05); before it, OK then KeyError at BEGIN',
    'hex digests that differ from the expected one only in letter case (`upper` variant) are not judged',
    'the binary branch after the hand-off is outside C06: the harness collects the bytes instead of parsing them',
]
RULE = ('scripted-exhaustive: every line sequence up to length 3 (quick) / 4 (thorough) over 15 line forms x every '
        'branch of the mechanism-outcome tree actually consumed, pruned after close/authentication, plus length 4 '
        '(quick) / 5 (thorough) over a reduced alphabet of 9 forms; each leaf under 4 splittings.  distinct = distinct '
        '(stream, script, reads); non-trivial = at least one mechanism step happened or the connection closed')

MAXLINE = 16384
GUID = b'0123456789abcdef'


def hx(b):
    return binascii.hexlify(bytes(b)).decode('ascii') if b else '-'


def hxs(lst):
    return ','.join(hx(x) for x in lst) if lst else '-'


# ===================================================================== implementation sessions

class _Factory:
    class bus:
        uuid = GUID

        @staticmethod
        def clientDisconnected(p):
            pass


_IMPL = {}


def impl():
    """Import the implementation lazily (after the pipeline selected the repository)."""
    if not _IMPL:
        import txdbus.protocol
        from txdbus import authentication, bus
        from twisted.internet.testing import StringTransport
        from zope.interface import implementer
        _IMPL.update(protocol=txdbus.protocol, authentication=authentication, bus=bus,
                     StringTransport=StringTransport, implementer=implementer, notes=[])
        _IMPL['gate'] = _locate_peercred_gate()
        set_peercred(False)
    return _IMPL


class _Missing:
    def __repr__(self):
        return '?'


MISSING = _Missing()


def peek(obj, name):
    """An attribute of a txdbus object that no test pins (`state`, `reject_count`, `current_mech`, ...): MISSING
    when the maintainers renamed it - the field is then left out of the comparison, never judged."""
    try:
        return getattr(obj, name)
    except AttributeError:
        note = 'attribute %s of %s not found: that field of the state snapshot is not compared' % (name, type(obj).__name__)
        if note not in _IMPL.get('notes', []):
            _IMPL.setdefault('notes', []).append(note)
        return MISSING


def _peercred_called(flagname, value):
    """Does a fresh server protocol call getsockopt on its first read when module global `flagname` is `value`?"""
    P = _IMPL['protocol']
    calls = []

    class Sock:
        def getsockopt(self, *a):
            import struct
            calls.append(a)
            return struct.pack('3i', 1, 0, 0)
    old = getattr(P, flagname, MISSING) if flagname else MISSING
    try:
        if flagname:
            setattr(P, flagname, value)
        p = _IMPL['bus'].BusProtocol()
        p.factory = _Factory
        t = _IMPL['StringTransport']()
        t.socket = Sock()
        p.makeConnection(t)
        try:
            p.dataReceived(b'\0')
        except Exception:
            pass
    finally:
        if flagname and old is not MISSING:
            setattr(P, flagname, old)
    return bool(calls)


def _locate_peercred_gate():
    """The module-level switch of txdbus.protocol that makes dataReceived read SO_PEERCRED, found by behaviour
    (fast path: the name `_is_linux`).  Returns ('flag', name), ('always',) or ('never',)."""
    P = _IMPL['protocol']
    cands = ['_is_linux'] + sorted(k for k, v in vars(P).items() if isinstance(v, bool) and k != '_is_linux')
    for c in cands:
        if isinstance(getattr(P, c, None), bool) and _peercred_called(c, True) and not _peercred_called(c, False):
            return ('flag', c)
    return ('always',) if _peercred_called(None, None) else ('never',)


def set_peercred(on):
    """Switch the SO_PEERCRED lookup on/off for the sessions that follow; False when it cannot be controlled."""
    g = _IMPL['gate']
    if g[0] == 'flag':
        setattr(_IMPL['protocol'], g[1], bool(on))
        return True
    return (g[0] == 'always') == bool(on)


class Trace:
    """What the wrappers observe during one session."""

    def __init__(self, script=None, strict=False):
        self.handed = []       # per handled line: dict(line, outcomes, rejects, replies, raised)
        self.cancels = 0
        self.steps = 0
        self.cur = None
        self.script = list(script or [])      # outcome script of THIS connection's scripted mechanisms
        self.strict = strict
        self.proto = None

    def begin_line(self, line, nsent):
        self.cur = {'line': bytes(line), 'outcomes': [], 'rejects': 0, 'sent_from': nsent, 'raised': None}
        self.handed.append(self.cur)


class NeedMore(Exception):
    """The outcome script is exhausted (used by the exhaustive enumeration only)."""


class _Cur:
    """The connection whose `dataReceived` (or `makeConnection`) is running right now - set by `activate`, i.e. by
    `feed` before every read: several sessions may be alive at once, each with its own trace and outcome script.
    Only an attribution device: what a wrapper observes is booked on the connection being fed."""
    tr = None
    proto = None
    auth = None


def activate(proto):
    _Cur.tr, _Cur.proto = proto.h_trace, proto


def _outcome(r):
    """The outcome letter of what a mechanism's step() returned."""
    o = 'A' if r[0] == 'OK' else ('C' if r[0] == 'CONTINUE' else 'R')
    if o == 'C':
        ch = r[1]
        if isinstance(ch, str):
            ch = ch.encode('ascii')
        o = 'C:' + binascii.hexlify(ch or b'').decode('ascii')
    return o


class RecordReal:
    """For the `plain` sessions: the bus runs the authenticator with the library's OWN `authenticators` dictionary and
    the library's OWN mechanism classes (no harness subclass in the table); for the duration of the scenario the
    `step` / `cancel` methods of those classes are wrapped in place to book outcomes on the connection being fed."""

    def __enter__(self):
        self.saved = []
        table = impl()['authentication'].BusAuthenticator.authenticators
        for n, cls in table.items():
            for meth in ('step', 'cancel'):
                had = meth in vars(cls)
                orig = getattr(cls, meth)
                self.saved.append((cls, meth, had, vars(cls).get(meth)))
                setattr(cls, meth, self._wrap(n, meth, orig))
        return self

    @staticmethod
    def _wrap(n, meth, orig):
        if meth == 'step':
            def step(self, arg):
                tr = _Cur.tr
                tr.steps += 1
                r = orig(self, arg)
                if tr.cur is not None:
                    tr.cur['outcomes'].append((n, _outcome(r)))
                return r
            return step

        def cancel(self):
            _Cur.tr.cancels += 1
            return orig(self)
        return cancel

    def __exit__(self, *a):
        for cls, meth, had, old in reversed(self.saved):
            if had:
                setattr(cls, meth, old)
            else:
                delattr(cls, meth)


def _build_classes():
    """The harness subclasses, built once per implementation import."""
    I = impl()
    authentication, bus = I['authentication'], I['bus']
    base_table = authentication.BusAuthenticator.authenticators

    @I['implementer'](authentication.IBusAuthenticationMechanism)
    class ScriptedMech:
        name = None

        def getMechanismName(self):
            return self.name

        def init(self, protocol):
            pass

        def step(self, arg):
            tr = _Cur.tr
            tr.steps += 1
            if not tr.script:
                if tr.strict:
                    raise NeedMore()
                o = 'R'
            else:
                o = tr.script.pop(0)
            if tr.cur is not None:
                tr.cur['outcomes'].append((self.name, o))
            if o == 'A':
                return ('OK', None)
            if o == 'R':
                return ('REJECTED', None)
            return ('CONTINUE', binascii.unhexlify(o[2:]))

        def getUserName(self):
            return 'scripted'

        def cancel(self):
            _Cur.tr.cancels += 1

    stable = {}
    for n in base_table:
        stable[n] = type('Scripted_' + n.decode('ascii', 'replace'), (ScriptedMech,), {'name': n})

    rtable = {}
    for n, cls in base_table.items():
        def mk(n, cls):
            class Wrapped(cls):
                def step(self, arg):
                    tr = _Cur.tr
                    tr.steps += 1
                    r = cls.step(self, arg)
                    if tr.cur is not None:
                        tr.cur['outcomes'].append((n, _outcome(r)))
                    return r

                def cancel(self):
                    _Cur.tr.cancels += 1
                    return cls.cancel(self)
            Wrapped.__name__ = cls.__name__
            return Wrapped
        rtable[n] = mk(n, cls)

    def mk_auth(table):
        class HAuth(authentication.BusAuthenticator):
            if table is not None:
                authenticators = table

            def __init__(self, *a, **kw):
                authentication.BusAuthenticator.__init__(self, *a, **kw)
                _Cur.auth = self

            def handleAuthMessage(self, line):
                tr = _Cur.tr
                tr.begin_line(line, len(_Cur.proto.transport.value()))
                try:
                    return authentication.BusAuthenticator.handleAuthMessage(self, line)
                except BaseException as e:
                    tr.cur['raised'] = type(e).__name__
                    raise

            def reject(self):
                tr = _Cur.tr
                if tr.cur is not None:
                    tr.cur['rejects'] += 1
                return authentication.BusAuthenticator.reject(self)
        return HAuth

    def mk_proto(hauth):
        class HProto(bus.BusProtocol):
            authenticator = hauth
            raw = b''
            authd = 0

            def connectionAuthenticated(self):
                self.authd += 1
                bus.BusProtocol.connectionAuthenticated(self)

            def rawDBusMessageReceived(self, raw_msg):      # binary branch: outside C06, only collected
                self.raw += raw_msg
        return HProto
    I['proto_scripted'] = mk_proto(mk_auth(stable))
    I['proto_real'] = mk_proto(mk_auth(rtable))
    I['proto_plain'] = mk_proto(mk_auth(None))      # the library's own table and classes (see RecordReal)
    I['restricted'] = {}

    def restricted(mode, names):
        """A protocol class whose authenticator subclass offers only `names` (the documented `authenticators`
        attribute restricted, order kept): another bus configuration living in the same process."""
        key = (mode, tuple(names))
        if key not in I['restricted']:
            base = stable if mode == 'scripted' else rtable
            I['restricted'][key] = mk_proto(mk_auth({n: base[n] for n in base if n in names}))
        return I['restricted'][key]
    I['restricted_proto'] = restricted


def make_session(mode, script=None, env=None, strict_script=False, offer=None, setup='auto'):
    """Build a BusProtocol on a StringTransport.  mode 'scripted': mechanisms pop `script` (this connection's own);
    mode 'real': the real mechanism classes, wrapped only to record outcomes; mode 'plain': the library's own table
    (inside a `RecordReal` block).  setup='none': nothing is done about the peer credentials (the caller owns the
    SO_PEERCRED switch and the socket: several connections are alive at once)."""
    I = impl()
    if 'proto_scripted' not in I:
        _build_classes()
    tr = Trace(script, strict_script)
    if offer is not None:
        proto = I['restricted_proto'](mode, offer)()
    else:
        proto = I['proto_' + mode]()
    proto.h_trace = tr
    tr.proto = proto
    activate(proto)
    proto.factory = _Factory
    t = I['StringTransport']()
    _Cur.auth = None
    proto.makeConnection(t)
    # the authenticator this protocol got: the one built during makeConnection (HAuth.__init__ books it); when none
    # was built (somebody reuses one) whatever the protocol holds
    proto.h_auth = _Cur.auth if _Cur.auth is not None else getattr(proto, '_dbusAuth', None)
    proto.h_force_creds = False
    if setup == 'none':
        return proto, t, tr
    if env is None:
        set_peercred(False)
        if I['gate'][0] == 'always':
            import struct as _st
            t.socket = type('Sock', (), {'getsockopt': lambda self, *a: _st.pack('3i', 0, -1, -1)})()
    if env is not None:
        creds = env.get('creds_tuple')
        want_linux = bool(env.get('linux') and creds is not None)
        ok = set_peercred(want_linux)
        if want_linux and ok:
            # the SO_PEERCRED block of dataReceived runs for real, against a fake socket
            t.socket = fake_socket(creds)
        else:
            if not ok and I['gate'][0] == 'always':
                # the lookup cannot be switched off: let it run against the fake socket, then put the wanted
                # credentials in place right after the NUL byte (`_unix_creds` is pinned by the test suite)
                t.socket = fake_socket(creds)
                proto.h_force_creds = True
                proto.h_creds = creds
            if creds is not None:
                proto._unix_creds = creds
    return proto, t, tr


def fake_socket(creds):
    """What `transport.socket` must offer for the SO_PEERCRED lookup of dataReceived: (pid, uid, gid) of THIS
    connection's peer, (0, -1, -1) when the kernel has none."""
    import struct

    class FakeSock:
        calls = 0

        def getsockopt(self, level, opt, size):
            assert (opt, size) == (17, struct.calcsize('3i')), (opt, size)
            FakeSock.calls += 1
            return struct.pack('3i', *(creds if creds is not None else (0, -1, -1)))
    return FakeSock()


def feed(proto, t, reads):
    """Deliver the reads to this connection; stop after an exception escaped (the reactor drops the connection)."""
    crashed = None
    activate(proto)
    if getattr(proto, 'h_force_creds', False) and reads and len(reads[0]) > 1:
        reads = [reads[0][:1], reads[0][1:]] + list(reads[1:])
    for k, r in enumerate(reads):
        if k == 1 and getattr(proto, 'h_force_creds', False):
            proto._unix_creds = proto.h_creds
        try:
            proto.dataReceived(r)
        except NeedMore:
            raise
        except Exception as e:
            crashed = type(e).__name__ + ': ' + str(e)[:80]
            break
    return crashed


def sent_lines(t):
    v = t.value()
    if not v:
        return []
    parts = v.split(b'\r\n')
    if parts[-1] == b'':
        parts.pop()
    return parts


def _b(x):
    if x is None:
        return None
    return x.encode('utf-8', 'surrogatepass') if isinstance(x, str) else bytes(x)


def observe(proto, t, tr, crashed):
    a = proto.h_auth
    cur = peek(a, 'current_mech')
    curname = None
    if cur is not None and cur is not MISSING:
        curname = getattr(cur, 'name', None) or _b(cur.getMechanismName())
        curname = _b(curname)
    g = _b(proto.guid)
    st, rc, sa = peek(a, 'state'), peek(a, 'reject_count'), peek(a, 'authenticated')
    return {
        'sent': hxs(sent_lines(t)), 'closed': int(bool(t.disconnecting)), 'auth': int(proto.authd > 0),
        'crashed': int(crashed is not None), 'guid': hx(g) if g is not None else 'none',
        'bin': hx(proto.raw + (proto._buffer if proto.authd else b'')),
        'handed': hxs([h['line'] for h in tr.handed]), 'state': st, 'rejects': rc,
        'srvauth': '?' if sa is MISSING else int(bool(sa)),
        'cur': '?' if cur is MISSING else (hx(curname) if curname is not None else 'none'),
        'cancels': tr.cancels, 'steps': tr.steps,
    }


def fmt_obs(o, extra=()):
    keys = ['sent', 'closed', 'auth', 'crashed', 'guid', 'bin', 'handed', 'state', 'rejects', 'srvauth', 'cur']
    keys += list(extra)
    return ' '.join('%s=%s' % (k, o[k]) for k in keys)


# ===================================================================== the oracle (implementation only)

def spec_parse(line, offered):
    """A line as the DBus specification's grammar reads it."""
    if b' ' in line:
        cmd, args = line.split(b' ', 1)
    else:
        cmd, args = line, b''

    def resp_ok(r):
        if not r:
            return True
        try:
            binascii.unhexlify(r.strip()).decode('ascii')
            return True
        except ValueError:
            return False
    if cmd == b'AUTH':
        toks = args.split()
        if not toks:
            return ('auth', None, True)
        return ('auth', toks[0], resp_ok(toks[1] if len(toks) > 1 else None))
    if cmd == b'DATA':
        return ('data', resp_ok(args))
    if cmd in (b'BEGIN', b'CANCEL', b'ERROR'):
        return (cmd.decode().lower(),)
    return ('other',)


def spec_step(offered, limit, phase, rejects, pl, verdict):
    """The server state table of the DBus specification + the rejection limit of the property.
    Returns (phase', rejects', reply) with reply in rejected / ok / data:<hex> / error / nothing."""
    def rej():
        if rejects + 1 > limit:
            return ('closed', rejects + 1, 'nothing')
        return ('WaitingForAuth', rejects + 1, 'rejected')

    def on_verdict():
        if verdict == 'A':
            return ('WaitingForBegin', rejects, 'ok')
        if verdict == 'R':
            return rej()
        return ('WaitingForData', rejects, 'data:' + (verdict[2:] or '-'))
    k = pl[0]
    if phase == 'WaitingForAuth':
        if k == 'auth':
            if pl[1] is None or pl[1] not in offered or not pl[2]:
                return rej()
            return on_verdict()
        if k == 'begin':
            return ('closed', rejects, 'nothing')
        if k == 'error':
            return rej()
        return (phase, rejects, 'error')
    if phase == 'WaitingForData':
        if k == 'data':
            return on_verdict() if pl[1] else rej()
        if k == 'begin':
            return ('closed', rejects, 'nothing')
        if k in ('cancel', 'error'):
            return rej()
        return (phase, rejects, 'error')
    if phase == 'WaitingForBegin':
        if k == 'begin':
            return ('authenticated', rejects, 'nothing')
        if k in ('cancel', 'error'):
            return rej()
        return (phase, rejects, 'error')
    return (phase, rejects, 'nothing')


def is_utf8(b):
    try:
        b.decode('utf-8')
        return True
    except UnicodeDecodeError:
        return False


def crash_key(exc, pl, outcomes_before):
    """Narrow key for an exception that escaped dataReceived on a line of the command alphabet."""
    name = (exc or '').split(':')[0]
    if name == 'TypeError':
        return 'external-creds-typeerror'
    if name in ('Error', 'UnicodeDecodeError', 'ValueError'):
        return 'auth-invalid-hex-crash'
    if name == 'FileNotFoundError':
        return 'cookie-double-delete'
    if name == 'KeyError':
        return 'external-unknown-uid-begin-crash'
    return 'auth-line-crash-' + name


def oracle(stream, obs, tr, crashed, offered, limit, reject_msg):
    """Judge one finished session of the implementation against the property statement.
    Returns a list of (key, what, observed, expected)."""
    out = []

    def bad(key, what, observed=None, expected=None):
        out.append((key, what, observed, expected))

    handed = tr.handed
    sent = sent_lines_from_obs(obs)
    if not stream:
        return out
    if stream[0] != 0:
        if not obs['closed']:
            bad('missing-nul-not-closed', 'first byte is not NUL but the connection stays open', fmt_obs(obs), 'closed=1')
        if handed or sent or obs['auth']:
            bad('line-processed-after-close', 'lines were processed although the initial NUL byte was missing',
                fmt_obs(obs), 'nothing handed, nothing sent')
        return out
    parts = stream[1:].split(b'\r\n')
    tail = parts.pop()
    phase, rejects = 'WaitingForAuth', 0
    accepted = False           # safety monitor: an offered mechanism accepted and no rejection since
    reason = None
    i = 0
    crashed_line = None
    auth_at = 0
    for i, line in enumerate(parts):
        if phase in ('closed', 'authenticated'):
            break
        if len(line) > MAXLINE:
            phase, reason = 'closed', 'long-line'
            break
        if i >= len(handed):
            bad('line-not-handed', 'line %d of an open connection was never handed to the authenticator' % i,
                fmt_obs(obs), hx(line))
            return out
        h = handed[i]
        if h['line'] != line:
            bad('line-not-handed', 'line %d handed to the authenticator differs from the stream' % i,
                hx(h['line']), hx(line))
            return out
        nxt = handed[i + 1]['sent_from'] if i + 1 < len(handed) else None
        replies = h.get('replies', [])
        cmdword = line.split(b' ', 1)[0]
        if h['raised'] not in (None, 'DBusAuthenticationFailed'):
            if is_utf8(cmdword):
                pl = spec_parse(line, offered)
                bad(crash_key(h['raised'], pl, None),
                    '%s escapes dataReceived on line %r in state %s (the state table prescribes a reply)'
                    % (h['raised'], line[:60], phase), fmt_obs(obs), 'REJECTED / ERROR / DATA / OK')
            crashed_line = i
            break
        pl = spec_parse(line, offered)
        # The statement prescribes replies, not calls: any number of step() calls is fine.  The verdict the table
        # is fed is the last one the mechanism gave on this line; when the table asks and no step was observed, the
        # verdict is read back from the reply (an OK that no mechanism accept backs is caught by the safety monitor).
        verdict = None
        observed_accept = False
        if h['outcomes']:
            name, verdict = h['outcomes'][-1]
            observed_accept = (verdict == 'A' and name in offered)
        asks = ((phase == 'WaitingForAuth' and pl[0] == 'auth' and pl[1] in offered and pl[2])
                or (phase == 'WaitingForData' and pl[0] == 'data' and pl[1]))
        if not asks:
            verdict = None
        elif verdict is None:
            g0 = h['replies'][0] if len(h['replies']) == 1 else b''
            if g0.startswith(b'OK '):
                verdict = 'A'
            elif g0.startswith(b'DATA '):
                verdict = 'C:' + g0[5:].decode('ascii', 'replace')
            else:
                verdict = 'R'
        # invalid hex: the statement allows ERROR or REJECTED; follow what was answered
        bad_resp = ((phase == 'WaitingForAuth' and pl[0] == 'auth' and pl[1] in offered and not pl[2])
                    or (phase == 'WaitingForData' and pl[0] == 'data' and not pl[1]))
        phase2, rejects2, reply = spec_step(offered, limit, phase, rejects, pl, verdict or 'R')
        got = h['replies']
        if bad_resp and len(got) == 1 and (got[0] == b'ERROR' or got[0].startswith(b'ERROR ')):
            phase2, rejects2, reply = phase, rejects, 'error'
        ok = True
        if reply == 'rejected':
            ok = got == [reject_msg]
            exp = reject_msg
        elif reply == 'ok':
            ok = got == [b'OK ' + GUID]
            exp = b'OK ' + GUID
        elif reply.startswith('data:'):
            c = b'' if reply[5:] == '-' else reply[5:].encode('ascii')
            ok = got == [b'DATA ' + c]
            exp = b'DATA ' + c
        elif reply == 'error':
            ok = len(got) == 1 and (got[0] == b'ERROR' or got[0].startswith(b'ERROR '))
            exp = b'ERROR ...'
        else:
            ok = got == []
            exp = b''
        if not ok:
            bad('auth-reply-not-per-state-table',
                'line %r in state %s (rejections so far %d): reply differs from the state table' % (line[:60], phase, rejects),
                hxs(got), hx(exp))
            return out
        # safety monitor
        if observed_accept:
            accepted = True
        if h['rejects'] or reply == 'rejected' or (reply == 'nothing' and phase2 == 'closed' and pl[0] != 'begin'):
            accepted = False
        if phase2 == 'authenticated' and not accepted:
            bad('authenticated-without-accept', 'BEGIN accepted without a preceding accept of an offered mechanism',
                fmt_obs(obs))
        if phase2 == 'closed':
            reason = 'begin-out-of-turn' if pl[0] == 'begin' else 'reject-limit'
        if phase2 == 'authenticated':
            auth_at = i
        phase, rejects = phase2, rejects2
    else:
        i = len(parts)
    n_expected = i if crashed_line is None else crashed_line + 1
    if crashed_line is not None:
        return out
    if len(handed) > n_expected:
        bad('line-processed-after-close', 'a line was handed to the authenticator after the connection was %s' % phase,
            hx(handed[n_expected]['line']), 'nothing')
    # closing conditions
    if phase == 'authenticated':
        if not obs['auth']:
            bad('conforming-client-not-accepted', 'accept + BEGIN did not authenticate the connection', fmt_obs(obs), 'auth=1')
        if obs['closed']:
            bad('closed-without-cause', 'the connection was closed after a successful authentication', fmt_obs(obs))
        # "its bytes interpreted as messages": everything after the BEGIN line reaches the binary branch, unchanged
        rest = stream[1 + sum(len(l) + 2 for l in parts[:auth_at + 1]):]
        if obs['auth'] and obs['bin'] != hx(rest):
            bad('handoff-bytes-lost', 'the bytes following the BEGIN line did not reach the message branch unchanged',
                obs['bin'], hx(rest))
        return out
    if obs['auth']:
        bad('authenticated-without-accept', 'connectionAuthenticated ran although the exchange did not reach '
            'accept + BEGIN (monitor state %s)' % phase, fmt_obs(obs), 'auth=0')
    if phase == 'closed':
        if not obs['closed']:
            key = {'long-line': 'long-line-not-closed', 'begin-out-of-turn': 'begin-out-of-turn-not-closed',
                   'reject-limit': 'reject-limit-not-enforced'}[reason]
            bad(key, 'the connection stays open after %s' % reason, fmt_obs(obs), 'closed=1')
        return out
    # still open as far as complete lines go: the unterminated tail decides
    if len(tail) > MAXLINE + 1:
        if not obs['closed']:
            bad('long-line-not-closed', 'an unterminated line of %d bytes does not close the connection' % len(tail),
                fmt_obs(obs), 'closed=1')
    elif len(tail) <= MAXLINE or tail.endswith(b'\r'):
        if obs['closed']:
            bad('closed-without-cause', 'the connection was closed without BEGIN out of turn, missing NUL, '
                'a line over 16 KiB or more than %d rejections (tail %d bytes)' % (limit, len(tail)),
                fmt_obs(obs), 'closed=0')
    return out


def sent_lines_from_obs(obs):
    return [] if obs['sent'] == '-' else [binascii.unhexlify(x) if x != '-' else b'' for x in obs['sent'].split(',')]


def attach_replies(tr, t):
    """Distribute the written lines over the handled lines (by the transport offset at each line start)."""
    v = t.value()
    for k, h in enumerate(tr.handed):
        end = tr.handed[k + 1]['sent_from'] if k + 1 < len(tr.handed) else len(v)
        chunk = v[h['sent_from']:end]
        parts = chunk.split(b'\r\n')
        if parts and parts[-1] == b'':
            parts.pop()
        h['replies'] = parts


_SEEN = {}


def report(ctx, key, what, inp, observed=None, expected=None):
    """ctx.violation, but after the first 20 reports of a key only for inputs smaller than the best so far
    (ctx.violation serialises both inputs on every call)."""
    size = sum(len(r) for r in inp.get('reads', [])) + sum(len(r) for r in inp.get('lines', [])) + 40 * len(inp.get('actions', [])) + len(inp.get('schedule', '')) + len(inp.get('events', ''))
    st = _SEEN.setdefault((id(ctx), key), [0, size])
    st[0] += 1
    if st[0] > 20 and size >= st[1]:
        ctx.stat('violation-reports-skipped:' + key)
        return
    st[1] = min(st[1], size)
    ctx.violation(key, what, inp=inp, observed=observed, expected=expected)


# ===================================================================== splittings

def splittings(rng, stream, n_random=2, bytewise_max=48):
    """Several partitions of the stream into non-empty reads: whole, per line, random cuts (also between CR
    and LF), byte by byte when short."""
    res = [[stream]]
    if len(stream) <= 1:
        return res
    # per line (NUL together with the first line)
    per = []
    rest = stream
    while rest:
        k = rest.find(b'\r\n')
        if k < 0:
            per.append(rest)
            break
        per.append(rest[:k + 2])
        rest = rest[k + 2:]
    if len(per) > 1:
        res.append(per)
    for _ in range(n_random):
        ncuts = rng.randint(1, min(6, len(stream) - 1))
        cuts = set()
        for _ in range(ncuts):
            if rng.random() < 0.4:
                # prefer a cut between CR and LF
                pos = [p + 1 for p in range(len(stream) - 1) if stream[p:p + 2] == b'\r\n']
                if pos:
                    cuts.add(rng.choice(pos))
                    continue
            cuts.add(rng.randint(1, len(stream) - 1))
        cuts = sorted(cuts)
        res.append([stream[a:b] for a, b in zip([0] + cuts, cuts + [len(stream)])])
    if len(stream) <= bytewise_max:
        res.append([stream[k:k + 1] for k in range(len(stream))])
    # dedupe
    uniq, seen = [], set()
    for r in res:
        key = tuple(len(x) for x in r)
        if key not in seen:
            seen.add(key)
            uniq.append(r)
    return uniq


# ===================================================================== scripted cases

def run_scripted_impl(script, reads, strict=False):
    proto, t, tr = make_session('scripted', script=script, strict_script=strict)
    crashed = feed(proto, t, reads)
    attach_replies(tr, t)
    obs = observe(proto, t, tr, crashed)
    return obs, tr, crashed


def model_line_scripted(script, reads):
    return 'S %s %s %s' % (hx(GUID), ','.join(s.replace(':', '') for s in script) if script else '-',
                           ' '.join(hx(r) for r in reads))


def offered_names():
    return list(impl()['authentication'].BusAuthenticator.authenticators.keys())


REJECT_LIMIT = 5        # "after more than five rejections" - from the property statement, not from the code


def limits():
    """The rejection limit of the property statement, and the REJECTED line it prescribes: the word REJECTED
    followed by the names of the offered mechanisms."""
    return REJECT_LIMIT, b'REJECTED ' + b' '.join(offered_names())


LINE_FORMS = [b'AUTH', b'AUTH BOGUS', b'AUTH EXTERNAL', b'AUTH ANONYMOUS 6162', b'AUTH DBUS_COOKIE_SHA1 zz',
              b'AUTH EXTERNAL ff', b'DATA', b'DATA 6162', b'DATA zz', b'DATA ff', b'BEGIN', b'CANCEL', b'ERROR',
              b'NEGOTIATE_UNIX_FD', b'FISHY']
REDUCED_FORMS = [b'AUTH BOGUS', b'AUTH EXTERNAL', b'AUTH ANONYMOUS zz', b'DATA', b'DATA 6162', b'BEGIN', b'CANCEL',
                 b'ERROR', b'FISHY']
OUTCOMES = ['A', 'C:6368', 'R']


def enum_scripted(forms, depth):
    """Depth-first enumeration of (line sequence, consumed outcome script) leaves; a branch is cut as soon as
    the connection is closed, authenticated or crashed (longer sequences add nothing)."""
    leaves = []

    def run(lines, script):
        stream = b'\0' + b''.join(l + b'\r\n' for l in lines)
        try:
            obs, tr, crashed = run_scripted_impl(script, [stream], strict=True)
        except NeedMore:
            return None
        return obs

    def rec(lines, script):
        obs = run(lines, script)
        if obs is None:
            for o in OUTCOMES:
                rec(lines, script + [o])
            return
        leaves.append((list(lines), list(script)))
        if len(lines) >= depth or obs['closed'] or obs['auth'] or obs['crashed']:
            return
        for f in forms:
            rec(lines + [f], script)
    for f in forms:
        rec([f], [])
    return leaves


def judge_scripted(ctx, stream_name, script, reads_list, pending, label=None):
    """Run one conversation under every splitting on the implementation, apply the oracle, queue model lines."""
    offered = offered_names()
    limit, reject_msg = limits()
    first = None
    for reads in reads_list:
        obs, tr, crashed = run_scripted_impl(script, reads)
        ctx.impl_trace()
        stream = b''.join(reads)
        case = {'kind': 'scripted', 'script': script, 'reads': [hx(r) for r in reads]}
        nontrivial = bool(tr.steps or obs['closed'])
        ctx.case(stream_name, sample=case if len(stream) < 400 else None, nontrivial=nontrivial)
        for key, what, observed, expected in oracle(stream, obs, tr, crashed, offered, limit, reject_msg):
            report(ctx, key, what, case, observed, expected)
        line = fmt_obs(obs, extra=('cancels', 'steps'))
        if first is None:
            first = (line, case, obs)
        else:
            same = ('sent', 'closed', 'auth', 'guid', 'bin', 'handed', 'crashed')
            if any(first[2][k] != obs[k] for k in same):
                long_involved = any(len(p) >= MAXLINE for p in stream.split(b'\r\n'))
                report(ctx, 'authline-16384-split-dependent' if long_involved else 'auth-split-dependent',
                       'the same byte stream gives a different outcome under another splitting into reads',
                       {'kind': 'scripted', 'script': script, 'reads': [hx(r) for r in reads],
                        'other_reads': first[1]['reads']}, line, first[0])
        pending.append((stream_name, case, model_line_scripted(script, reads), line))
        ctx.stat('reads=%d' % min(len(reads), 8))
        ctx.stat('closed=%d auth=%d crashed=%d' % (obs['closed'], obs['auth'], obs['crashed']))
        ctx.stat('rejects=%s' % (min(obs['rejects'], 7) if isinstance(obs['rejects'], int) else '?'))
        ctx.stat('state=%s' % obs['state'])


def flush_model(ctx, pending):
    if not pending:
        return
    out = ctx.model([p[2] for p in pending])
    if out is None:
        pending.clear()
        return
    for (stream_name, case, _, implline), m in zip(pending, out):
        if '=?' in implline:
            hidden = {tok.split('=', 1)[0] for tok in implline.split(' ') if tok.endswith('=?')}
            m = ' '.join((tok.split('=', 1)[0] + '=?') if tok.split('=', 1)[0] in hidden else tok for tok in m.split(' '))
        if m != implline:
            ctx.disagree(stream_name, case, m, implline)
    pending.clear()
    for n in _IMPL.get('notes', []):
        if n not in ctx.notes:
            ctx.note(n)


# ------------------------------------------------------------------ random / boundary / malformed generators

def rand_line(rng):
    r = rng.random()
    mechs = [b'EXTERNAL', b'DBUS_COOKIE_SHA1', b'ANONYMOUS']
    args = [b'', b' 6162', b' zz', b' ff', b' 616', b'  6162  ', b' 6162 7a7a', b' 4142']
    if r < 0.30:
        return b'AUTH ' + rng.choice(mechs) + rng.choice(args)
    if r < 0.36:
        return rng.choice([b'AUTH', b'AUTH ', b'AUTH BOGUS', b'AUTH BOGUS 6162', b'AUTH  ANONYMOUS', b'AUTH\tANONYMOUS',
                           b'AUTH ANONYMOUS\t6162', b'auth ANONYMOUS'])
    if r < 0.56:
        return b'DATA' + rng.choice(args + [b' ', b' 61 62', b' 6162\t'])
    if r < 0.68:
        return b'BEGIN' + rng.choice([b'', b'', b' ', b' x'])
    if r < 0.78:
        return b'CANCEL' + rng.choice([b'', b' x'])
    if r < 0.88:
        return b'ERROR' + rng.choice([b'', b' "oops"'])
    if r < 0.92:
        return b'NEGOTIATE_UNIX_FD'
    return rng.choice([b'', b'FISHY', b'BEGIN\r', b'\nBEGIN', b'OK 1234', b'REJECTED', b' AUTH ANONYMOUS', b'_auth_AUTH',
                       b'AUTHx', b'DATA\x00'])


def rand_script(rng, n):
    return [rng.choice(['A', 'A', 'R', 'R', 'C:6368', 'C:', 'C:00ff']) for _ in range(n)]


def gen_random_conv(rng):
    kind = rng.random()
    if kind < 0.35:
        # cross the rejection limit
        n = rng.randint(5, 12)
        lines = [rng.choice([b'AUTH BOGUS', b'ERROR', b'AUTH', b'AUTH ANONYMOUS', b'AUTH EXTERNAL zz', b'CANCEL',
                             b'DATA 6162', b'FISHY']) for _ in range(n)]
        if rng.random() < 0.5:
            lines.insert(rng.randint(0, len(lines)), b'AUTH ANONYMOUS')
            lines.append(b'BEGIN')
        script = [rng.choice(['R', 'R', 'C:6368', 'A']) for _ in range(n)]
    else:
        n = rng.randint(1, 9)
        lines = [rand_line(rng) for _ in range(n)]
        script = rand_script(rng, rng.randint(0, n))
    stream = b'\0' + b''.join(l + b'\r\n' for l in lines)
    r = rng.random()
    if r < 0.15:
        stream += rng.choice([b'l\x01\x00\x01', b'AUTH', b'\r', b'BEGIN\r', b'xyz\r\nq'])
    elif r < 0.2:
        stream = stream[1:]           # missing NUL
    elif r < 0.23:
        stream = b'\x01' + stream[1:]
    return script, stream


def gen_boundary_conv(rng):
    """Lines and unterminated tails around 16384 / 16385 / 16386 bytes."""
    n = rng.choice([MAXLINE - 1, MAXLINE, MAXLINE + 1, MAXLINE + 2, MAXLINE + 3])
    body = rng.choice([b'AUTH ANONYMOUS ', b'FISHY', b'DATA ', b''])
    pad = rng.choice([b'A', b'6', b'\r'])
    line = (body + pad * n)[:n]
    pre = rng.choice([[], [b'AUTH EXTERNAL'], [b'AUTH ANONYMOUS'], [b'AUTH BOGUS'] * 3])
    post = rng.choice([[], [b'AUTH ANONYMOUS', b'BEGIN'], [b'BEGIN']])
    term = rng.choice([b'\r\n', b'\r\n', b'\r', b''])
    stream = b'\0' + b''.join(l + b'\r\n' for l in pre) + line + term
    if term == b'\r\n':
        stream += b''.join(l + b'\r\n' for l in post)
    script = [rng.choice(['A', 'C:6368', 'R']) for _ in range(3)]
    # splittings aimed at the boundary
    k = stream.find(line) + len(line)
    cuts = [[k], [k + 1], [k - 1], [k, k + 1], [1, k + 1]]
    reads_list = [[stream]]
    for c in cuts:
        c = [x for x in c if 0 < x < len(stream)]
        if c:
            reads_list.append([stream[a:b] for a, b in zip([0] + c, c + [len(stream)])])
    return script, reads_list


def gen_malformed_conv(rng):
    """Bytes outside the command alphabet: non-UTF-8 command words, NULs, lone CR / LF, binary noise."""
    n = rng.randint(1, 5)
    lines = []
    for _ in range(n):
        r = rng.random()
        if r < 0.3:
            lines.append(bytes(rng.randrange(256) for _ in range(rng.randint(0, 12))).replace(b'\r\n', b'\r'))
        elif r < 0.5:
            lines.append(rng.choice([b'\xc3\xa9', b'\xff', b'\xc3', b'\xe0\x80\x80', b'\xed\xa0\x80', b'\xf4\x90\x80\x80',
                                     b'\xf0\x9f\x98\x80', b'AUTH\xc3\xa9', b'\xc0\xaf', b'\xe2\x82\xac']) + rng.choice([b'', b' x']))
        elif r < 0.7:
            lines.append(b'AUTH ANONYMOUS ' + rng.choice([b'\xff', b'c3a9', b'00', b'7f', b'80', b'6\r1', b'0g']))
        else:
            lines.append(rand_line(rng))
    stream = b'\0' + b''.join(l + b'\r\n' for l in lines)
    return rand_script(rng, rng.randint(0, 3)), stream


# ===================================================================== bytes helpers + spec table

def run_bytes_helpers(ctx):
    rng = ctx.rng
    n = ctx.scale(quick=1500, thorough=20000)
    alph = [b' ', b'\t', b'\n', b'\r', b'\x0b', b'\x0c', b'\x1c', b'\x1f', b'0', b'9', b'a', b'f', b'A', b'F', b'g', b'G',
            b'_', b'+', b'-', b'\x00', b'\x7f', b'\x80', b'\xbf', b'\xc2', b'\xe0', b'\xed', b'\xf0', b'\xf4', b'\xa0',
            b'\x90', b'\xff', b'\r\n', b'1', b'6']
    cases = []
    ops = ['splitws', 'strip', 'unhex', 'hex', 'ascii', 'utf8', 'int', 'crlf', 'cmd']
    fixed = [b'', b' ', b'\r', b'\r\n', b'\r\r\n', b'\n\r', b'1_0', b'1__0', b'_1', b'1_', b'+', b'-0', b' +12 ', b'0x10',
             b'\x1c5\x1f', b'\xe2\x82\xac', b'\xed\x9f\xbf', b'\xed\xa0\x80', b'\xf4\x8f\xbf\xbf', b'\xf4\x90\x80\x80',
             b'\xc1\xbf', b'\xe0\x9f\xbf', b'\xf0\x8f\xbf\xbf', b'9' * 4300, b'9' * 4301, b'1_' * 2200 + b'1']
    for b in fixed:
        for op in ops:
            cases.append((op, b))
    for _ in range(n):
        b = b''.join(rng.choice(alph) for _ in range(rng.randint(0, 9)))
        cases.append((rng.choice(ops), b))
    intalph = [b' ', b'\t', b'\n', b'\x1f', b'0', b'1', b'7', b'9', b'_', b'+', b'-', b'x', b'\x00', b'a']
    for _ in range(n // 3):
        cases.append(('int', b''.join(rng.choice(intalph) for _ in range(rng.randint(0, 6)))))
    out = ctx.model(['B %s %s' % (op, hx(b)) for op, b in cases])
    for k, (op, b) in enumerate(cases):
        if op == 'splitws':
            e = hxs(b.split())
        elif op == 'strip':
            e = hx(b.strip())
        elif op == 'unhex':
            try:
                e = 'ok:' + hx(binascii.unhexlify(b))
            except ValueError:
                e = 'error'
        elif op == 'hex':
            e = hx(binascii.hexlify(b))
        elif op == 'ascii':
            e = str(int(all(x < 128 for x in b)))
        elif op == 'utf8':
            e = str(int(is_utf8(b)))
        elif op == 'int':
            if all(x < 128 for x in b):
                try:
                    e = 'ok:%d' % int(b.decode('ascii'))
                except ValueError:
                    e = 'error'
            else:
                continue
        elif op == 'crlf':
            parts = b.split(b'\r\n')
            rest = parts.pop()
            e = hxs(parts) + '|' + hx(rest)
        else:
            if b' ' in b:
                c, a = b.split(b' ', 1)
            else:
                c, a = b, b''
            e = hx(c) + '|' + hx(a)
        ctx.case('bytes-helpers', sample={'op': op, 'bytes': hx(b)} if len(b) < 40 else None, nontrivial=len(b) > 0)
        ctx.stat('helper=' + op)
        if out is not None and out[k] != e:
            ctx.disagree('bytes-helpers', {'op': op, 'bytes': hx(b)}, out[k], e)


def run_spec_table(ctx):
    """Lean Spec.step / Spec.parse vs the Python monitor of this harness, on every (phase, line form, verdict)."""
    offered = offered_names()
    lines = LINE_FORMS + [b'AUTH ', b'AUTH  ANONYMOUS  6162 ', b'DATA ', b'DATA  6162 ', b'BEGIN x', b'AUTHx', b'', b'data']
    cases = []
    for phase in ['WaitingForAuth', 'WaitingForData', 'WaitingForBegin', 'authenticated', 'closed']:
        for rejects in (0, 4, 5, 6):
            for l in lines:
                for v in ('A', 'R', 'C6368', 'C'):
                    cases.append((phase, rejects, l, v))
    out = ctx.model(['P %s 5 %s %d %s %s' % (','.join(hx(o) for o in offered), ph, rj, hx(l), v)
                     for ph, rj, l, v in cases])
    for k, (ph, rj, l, v) in enumerate(cases):
        pv = v if v in ('A', 'R') else 'C:' + v[1:]
        p2, r2, rep = spec_step(offered, 5, ph, rj, spec_parse(l, offered), pv)
        if rep == 'rejected':
            rep = 'rejected:' + hxs(offered)
        e = '%s %d %s' % (p2, r2, rep)
        ctx.case('spec-table', sample={'phase': ph, 'rejects': rj, 'line': hx(l), 'verdict': v} if k % 97 == 0 else None)
        if out is not None and out[k] != e:
            ctx.disagree('spec-table', {'phase': ph, 'rejects': rj, 'line': hx(l), 'verdict': v}, out[k], e)


# ===================================================================== the real mechanisms

class FakePwd(types.ModuleType):
    def __init__(self, users):
        types.ModuleType.__init__(self, 'pwd')
        self._users = users      # list of (name, uid, gid, home)

    class struct_passwd(tuple):
        pass

    def _mk(self, u):
        ns = types.SimpleNamespace(pw_name=u[0], pw_uid=u[1], pw_gid=u[2], pw_dir=u[3], pw_passwd='x',
                                   pw_gecos='', pw_shell='/bin/sh')
        return ns

    def getpwnam(self, name):
        if not isinstance(name, str):
            raise TypeError('getpwnam() argument must be str')
        if '\0' in name:
            raise ValueError('embedded null character')
        for u in self._users:
            if u[0] == name:
                return self._mk(u)
        raise KeyError('getpwnam(): name not found: %r' % name)

    def getpwuid(self, uid):
        if not isinstance(uid, int):
            raise TypeError('uid should be integer')
        if uid < 0 or uid >= 2 ** 32:
            raise KeyError('getpwuid(): uid not found')
        for u in self._users:
            if u[1] == uid:
                return self._mk(u)
        raise KeyError('getpwuid(): uid not found: %d' % uid)


def patch_time(auth, tf):
    """Make the cookie code see `tf()` as the time: every function of BusCookieAuthenticator whose default
    arguments hold `time.time` (today `_get_cookies(timefunc=time.time)`, `_create_cookie(...)`) gets `tf` there,
    and the module's reference to `time` is replaced by a shim.  Returns the undo actions."""
    undo = []
    C = auth.BusCookieAuthenticator
    for klass in C.__mro__:
        for name, fn in list(vars(klass).items()):
            f = getattr(fn, '__func__', fn)
            d = getattr(f, '__defaults__', None)
            if d and any(x is time.time for x in d):
                undo.append(lambda f=f, d=d: setattr(f, '__defaults__', d))
                f.__defaults__ = tuple(tf if x is time.time else x for x in d)
    for name, val in list(vars(auth).items()):
        if val is time:
            shim = types.SimpleNamespace(time=tf, sleep=lambda s: None)
            undo.append(lambda name=name, val=val: setattr(auth, name, val))
            setattr(auth, name, shim)
        elif val is time.time:
            undo.append(lambda name=name, val=val: setattr(auth, name, val))
            setattr(auth, name, tf)
    return undo


def cookie_context():
    """`BusCookieAuthenticator.cookieContext` (the name of the cookie file and the first word of the challenge).
    Fast path: the class attribute; otherwise read off a challenge of the real mechanism in a scratch keyring."""
    if 'ctx' in _IMPL:
        return _IMPL['ctx']
    auth = impl()['authentication']
    v = getattr(auth.BusCookieAuthenticator, 'cookieContext', None)
    if not isinstance(v, str):
        tmp = tempfile.mkdtemp(prefix='c06-ctx-')
        import pwd as realpwd
        old = (sys.modules.get('pwd'), realpwd.getpwnam, realpwd.getpwuid)
        fake = FakePwd([('probe', os.getuid(), os.getgid(), tmp)])
        try:
            sys.modules['pwd'] = fake
            realpwd.getpwnam, realpwd.getpwuid = fake.getpwnam, fake.getpwuid
            r = auth.BusCookieAuthenticator().step('probe')
            v = r[1].split()[0].decode('ascii') if r[0] == 'CONTINUE' else None
        finally:
            sys.modules['pwd'] = old[0] if old[0] is not None else realpwd
            realpwd.getpwnam, realpwd.getpwuid = old[1], old[2]
            shutil.rmtree(tmp, ignore_errors=True)
        if v is None:
            raise RuntimeError('the cookie context could not be determined from the real mechanism')
        _IMPL.setdefault('notes', []).append('BusCookieAuthenticator.cookieContext not found; read off a challenge')
    _IMPL['ctx'] = v
    return v


def rnd_bytes(k, n):
    return bytes((k * 131 + j * 17 + 7) % 256 for j in range(n))


def _scratch_dir():
    """Where the temporary HOMEs live: a memory file system when there is one (every cookie operation renames a file;
    on a busy disk that is 2 ms each), otherwise the default."""
    if 'scratch' not in _IMPL:
        d = '/dev/shm'
        ok = os.path.isdir(d) and os.access(d, os.W_OK | os.X_OK)
        if ok:
            try:
                t = tempfile.mkdtemp(prefix='c06-probe-', dir=d)
                os.mkdir(os.path.join(t, 'k'), 0o700)
                ok = (os.lstat(os.path.join(t, 'k')).st_mode & 0o777) == 0o700
                shutil.rmtree(t, ignore_errors=True)
            except OSError:
                ok = False
        _IMPL['scratch'] = d if ok else None
    return _IMPL['scratch']


class RealEnv:
    """Temporary HOMEs + patched pwd / os.urandom / hashlib for one session of the real mechanisms."""

    def __init__(self, spec):
        self.spec = spec
        self.root = tempfile.mkdtemp(prefix='c06-', dir=_scratch_dir())
        self.sha = {}
        self.calls = 0
        self.now = 1700000000           # time.time() is patched: whole seconds, or + 0.5 when spec['frac']
        self.now0 = self.now            # the clock at the start (bus histories advance `now`)
        self.frac = bool(spec.get('frac'))

    def home(self, h):
        return os.path.join(self.root, h)

    def __enter__(self):
        I = impl()
        auth = I['authentication']
        users = [(u[0], u[1], u[2], self.home(u[3])) for u in self.spec['users']]
        self.users = users
        self.ctxname = cookie_context()
        for h in sorted({u[3] for u in self.spec['users']}):
            os.makedirs(self.home(h))
        for h, st in sorted(self.spec['dirs'].items()):
            dk = os.path.join(self.home(h), '.dbus-keyrings')
            if st == 'good':
                os.mkdir(dk, 0o700)
                os.chmod(dk, 0o700)
            elif st == 'bad777':
                os.mkdir(dk)
                os.chmod(dk, 0o777)
            elif st == 'file':
                with open(dk, 'w') as f:
                    f.write('x')
                os.chmod(dk, 0o600)
        for h, ents in sorted(self.spec['files'].items()):
            dk = os.path.join(self.home(h), '.dbus-keyrings')
            with open(os.path.join(dk, self.ctxname), 'wb') as f:
                for cid, age, cookie in ents:
                    f.write(b'%d %d %s\n' % (cid, self.now - age, cookie.encode('ascii')))
        tf = (lambda: self.now + 0.5) if self.frac else (lambda: float(self.now))
        self.undo = patch_time(auth, tf)
        self.old_pwd = sys.modules.get('pwd')
        fake = FakePwd(users)
        sys.modules['pwd'] = fake
        # code that imported pwd at module level holds the real module: give it the same answers
        import pwd as _real_pwd
        if self.old_pwd is not None:
            _real_pwd = self.old_pwd
        self.old_pwfuncs = (_real_pwd, _real_pwd.getpwnam, _real_pwd.getpwuid)
        try:
            _real_pwd.getpwnam, _real_pwd.getpwuid = fake.getpwnam, fake.getpwuid
        except (AttributeError, TypeError):
            self.old_pwfuncs = None
        self.old_urandom = os.urandom
        env = self

        def urandom(n):
            r = rnd_bytes(env.calls, n)
            env.calls += 1
            return r
        os.urandom = urandom
        def sha1(data=b''):
            h = hashlib.sha1(data)
            env.sha[bytes(data)] = h.digest()
            return h

        class H:
            pass
        H.sha1 = staticmethod(sha1)
        # wherever txdbus.authentication keeps its reference to hashlib / sha1 (fast path: the global `hashlib`)
        self.old_hash = []
        for name, val in list(vars(auth).items()):
            if val is hashlib:
                self.old_hash.append((name, val))
                setattr(auth, name, H)
            elif val is hashlib.sha1:
                self.old_hash.append((name, val))
                setattr(auth, name, sha1)
        return self

    def __exit__(self, *a):
        I = impl()
        if self.old_pwd is not None:
            sys.modules['pwd'] = self.old_pwd
        else:
            sys.modules.pop('pwd', None)
        os.urandom = self.old_urandom
        for name, val in self.old_hash:
            setattr(I['authentication'], name, val)
        if self.old_pwfuncs is not None:
            m, a1, a2 = self.old_pwfuncs
            m.getpwnam, m.getpwuid = a1, a2
        for f in self.undo:
            f()
        set_peercred(False)
        shutil.rmtree(self.root, ignore_errors=True)

    last_user = None

    def home_of_user(self, text):
        """The home directory (symbolic) of the user a DBUS_COOKIE_SHA1 client named (name or uid text)."""
        if text is None:
            return None
        name = text
        try:
            uid = int(text)
            name = None
            for u in self.spec['users']:
                if u[1] == uid:
                    name = u[0]
                    break
        except ValueError:
            pass
        for u in self.spec['users']:
            if u[0] == name:
                return u[3]
        return None

    # -- observation of the file system
    def file_entries(self, h):
        p = os.path.join(self.home(h), '.dbus-keyrings', self.ctxname)
        try:
            with open(p, 'rb') as f:
                return [ln.split() for ln in f.read().split(b'\n') if ln.strip()]
        except OSError:
            return None

    def dir_state(self, h):
        dk = os.path.join(self.home(h), '.dbus-keyrings')
        try:
            st = os.lstat(dk)
        except OSError:
            return 'a'
        if not os.path.isdir(dk) or st.st_mode & 0o066:
            return 'b'
        return 'g'

    def fs_obs(self):
        homes = sorted({u[3] for u in self.spec['users']})
        fs, ds = [], []
        for h in homes:
            e = self.file_entries(h)
            if e is not None:
                fs.append(hx(h.encode()) + ':' + '/'.join('%d.%s' % (int(x[0]), hx(x[2])) for x in e))
            d = self.dir_state(h)
            if d != 'a':
                ds.append(hx(h.encode()) + ':' + d)
        return (','.join(sorted(fs)) or '-', ','.join(sorted(ds)) or '-')

    def model_env(self):
        s = self.spec
        creds = '-' if s.get('creds') is None else str(s['creds'])
        passwd = ','.join('%s:%d:%d:%s' % (hx(u[0].encode()), u[1], u[2], hx(u[3].encode())) for u in s['users']) or '-'
        dirs = ','.join('%s:%s' % (hx(h.encode()), 'g' if st == 'good' else 'b')
                        for h, st in sorted(s['dirs'].items()) if st != 'absent') or '-'
        files = ','.join('%s:%s' % (hx(h.encode()),
                                    '/'.join('%d.%d.%s' % (cid, self.now0 - age, hx(cookie.encode())) for cid, age, cookie in ents))
                         for h, ents in sorted(s['files'].items())) or '-'
        sha = dict(self.sha)
        for k in range(16):
            sha.setdefault(rnd_bytes(k, 8), hashlib.sha1(rnd_bytes(k, 8)).digest())
        shas = ','.join('%s:%s' % (hx(a), hx(b)) for a, b in sorted(sha.items())) or '-'
        return ';'.join([creds, passwd, dirs, files, str(self.now0) + ('+' if self.frac else ''),
                         hx(self.ctxname.encode()), shas])


CC = b'636c69656e746368616c'     # the client's challenge (already hex, as real clients send it)


def resolve_action(act, env, last_data):
    """Turn a symbolic client action into the concrete line, the way a client would compute it."""
    k = act[0]
    if k == 'raw':
        return binascii.unhexlify(act[1]) if act[1] != '-' else b''
    if k == 'auth-cookie':
        # the keyring the simulated client reads belongs to the user of the exchange the SERVER is in: an AUTH that
        # the bus answers with ERROR / REJECTED (e.g. sent in the middle of another exchange) does not change it;
        # run_real promotes pending_user to last_user when the AUTH is answered with a challenge
        env.pending_user = act[1]
        return b'AUTH DBUS_COOKIE_SHA1 ' + binascii.hexlify(act[1].encode('ascii'))
    if k == 'auth-external':
        return b'AUTH EXTERNAL' + ((b' ' + binascii.hexlify(act[1].encode('ascii'))) if act[1] is not None else b'')
    if k == 'cookie-resp':
        variant = act[1]
        chal, cookie = b'00', b'00'
        try:
            ctxn, cid, chal = binascii.unhexlify(last_data.split(b' ', 1)[1].strip()).split()
            homes = sorted({u[3] for u in env.spec['users']})
            mine = env.home_of_user(env.last_user)
            # a client reads its own keyring; fall back to any home only when the user is unknown
            for h in ([mine] if mine is not None else homes):
                found = False
                for ent in (env.file_entries(h) or []):
                    if ent[0] == cid:
                        cookie = ent[2]          # the first entry with the announced id, as the specification says
                        found = True
                        break
                if found:
                    break
        except Exception:
            pass
        cc = CC
        digest = binascii.hexlify(hashlib.sha1(chal + b':' + cc + b':' + cookie).digest())
        if variant == 'right':
            resp = cc + b' ' + digest
        elif variant == 'right-spaces':
            resp = b'  ' + cc + b'   ' + digest + b' '
        elif variant == 'wronghash':
            d = bytearray(digest)
            d[5] = ord('0') if d[5] != ord('0') else ord('1')
            resp = cc + b' ' + bytes(d)
        elif variant == 'wrongcc':
            resp = b'deadbeef' + b' ' + digest
        elif variant == 'upper':
            resp = cc + b' ' + digest.upper()
        elif variant == 'wrongcookie':
            resp = cc + b' ' + binascii.hexlify(hashlib.sha1(chal + b':' + cc + b':' + b'00' * 24).digest())
        elif variant.startswith('trunc'):
            resp = cc + b' ' + digest[:int(variant[5:])]
        elif variant == 'three':
            resp = cc + b' ' + digest + b' x'
        elif variant == 'one':
            resp = digest
        else:
            resp = b''
        # what the bus will hash for this response (its challenge, the client's first token, the stored cookie):
        # kept for the model's sha1 table even if the recording shim in txdbus.authentication is bypassed
        toks = resp.split()
        if len(toks) == 2:
            th = chal + b':' + toks[0] + b':' + cookie
            env.sha[th] = hashlib.sha1(th).digest()
        line = b'DATA ' + binascii.hexlify(resp) if resp else b'DATA'
        # 'upper': same digest, other letter case - whether hex digests compare case-insensitively is not said
        # by the statement: not judged (None)
        if variant == 'upper':
            return line, (True if digest.upper() == digest else None)
        return line, variant in ('right', 'right-spaces')
    raise ValueError(act)


def run_real(spec, actions, reads=None, extra_sha=None):
    """Phase 1 (reads is None): resolve the symbolic actions line by line.  Phase 2: replay the concrete
    reads.  Returns (obs, tr, crashed, lines, env-derived model env, fs observation, facts)."""
    with RealEnv(spec) as env:
        e = {'creds_tuple': None if spec['creds'] is None else (4242, spec['creds'], spec.get('creds_gid', 77)),
             'linux': spec.get('linux', False)}
        proto, t, tr = make_session('real', env=e)
        facts = {'right_at': [], 'wrong_at': []}
        lines = []
        crashed = None
        if reads is None:
            crashed = feed(proto, t, [b'\0'])
            last_data = b''
            for k, act in enumerate(actions):
                r = resolve_action(act, env, last_data)
                if isinstance(r, tuple):
                    line, right = r
                    if right is not None:
                        (facts['right_at'] if right else facts['wrong_at']).append(k)
                else:
                    line = r
                lines.append(line)
                if crashed is None:
                    before = len(t.value())
                    crashed = feed(proto, t, [line + b'\r\n'])
                    new = t.value()[before:].split(b'\r\n')
                    for ln in new:
                        if ln.startswith(b'DATA'):
                            last_data = ln
                            if act[0] == 'auth-cookie':
                                env.last_user = getattr(env, 'pending_user', env.last_user)
        else:
            crashed = feed(proto, t, reads)
        attach_replies(tr, t)
        obs = observe(proto, t, tr, crashed)
        facts['sha'] = dict(env.sha)
        if extra_sha:
            for k, v in extra_sha.items():
                env.sha.setdefault(k, v)
        fs = env.fs_obs()
        obs['files'], obs['dirs'], obs['rnd'] = fs[0], fs[1], env.calls
        menv = env.model_env()
        return obs, tr, crashed, lines, menv, facts


USERS = [['alice', 1000, 1001, 'h1'], ['bob', 1001, 1000, 'h2'], ['0', 7, 1000, 'h1']]


AGES = [3, 10, 500, 5000, 29, 30, 31, -29, -30, -31, 0]


def gen_real_case(rng):
    spec = {'creds': rng.choice([None, 1000, 1001, 1000, 5555, -1]), 'creds_gid': rng.choice([77, 1000, 1001]),
            'users': USERS, 'dirs': {}, 'files': {}, 'frac': rng.random() < 0.5,
            'linux': rng.random() < 0.85}      # mostly: the credentials come out of the code's own getsockopt call
    for h in ('h1', 'h2'):
        st = rng.choice(['absent', 'absent', 'good', 'good', 'bad777', 'file'])
        spec['dirs'][h] = st
        if st == 'good' and rng.random() < 0.6:
            ents = []
            for _ in range(rng.randint(0, 3)):
                ents.append([rng.randint(1, 9), rng.choice(AGES), '%048x' % rng.getrandbits(190)])
            spec['files'][h] = ents
    kind = rng.random()
    conforming = None
    users = ['alice', 'bob', '1000', ' 1001 ', '1_000', '+1000', 'nobody', '4242', '-5', '', '0', '7', 'alice\x00']
    if kind < 0.12:
        actions = [['raw', hx(b'AUTH ANONYMOUS' + rng.choice([b'', b' 6162', b' 747864627573']))]]
        if rng.random() < 0.3:
            actions.append(['raw', hx(b'NEGOTIATE_UNIX_FD')])
        if rng.random() < 0.3:
            actions = [['raw', hx(rng.choice([b'AUTH EXTERNAL zz', b'AUTH BOGUS', b'AUTH', b'ERROR']))]] * rng.randint(1, 4) + actions
        actions.append(['raw', hx(b'BEGIN')])
        conforming = 'anonymous'
    elif kind < 0.30:
        claimed = rng.choice([None, None, '1000', '1001', '0'])
        actions = [['auth-external', claimed], ['raw', hx(b'DATA')]]
        if rng.random() < 0.3:
            actions.append(['raw', hx(b'NEGOTIATE_UNIX_FD')])
        actions.append(['raw', hx(b'BEGIN')])
        # conforming: the peer has credentials with a passwd entry and claims no identity or its own
        if spec['creds'] in (1000, 1001) and claimed in (None, str(spec['creds'])):
            conforming = 'external'
    elif kind < 0.55:
        u = rng.choice(['alice', 'bob', '1000', '1001'])
        home = {'alice': 'h1', 'bob': 'h2', '1000': 'h1', '1001': 'h2'}[u]
        v = rng.choice(['right', 'right', 'right-spaces'])
        actions = [['auth-cookie', u], ['cookie-resp', v], ['raw', hx(b'BEGIN')]]
        if spec['dirs'][home] in ('absent', 'good'):
            conforming = 'cookie'
    elif kind < 0.75:
        # a client that knows the user but not the cookie: every wrong variant, then (sometimes) the right one
        u = rng.choice(['alice', 'bob', '1000', '1001'])
        v = rng.choice(['wronghash', 'wrongcc', 'upper', 'wrongcookie', 'three', 'one', 'empty', 'trunc0', 'trunc1', 'trunc39'])
        actions = [['auth-cookie', u], ['cookie-resp', v], ['raw', hx(b'BEGIN')]]
        if rng.random() < 0.5:
            actions = actions[:2] + [['auth-cookie', u], ['cookie-resp', 'right'], ['raw', hx(b'BEGIN')]]
    else:
        actions = []
        for _ in range(rng.randint(1, 7)):
            r = rng.random()
            if r < 0.3:
                actions.append(['auth-cookie', rng.choice(users)])
            elif r < 0.55:
                actions.append(['cookie-resp', rng.choice(['right', 'wronghash', 'wrongcc', 'upper', 'wrongcookie', 'three', 'trunc1', 'trunc39',
                                                           'one', 'empty', 'right-spaces'])])
            elif r < 0.65:
                actions.append(['auth-external', rng.choice([None, '1000', 'zz'])])
            else:
                actions.append(['raw', hx(rng.choice([b'BEGIN', b'CANCEL', b'ERROR', b'DATA', b'AUTH ANONYMOUS', b'AUTH',
                                                      b'AUTH DBUS_COOKIE_SHA1', b'AUTH DBUS_COOKIE_SHA1 zz', b'DATA zz',
                                                      b'DATA 6162', b'FISHY', b'AUTH BOGUS']))])
    return {'kind': 'real', 'env': spec, 'actions': actions, 'conforming': conforming}


def judge_real(ctx, case, pending, rng=None):
    offered = offered_names()
    limit, reject_msg = limits()
    spec, actions = case['env'], case['actions']
    obs1, tr1, crashed1, lines, _, facts = run_real(spec, actions)
    stream = b'\0' + b''.join(l + b'\r\n' for l in lines)
    # acceptance monitors on the interactive run
    inp = dict(case)
    inp['lines'] = [hx(l) for l in lines]
    if crashed1 is not None:
        h = tr1.handed[-1] if tr1.handed else None
        if h is not None and is_utf8(h['line'].split(b' ', 1)[0]):
            name = crashed1.split(':')[0]
            if True:
                report(ctx, crash_key(crashed1, None, None),
                       '%s escapes dataReceived on line %r' % (crashed1, h['line'][:60]),
                       inp, fmt_obs(obs1), 'a reply per the state table')
    for key, what, observed, expected in oracle(stream, obs1, tr1, crashed1, offered, limit, reject_msg):
        if crashed1 is not None and key.startswith(('auth-line-crash', 'external-creds', 'external-unknown', 'auth-invalid-hex', 'cookie-double')):
            continue
        report(ctx, key, what, inp, observed, expected)
    conf = case.get('conforming')
    if conf and crashed1 is None and not obs1['auth']:
        key = {'cookie': 'cookie-right-response-rejected', 'external': 'external-client-not-accepted',
               'anonymous': 'anonymous-client-not-accepted'}[conf]
        report(ctx, key, 'a conforming %s client presenting acceptable credentials is not accepted' % conf,
               inp, fmt_obs(obs1), 'auth=1')
    # wrong / right cookie responses: look at the verdict the mechanism gave on exactly that line
    for k in facts['wrong_at'] + facts['right_at']:
        if k < len(tr1.handed):
            h = tr1.handed[k]
            if h['outcomes'] and h['outcomes'][-1][0] == b'DBUS_COOKIE_SHA1':
                o = h['outcomes'][-1][1]
                if k in facts['wrong_at'] and o == 'A':
                    report(ctx, 'wrong-cookie-accepted', 'DBUS_COOKIE_SHA1 accepted a wrong response', inp,
                           fmt_obs(obs1), 'REJECTED')
                if k in facts['right_at'] and o != 'A' and is_second_step(tr1, k):
                    report(ctx, 'cookie-right-response-rejected',
                           'DBUS_COOKIE_SHA1 rejected the response hash(server_challenge:client_challenge:cookie)',
                           inp, fmt_obs(obs1), 'OK')
    ctx.impl_trace()
    # phase 2: same bytes under splittings, against the model
    rng = rng or ctx.rng
    first = None
    for reads in splittings(rng, stream, n_random=1, bytewise_max=0):
        obs, tr, crashed, _, menv, _ = run_real(spec, actions, reads=reads, extra_sha=facts.get('sha'))
        ctx.impl_trace()
        c2 = dict(inp)
        c2['reads'] = [hx(r) for r in reads]
        ctx.case('real-mechs', sample=c2 if len(stream) < 300 else None, nontrivial=bool(tr.steps))
        line = fmt_obs(obs, extra=('files', 'dirs', 'rnd', 'cancels', 'steps'))
        line_m = fmt_obs(obs, extra=('files', 'dirs', 'rnd'))
        if first is None:
            first = obs
        else:
            same = ('sent', 'closed', 'auth', 'guid', 'bin', 'handed', 'crashed', 'files', 'dirs')
            if any(first[k] != obs[k] for k in same):
                report(ctx, 'auth-split-dependent', 'the same byte stream gives a different outcome under another splitting',
                       c2, line, fmt_obs(first))
        pending.append(('real-mechs', c2, 'R %s %s %s' % (hx(GUID), menv, ' '.join(hx(r) for r in reads)), line_m))
        ctx.stat('real: auth=%d closed=%d crashed=%d' % (obs['auth'], obs['closed'], obs['crashed']))
    ctx.stat('real: conforming=%s' % conf)


def judge_interleaved(ctx, rng):
    """Two connections to the same bus, interleaved line by line, both DBUS_COOKIE_SHA1 for users sharing (or not)
    a keyring: each is accepted with the response computed from ITS challenge and cookie, and not with the other's.
    Implementation only (the model has one connection)."""
    ua, ub = rng.choice([('alice', 'alice'), ('alice', '7'), ('alice', 'bob'), ('1000', 'alice')])
    spec = {'creds': None, 'users': USERS, 'dirs': {'h1': rng.choice(['absent', 'good']), 'h2': 'absent'}, 'files': {},
            'frac': rng.random() < 0.5}
    cross = rng.random() < 0.5
    order = rng.choice(['AB', 'BA'])
    judge_interleaved_case(ctx, {'kind': 'interleaved', 'users': [ua, ub], 'cross': cross, 'order': order, 'env': spec})


def judge_interleaved_case(ctx, case):
    """One interleaved pair; the case holds everything that determines it (so a replay file re-runs it)."""
    (ua, ub), cross, order, spec = case['users'], case['cross'], case['order'], case['env']
    with RealEnv(spec) as env:
        sess = {}
        for name in 'AB':
            proto, t, tr = make_session('real', env={'creds_tuple': None})
            sess[name] = {'proto': proto, 't': t, 'tr': tr, 'crashed': None, 'data': b''}

        def send(name, line):
            x = sess[name]
            if x['crashed'] is None:
                before = len(x['t'].value())
                x['crashed'] = feed(x['proto'], x['t'], [line])
                for ln in x['t'].value()[before:].split(b'\r\n'):
                    if ln.startswith(b'DATA'):
                        x['data'] = ln

        def response(name, user):
            try:
                ctxn, cid, chal = binascii.unhexlify(sess[name]['data'].split(b' ', 1)[1].strip()).split()
            except Exception:
                return b'DATA'
            cookie = b'00'
            for ent in (env.file_entries(env.home_of_user(user)) or []):
                if ent[0] == cid:
                    cookie = ent[2]
                    break
            digest = binascii.hexlify(hashlib.sha1(chal + b':' + CC + b':' + cookie).digest())
            return b'DATA ' + binascii.hexlify(CC + b' ' + digest)
        send('A', b'\0AUTH DBUS_COOKIE_SHA1 ' + binascii.hexlify(ua.encode()) + b'\r\n')
        send('B', b'\0AUTH DBUS_COOKIE_SHA1 ' + binascii.hexlify(ub.encode()) + b'\r\n')
        ra, rb = response('A', ua), response('B', ub)
        distinct = ra != rb
        if cross:
            ra, rb = rb, ra
        for name in order:
            send(name, (ra if name == 'A' else rb) + b'\r\n')
        for name in order:
            send(name, b'BEGIN\r\n')
        ctx.case('real-interleaved', sample=case)
        ctx.impl_trace()
        for name in 'AB':
            x = sess[name]
            o = 'sent=%s closed=%d auth=%d crashed=%s' % (hxs(sent_lines(x['t'])), int(bool(x['t'].disconnecting)),
                                                           x['proto'].authd, x['crashed'])
            if x['crashed'] is not None:
                report(ctx, crash_key(x['crashed'], None, None), 'connection %s of two interleaved ones: %s escapes '
                       'dataReceived' % (name, x['crashed']), case, o, 'a reply per the state table')
            elif not cross and not x['proto'].authd:
                report(ctx, 'cookie-right-response-rejected', 'connection %s of two interleaved ones presented the right '
                       'response to its own challenge and was not accepted' % name, case, o, 'auth=1')
            elif cross and distinct and x['proto'].authd:
                report(ctx, 'wrong-cookie-accepted', 'connection %s was accepted with the response computed for the '
                       'other connection\'s challenge' % name, case, o, 'auth=0')
        ctx.stat('interleaved: cross=%s' % cross)


def judge_config_sequences(ctx, rng):
    """Connections served one after the other IN ONE PROCESS by buses with different authenticator configurations
    (the default table; subclasses restricting `authenticators`), in both orders.  Each connection is judged by the
    same oracle with ITS bus's offered list: only a mechanism that bus offers may be stepped or accepted, REJECTED
    carries that bus's list.  Implementation only (the model has one configuration)."""
    names = offered_names()
    subsets = [None] + [[n] for n in names] + ([names[:2]] if len(names) > 2 else [])
    convs = [[b'AUTH ' + n, b'BEGIN'] for n in names] + [[b'AUTH ' + n, b'DATA', b'BEGIN'] for n in names[:1]]
    plans = []
    for c1 in subsets:
        for c2 in subsets:
            if c1 != c2:
                for conv in convs:
                    plans.append([(c1, conv), (c2, conv)])
    for _ in range(ctx.scale(quick=30, thorough=600)):
        plans.append([(rng.choice(subsets), rng.choice(convs)) for _ in range(rng.randint(2, 4))])
    for mode in ('scripted', 'real'):
        for plan in plans:
            judge_config_plan(ctx, mode, plan)
    ctx.stat('config-sequences: plans=%d' % (2 * len(plans)))


def judge_config_plan(ctx, mode, plan):
    names = offered_names()
    case = None
    if True:
        if True:
            for k, (cfg, conv) in enumerate(plan):
                offered = list(names) if cfg is None else [n for n in names if n in cfg]
                stream = b'\0' + b''.join(l + b'\r\n' for l in conv)
                case = {'kind': 'config-sequence', 'mode': mode, 'position': k,
                        'plan': [[None if c is None else [x.decode() for x in c], [hx(l) for l in cv]] for c, cv in plan]}
                if mode == 'scripted':
                    proto, t, tr = make_session('scripted', script=['A', 'A', 'A'], offer=cfg)
                    crashed = feed(proto, t, [stream])
                    attach_replies(tr, t)
                    obs = observe(proto, t, tr, crashed)
                else:
                    spec = {'creds': 1000, 'creds_gid': 77, 'users': USERS, 'dirs': {'h1': 'absent', 'h2': 'absent'},
                            'files': {}, 'frac': False}
                    with RealEnv(spec):
                        proto, t, tr = make_session('real', env={'creds_tuple': (4242, 1000, 77)}, offer=cfg)
                        crashed = feed(proto, t, [stream])
                        attach_replies(tr, t)
                        obs = observe(proto, t, tr, crashed)
                ctx.impl_trace()
                for key, what, observed, expected in oracle(stream, obs, tr, crashed, offered, REJECT_LIMIT,
                                                            b'REJECTED ' + b' '.join(offered)):
                    report(ctx, key, 'bus configuration %s, connection %d of a sequence in one process: %s'
                           % ('default' if cfg is None else b'+'.join(cfg).decode(), k + 1, what), case, observed, expected)
            ctx.case('config-sequences', sample=case)


SCHEDULES = [
    # A gets 1, B gets 2, A completes, C re-uses 1 (file order 2,1), D must not be handed B's id 2 again
    'a0 a1 r0 b0 a2 a3 r1 b1 r3 b3 r2 b2',
    'a0 a1 r0 b0 a2 a3 r3 b3 r1 b1 r2 b2',
    'a0 a1 a2 r1 b1 a3 r0 b0 a4 r2 b2 r3 b3 r4 b4',
    'a0 a1 x0 a2 a3 r1 b1 r2 b2 r3 b3',
    'a0 a1 a2 x1 a3 a4 r0 b0 r4 b4 r3 b3 r2 b2',
    'a0 r0 b0 a1 r1 b1 a2 r2 b2',
    'a0 a1 a2 a3 r3 b3 r2 b2 r1 b1 r0 b0',
    'a0 a1 r1 b1 a2 r2 b2 a3 r0 b0 r3 b3',
]


def random_schedule(rng):
    n = rng.randint(3, 5)
    seqs = []
    for i in range(n):
        seqs.append(rng.choice([['a', 'r', 'b'], ['a', 'r', 'b'], ['a', 'r', 'b'], ['a', 'x'], ['a']]))
    out = []
    pos = [0] * n
    started = 0
    while True:
        # sessions start in index order (so that ids are handed out in a known order), continue in any order
        cand = [i for i in range(n) if pos[i] < len(seqs[i]) and (pos[i] > 0 or i == started)]
        if not cand:
            break
        i = rng.choice(cand)
        if pos[i] == 0:
            started += 1
        out.append('%s%d' % (seqs[i][pos[i]], i))
        pos[i] += 1
    return ' '.join(out)


def judge_overlapping(ctx, schedule, users, dirstate, frac):
    """Several connections of users sharing one keyring, DBUS_COOKIE_SHA1 exchanges overlapping in time with
    completions and cancellations in between.  Every client is conforming: on the challenge it reads the FIRST entry
    with the announced id from the keyring (as the specification says) and answers sha1(challenge:cc:cookie).
    The statement: DBUS_COOKIE_SHA1 with the right cookie is accepted.  Implementation only."""
    spec = {'creds': None, 'users': USERS, 'dirs': {'h1': dirstate, 'h2': 'absent'}, 'files': {}, 'frac': frac}
    case = {'kind': 'overlapping', 'schedule': schedule, 'users': users, 'dir': dirstate, 'frac': frac}
    with RealEnv(spec) as env:
        sess = {}

        def get(i):
            if i not in sess:
                proto, t, tr = make_session('real', env={'creds_tuple': None})
                sess[i] = {'proto': proto, 't': t, 'tr': tr, 'crashed': None, 'resp': None, 'done': False,
                           'user': users[i % len(users)]}
            return sess[i]

        def send(i, line):
            x = get(i)
            if x['crashed'] is not None:
                return b''
            before = len(x['t'].value())
            x['crashed'] = feed(x['proto'], x['t'], [line])
            return x['t'].value()[before:]
        for ev in schedule.split():
            op, i = ev[0], int(ev[1:])
            x = get(i)
            if op == 'a':
                out = send(i, b'\0AUTH DBUS_COOKIE_SHA1 ' + binascii.hexlify(x['user'].encode()) + b'\r\n')
                # a conforming client computes its answer as soon as it has the challenge
                try:
                    ctxn, cid, chal = binascii.unhexlify(out.split(b'\r\n')[0].split(b' ', 1)[1].strip()).split()
                    cookie = None
                    for ent in (env.file_entries(env.home_of_user(x['user'])) or []):
                        if ent[0] == cid:
                            cookie = ent[2]
                            break
                    if cookie is not None:
                        digest = binascii.hexlify(hashlib.sha1(chal + b':' + CC + b':' + cookie).digest())
                        x['resp'] = b'DATA ' + binascii.hexlify(CC + b' ' + digest)
                    x['challenged'] = True
                except Exception:
                    x['challenged'] = False
            elif op == 'r':
                send(i, (x['resp'] or b'DATA') + b'\r\n')
            elif op == 'b':
                send(i, b'BEGIN\r\n')
                x['done'] = True
            elif op == 'x':
                send(i, b'CANCEL\r\n')
        ctx.case('real-overlapping', sample=case)
        ctx.impl_trace()
        ctx.stat('overlapping: sessions=%d' % len(sess))
        for i in sorted(sess):
            x = sess[i]
            o = 'connection %d: sent=%s closed=%d auth=%d crashed=%s' % (
                i, hxs(sent_lines(x['t'])), int(bool(x['t'].disconnecting)), x['proto'].authd, x['crashed'])
            if x['crashed'] is not None:
                report(ctx, crash_key(x['crashed'], None, None), 'overlapping cookie authentications: %s escapes '
                       'dataReceived on connection %d' % (x['crashed'], i), case, o, 'a reply per the state table')
            elif x['done'] and x.get('challenged') and x['resp'] is not None and not x['proto'].authd:
                report(ctx, 'cookie-right-response-rejected', 'overlapping cookie authentications of users sharing a '
                       'keyring: connection %d answered its challenge with the cookie stored under the announced id '
                       'and was not accepted' % i, case, o, 'auth=1')
            elif x.get('challenged') and x['resp'] is None:
                report(ctx, 'cookie-right-response-rejected', 'the cookie id announced to connection %d is not in the '
                       'keyring file' % i, case, o, 'an entry with the announced id')


def is_second_step(tr, k):
    """The cookie mechanism was on its second step at handled line k (previous step of the same exchange was a challenge)."""
    for j in range(k - 1, -1, -1):
        if tr.handed[j]['outcomes']:
            return tr.handed[j]['outcomes'][-1][1].startswith('C') and tr.handed[j]['outcomes'][-1][0] == b'DBUS_COOKIE_SHA1'
        if tr.handed[j]['rejects']:
            return False
    return False


# ===================================================================== several live connections of one bus

"""A `bus` case is ONE history over several connections of one bus process:

    {'kind': 'bus', 'mode': 'scripted' | 'real' | 'plain', 'env': <RealEnv spec, real/plain only>,
     'conns': [{'script': [...], 'offer': None} | {'creds': uid or None, 'user': text}, ...],
     'events': 'c0 c1 L0:<hex> u1:<hex> a0 r0 w1:wronghash b0 l1 t31 ...'}

events (the digit string is the connection):
    c<i>           makeConnection of connection i (a fresh BusProtocol of the session class)
    l<i>           connectionLost on connection i ("dropped": no CANCEL, nothing is sent); nothing is delivered afterwards
    t<n>           the clock advances n seconds (real / plain)
    u<i>:<hex>     these bytes arrive on connection i as one read (any cut, also inside a line)
    L<i>:<hex>     the line + CRLF as one read (preceded by the NUL byte when it is the first thing i sends)
    n<i> E<i> b<i> x<i> D<i>      the lines AUTH ANONYMOUS / ERROR / BEGIN / CANCEL / DATA
    e<i>[:<claimed>]              AUTH EXTERNAL [hex(claimed)]
    a<i>           AUTH DBUS_COOKIE_SHA1 <user of i>; when a challenge comes back the simulated client looks the cookie up
                   at once (first entry with the announced id in the user's keyring file, as the specification says)
    r<i>           the right response to the challenge i holds (DATA when it holds none)
    w<i>[:<var>]   a wrong response (wronghash, wrongcc, wrongcookie, othercookie, trunc39, three, one, empty)

Every connection is judged on ITS byte stream by the full oracle (state table, closing rules, safety monitor, hand-off),
and by the acceptance clauses of the statement applied per connection:
  * ANONYMOUS never rejects; EXTERNAL never rejects a connection whose OWN peer credentials have a passwd entry (and that
    claims no or its own identity), never accepts one whose own credentials are missing / unknown, and the identity the
    bus records for a connection authenticated through EXTERNAL is the one of ITS credentials;
  * the right response to a pending DBUS_COOKIE_SHA1 challenge is answered OK, a wrong one never is.
When an exception escapes on one connection the reactor drops THAT connection; the history goes on for the others.
The credentials of a connection are never planted: with the SO_PEERCRED switch on they come from that connection's
(fake) socket through the code's own getsockopt call; with it off no connection has any.  Only when the tree has no such
switch at all (`gate` = never) are they put into `_unix_creds` by hand (`planted`).
"""

COOKIE_LIFETIME = 30          # seconds; the harness's assumption on time (ASSUMPTIONS) - the code's rule is abs(now - t) < 30
WRONG_VARIANTS = ['wronghash', 'wrongcc', 'wrongcookie', 'othercookie', 'trunc39', 'three', 'one', 'empty']


def _uid_name(spec, uid):
    """pw_name of the first passwd entry with that uid (None: no entry)."""
    if uid is None or uid < 0:
        return None
    for u in spec['users']:
        if u[1] == uid:
            return u[0]
    return None


class _Null:
    def __enter__(self):
        return None

    def __exit__(self, *a):
        return False


def run_bus(case):
    """Run one history.  Returns (conns, model_line, impl_line, findings) - conns: per connection dict(stream, obs, tr,
    crashed, offered, ...); findings: [(key, what, observed, expected)] from the acceptance clauses."""
    I = impl()
    mode = case['mode']
    spec = case.get('env')
    cds = case['conns']
    real = mode != 'scripted'
    findings = []
    mev = []                      # events for the model
    from twisted.python.failure import Failure
    from twisted.internet.error import ConnectionDone
    names = offered_names()
    with (RealEnv(spec) if real else _Null()) as env, (RecordReal() if mode == 'plain' else _Null()):
        linux = bool(real and spec.get('linux'))
        planted = False
        if real:
            got = set_peercred(linux)
            if linux and not got:
                linux, planted = False, True          # no switch in this tree: credentials by hand, as a last resort
            elif not linux and not got:
                linux = True                          # the lookup cannot be switched off: it runs against the sockets
        else:
            set_peercred(False)
        sess = {}
        stale = [False]

        def connect(i):
            cd = cds[i]
            proto, t, tr = make_session(mode, script=cd.get('script'), offer=[n for n in names if n.decode() in cd['offer']]
                                        if cd.get('offer') else None, setup='none')
            creds = cd.get('creds')
            eff = None
            if real:
                tup = None if creds is None else (4242 + i, creds, cd.get('gid', 77 + i))
                if linux:
                    t.socket = fake_socket(tup)
                    eff = creds if creds is not None else -1
                elif planted and tup is not None:
                    proto._unix_creds = tup
                    eff = creds
            elif I['gate'][0] == 'always':
                t.socket = fake_socket(None)
            sess[i] = {'proto': proto, 't': t, 'tr': tr, 'crashed': None, 'lost': False, 'stream': b'', 'eff': eff,
                       'mi': len(sess),            # the model numbers connections in the order they were made
                       'resp': None, 'pending': False, 'user': cd.get('user'), 'sent_any': False,
                       'offered': [n for n in names if (not cd.get('offer')) or n.decode() in cd['offer']]}
            mev.append('c:%s' % ('-' if eff is None else eff) if real else 'c')

        def lose(i):
            x = sess[i]
            if x['lost']:
                return
            x['lost'] = True
            x['pending'] = False
            activate(x['proto'])
            try:
                x['proto'].connectionLost(Failure(ConnectionDone()))
            except Exception as e:                       # outside C06; the history goes on
                x['lost_raised'] = type(e).__name__
            mev.append('l%d' % x['mi'])

        def deliver(i, data):
            """One read for connection i; returns what the bus wrote in answer."""
            x = sess[i]
            if x['lost'] or x['crashed'] is not None or not data:
                return b''
            before = len(x['t'].value())
            x['stream'] += data
            x['sent_any'] = True
            mev.append('r%d:%s' % (x['mi'], hx(data)))
            x['crashed'] = feed(x['proto'], x['t'], [data])
            out = x['t'].value()[before:]
            if x['crashed'] is not None:
                lose(i)                                  # what the reactor does with a connection whose dataReceived raised
            return out

        def line(i, ln):
            x = sess[i]
            return deliver(i, (b'' if x['sent_any'] else b'\0') + ln + b'\r\n')

        def cookie_of(x, cid):
            for ent in (env.file_entries(env.home_of_user(x['user'])) or []):
                if ent[0] == cid:
                    return ent[2]
            return None

        def lookup(i, x, first):
            """The simulated client of connection i reads the cookie announced in its challenge and prepares its answer."""
            x['cookie'] = cookie_of(x, x['cid'])
            if x['cookie'] is None:
                if stale[0] or x.get('ticks', 0) >= COOKIE_LIFETIME:
                    return              # the entry may legitimately have expired and been purged
                findings.append(('cookie-right-response-rejected', 'the cookie id announced to connection %d (%r) is not in '
                                 'the keyring file of %r %s' % (i, x['cid'], x['user'], 'when the client answers its pending '
                                                                'challenge' if cds[i].get('lazy') else 'right after the challenge'),
                                 hx(first), 'an entry with the announced id'))
                return
            digest = binascii.hexlify(hashlib.sha1(x['chal'] + b':' + CC + b':' + x['cookie']).digest())
            x['resp'] = CC + b' ' + digest
            th = x['chal'] + b':' + CC + b':' + x['cookie']
            env.sha[th] = hashlib.sha1(th).digest()

        for tok in case['events'].split():
            op = tok[0]
            head, _, arg = tok[1:].partition(':')
            if op == 't':
                env.now += int(head)
                mev.append('t%d' % int(head))
                for x in sess.values():
                    x['ticks'] = x.get('ticks', 0) + int(head)
                    # a challenge still open on a live connection has outlived the cookie lifetime: its entry may be purged
                    # and its id handed out again, after which the late owner's step two / cancel removes the NEW entry -
                    # behaviour of correct code outside the harness's assumption on time: from here on no right response
                    # is demanded in this history (wrong ones are still never accepted; the model is still compared)
                    if (x.get('chal_open') and x['ticks'] >= COOKIE_LIFETIME and not x['lost'] and x['crashed'] is None
                            and not x['t'].disconnecting):
                        stale[0] = True
                continue
            i = int(head)
            if op == 'c':
                connect(i)
                continue
            if i not in sess:
                connect(i)
            x = sess[i]
            if op == 'l':
                lose(i)
            elif op == 'u':
                deliver(i, binascii.unhexlify(arg))
            elif op == 'L':
                line(i, binascii.unhexlify(arg) if arg and arg != '-' else b'')
            elif op in 'nEbxD':
                line(i, {'n': b'AUTH ANONYMOUS', 'E': b'ERROR', 'b': b'BEGIN', 'x': b'CANCEL', 'D': b'DATA'}[op])
                x['pending'] = False
                if op != 'n':
                    x['chal_open'] = False
            elif op == 'e':
                line(i, b'AUTH EXTERNAL' + ((b' ' + binascii.hexlify(arg.encode('ascii'))) if arg else b''))
                x['pending'] = False
                if arg and _uid_name(spec, x['eff']) is not None and arg != str(x['eff']):
                    x['claims_other'] = True
            elif op == 'a':
                x['pending'], x['resp'] = False, None
                nh = len(x['tr'].handed)
                out = line(i, b'AUTH DBUS_COOKIE_SHA1 ' + binascii.hexlify((x['user'] or '').encode('ascii')))
                first = out.split(b'\r\n')[0]
                home = env.home_of_user(x['user'])
                hs = x['tr'].handed[nh:]
                if (home is not None and spec['dirs'].get(home, 'absent') in ('absent', 'good') and len(hs) == 1
                        and hs[0]['outcomes'] and hs[0]['outcomes'][-1] == (b'DBUS_COOKIE_SHA1', 'R')):
                    # the mechanism was consulted for a user with a passwd entry and a usable keyring directory
                    findings.append(('cookie-client-not-challenged', 'connection %d asked for DBUS_COOKIE_SHA1 as %r (passwd '
                                     'entry, usable keyring directory) and the mechanism rejected it without a challenge: a '
                                     'client holding the right cookie cannot present it' % (i, x['user']),
                                     hx(first), 'DATA <context id challenge>'))
                if first.startswith(b'DATA '):
                    try:
                        ctxn, cid, chal = binascii.unhexlify(first.split(b' ', 1)[1].strip()).split()
                    except Exception:
                        ctxn = cid = chal = None
                    x['pending'], x['ticks'], x['chal_open'] = True, 0, True
                    x['chal'], x['cid'], x['cookie'] = chal, cid, None
                    if not cds[i].get('lazy'):
                        lookup(i, x, first)
            elif op in 'rw':
                if x['pending'] and cds[i].get('lazy') and x.get('cid') is not None:
                    lookup(i, x, b'')           # this client opens the keyring only now that it answers
                was_pending, resp = x['pending'], x['resp']
                x['pending'] = x['chal_open'] = False
                if op == 'r' or resp is None:
                    payload = resp
                else:
                    cc, digest = resp.split()
                    v = arg or 'wronghash'
                    if v == 'wronghash':
                        d = bytearray(digest)
                        d[5] = ord('0') if d[5] != ord('0') else ord('1')
                        payload = cc + b' ' + bytes(d)
                    elif v == 'wrongcc':
                        payload = b'deadbeef ' + digest
                    elif v in ('wrongcookie', 'othercookie'):
                        other = b'00' * 24
                        if v == 'othercookie':
                            for ent in (env.file_entries(env.home_of_user(x['user'])) or []):
                                if ent[2] != x['cookie']:
                                    other = ent[2]
                                    break
                        payload = cc + b' ' + binascii.hexlify(hashlib.sha1(x['chal'] + b':' + cc + b':' + other).digest())
                    elif v.startswith('trunc'):
                        payload = cc + b' ' + digest[:int(v[5:])]
                    elif v == 'three':
                        payload = cc + b' ' + digest + b' x'
                    elif v == 'one':
                        payload = digest
                    else:
                        payload = b''
                    toks = payload.split()
                    if len(toks) == 2:
                        th = x['chal'] + b':' + toks[0] + b':' + x['cookie']
                        env.sha[th] = hashlib.sha1(th).digest()
                was_open = not x['t'].disconnecting
                out = line(i, (b'DATA ' + binascii.hexlify(payload)) if payload else b'DATA')
                ok = out.startswith(b'OK ')
                o = 'connection %d answered %s' % (i, hxs([p for p in out.split(b'\r\n') if p]))
                if x['crashed'] is None and was_pending and was_open and resp is not None:
                    if op == 'r' and not ok and x.get('ticks', 0) < COOKIE_LIFETIME and not stale[0]:
                        findings.append(('cookie-right-response-rejected', 'connection %d (user %r) answered its pending '
                                         'DBUS_COOKIE_SHA1 challenge with sha1(challenge:cc:cookie) for the cookie stored '
                                         'under the announced id and was not answered OK' % (i, x['user']), o, 'OK <guid>'))
                    if op == 'w' and ok:
                        findings.append(('wrong-cookie-accepted', 'connection %d (user %r): the wrong response (%s) to its '
                                         'DBUS_COOKIE_SHA1 challenge was answered OK' % (i, x['user'], arg or 'wronghash'),
                                         o, 'REJECTED'))
            else:
                raise ValueError('bus event %r' % tok)
        # ---- observations
        conns = []
        for i in sorted(sess, key=lambda j: sess[j]['mi']):
            x = sess[i]
            x['index'] = i
            x['stale'] = stale[0]
            attach_replies(x['tr'], x['t'])
            x['obs'] = observe(x['proto'], x['t'], x['tr'], x['crashed'])
            conns.append(x)
        if real:
            fs = env.fs_obs()
            impl_line = (' | '.join(fmt_obs(x['obs']) for x in conns) or '-') + ' || files=%s dirs=%s rnd=%d' % (fs[0], fs[1], env.calls)
            model_line = 'M %s %s %s' % (hx(GUID), env.model_env(), ' '.join(mev))
        else:
            impl_line = ' | '.join(fmt_obs(x['obs'], extra=('cancels', 'steps')) for x in conns) or '-'
            scripts = '/'.join((','.join(s.replace(':', '') for s in cds[x['index']].get('script') or []) or '-') for x in conns)
            model_line = 'N %s %s %s' % (hx(GUID), scripts, ' '.join(mev))
        if any(cds[i].get('offer') for i in sess) or planted:
            model_line = None          # restricted tables / planted credentials are outside the bus model
        # ---- the acceptance clauses that speak about mechanisms, per connection
        for i in sorted(sess):
            x = sess[i]
            own = _uid_name(spec, x['eff']) if real else None
            last_accept = None
            for h in x['tr'].handed:
                for name, o in h['outcomes']:
                    if o == 'A':
                        last_accept = name
                    if not real:
                        continue
                    o1 = 'connection %d (peer credentials uid %s) line %r: %s -> %s' % (i, x['eff'], h['line'][:50], name.decode(), o)
                    if name == b'ANONYMOUS' and o == 'R':
                        findings.append(('anonymous-client-not-accepted', 'ANONYMOUS rejected connection %d' % i, o1, 'OK'))
                    if name == b'EXTERNAL':
                        if own is not None and o == 'R' and not x.get('claims_other'):
                            findings.append(('external-client-not-accepted', 'EXTERNAL rejected connection %d although THIS '
                                             'connection\'s peer credentials (uid %s = %s) have a passwd entry'
                                             % (i, x['eff'], own), o1, 'DATA / OK'))
                        if own is None and o == 'A':
                            findings.append(('external-accepted-without-credentials', 'EXTERNAL accepted connection %d '
                                             'although THIS connection has no usable peer credentials (uid %s)'
                                             % (i, x['eff']), o1, 'REJECTED'))
            if real and x['obs']['auth'] and last_accept == b'EXTERNAL':
                g = x['proto'].guid
                if own is not None and _b(g) != own.encode():
                    findings.append(('external-identity-not-this-connection', 'connection %d was authenticated through '
                                     'EXTERNAL; the identity the bus recorded is not the one of THIS connection\'s peer '
                                     'credentials (uid %s)' % (i, x['eff']), repr(g), own))
        return conns, model_line, impl_line, findings


def judge_bus(ctx, stream_name, case, pending):
    conns, model_line, impl_line, findings = run_bus(case)
    ctx.impl_trace()
    mode = case['mode']
    ctx.case(stream_name, sample=case if len(case['events']) < 600 else None,
             nontrivial=any(x['tr'].steps or x['obs']['closed'] for x in conns))
    for x in conns:
        i = x['index']
        offered = x['offered']
        for key, what, observed, expected in oracle(x['stream'], x['obs'], x['tr'], x['crashed'], offered, REJECT_LIMIT,
                                                    b'REJECTED ' + b' '.join(offered)):
            if x['stale'] and key == 'cookie-double-delete':
                # FileNotFoundError out of _delete_cookie after a challenge outlived the cookie lifetime (the late owner of a
                # re-issued id removed the new entry): time is outside the assumptions, see `stale` in run_bus
                ctx.stat('bus: not judged, challenge outlived the cookie lifetime')
                continue
            report(ctx, key, 'connection %d of %d on one bus: %s' % (i, len(conns), what), case, observed, expected)
    for key, what, observed, expected in findings:
        report(ctx, key, what, case, observed, expected)
    if model_line is not None:
        pending.append((stream_name, case, model_line, impl_line))
    ctx.stat('bus: mode=%s conns=%d' % (mode, min(len(conns), 5)))
    for x in conns:
        ctx.stat('bus: conn auth=%d closed=%d crashed=%d' % (x['obs']['auth'], x['obs']['closed'], x['obs']['crashed']))


# ------------------------------------------------------------------ generators of bus histories

def _chunks(*ls, **kw):
    nul, tail = kw.get('nul', True), kw.get('tail', b'')
    return [(b'\0' if nul and k == 0 else b'') + l + b'\r\n' for k, l in enumerate(ls)] + ([tail] if tail else [])


# (name, outcome script of THIS connection, the reads it receives in order)
SCRIPTED_TEMPLATES = [
    ('cancel5-then-anonymous', ['C:6368'] * 5 + ['A'],
     _chunks(*([b'AUTH EXTERNAL', b'CANCEL'] * 5 + [b'AUTH ANONYMOUS', b'BEGIN']))),
    ('anonymous-begin-rest', ['A'], _chunks(b'AUTH ANONYMOUS', b'BEGIN', tail=b'l\x01\x00\x01rest')),
    ('six-unknown-mechanisms', ['A'], _chunks(*([b'AUTH BOGUS'] * 6 + [b'AUTH ANONYMOUS', b'BEGIN']))),
    ('challenge-then-data', ['C:6368', 'A'], _chunks(b'AUTH DBUS_COOKIE_SHA1 6162', b'DATA 6162', b'BEGIN')),
    ('begin-out-of-turn', ['A'], _chunks(b'BEGIN', b'AUTH ANONYMOUS', b'BEGIN')),
    ('accept-error-accept', ['A', 'A'], _chunks(b'AUTH ANONYMOUS', b'ERROR', b'AUTH EXTERNAL', b'BEGIN')),
    ('no-nul', ['A'], _chunks(b'AUTH ANONYMOUS', b'BEGIN', nul=False)),
    ('stays-waiting-for-begin', ['A'], _chunks(b'AUTH ANONYMOUS')),
    ('stays-waiting-for-data', ['C:'], _chunks(b'AUTH EXTERNAL')),
    ('long-line', ['A'], [b'\0' + b'A' * (MAXLINE + 1) + b'\r\n'] + _chunks(b'AUTH ANONYMOUS', b'BEGIN', nul=False)),
    ('cut-inside-lines', ['A'], [b'\0AUTH ANONY', b'MOUS\r', b'\nBEG', b'IN\r\nl\x01']),
    ('bad-utf8-word', ['A'], _chunks(b'AUTH ANONYMOUS', b'\xff\xfe', b'BEGIN')),
    ('five-rejections-then-accept', ['R', 'R', 'A'],
     _chunks(b'AUTH', b'ERROR', b'AUTH EXTERNAL', b'AUTH BOGUS', b'AUTH ANONYMOUS 6162', b'AUTH ANONYMOUS', b'BEGIN')),
    ('cancel-at-the-limit', ['A', 'A'],
     _chunks(*([b'AUTH BOGUS'] * 5 + [b'AUTH ANONYMOUS', b'CANCEL', b'AUTH ANONYMOUS', b'BEGIN']))),
    ('unterminated-tail', [], [b'\0AUTH ANONYMOUS']),
]


def _alternate(a, b):
    out = []
    for k in range(max(len(a), len(b))):
        out += a[k:k + 1] + b[k:k + 1]
    return out


def bus_scripted_pairs():
    """Every ordered pair of conversation templates on two connections of one bus, under five interleavings."""
    for na, sa, ca in SCRIPTED_TEMPLATES:
        for nb, sb, cb in SCRIPTED_TEMPLATES:
            A = ['u0:' + hx(c) for c in ca]
            B = ['u1:' + hx(c) for c in cb]
            h = (len(A) + 1) // 2
            pats = [('both-live', ['c0', 'c1'] + A + B), ('late-connect', ['c0'] + A + ['c1'] + B),
                    ('alternate', ['c0', 'c1'] + _alternate(A, B)), ('nested', ['c0', 'c1'] + A[:h] + B + A[h:]),
                    ('lost-then-new', ['c0'] + A + ['l0', 'c1'] + B)]
            for pn, ev in pats:
                yield {'kind': 'bus', 'mode': 'scripted', 'what': '%s | %s, %s' % (na, nb, pn),
                       'conns': [{'script': list(sa)}, {'script': list(sb)}], 'events': ' '.join(ev)}


def _interleave(rng, queues, late=0.5, lose=0.3):
    """A random interleaving of per-connection event queues; a connection is made at a random moment before its first
    event (in index order), and sometimes lost after its last one."""
    n = len(queues)
    pos = [0] * n
    made = 0
    ev = []
    first = rng.randint(1, n)
    while made < first:
        ev.append('c%d' % made)
        made += 1
    while True:
        cand = [i for i in range(made) if pos[i] < len(queues[i])]
        if made < n and (not cand or rng.random() < late / (1 + len(cand))):
            ev.append('c%d' % made)
            made += 1
            continue
        if not cand:
            break
        i = rng.choice(cand)
        ev.append(queues[i][pos[i]])
        pos[i] += 1
        if pos[i] == len(queues[i]) and rng.random() < lose:
            ev.append('l%d' % i)
    return ev


def gen_bus_scripted_random(rng):
    n = rng.randint(2, 4)
    conns, queues = [], []
    for i in range(n):
        if rng.random() < 0.5:
            _, script, chunks = rng.choice(SCRIPTED_TEMPLATES)
            if rng.random() < 0.4:
                chunks = rng.choice(splittings(rng, b''.join(chunks), n_random=2, bytewise_max=0))
        else:
            script, stream = gen_random_conv(rng)
            chunks = rng.choice(splittings(rng, stream, n_random=2, bytewise_max=24))
        offer = None
        if rng.random() < 0.1:
            offer = rng.choice([['ANONYMOUS'], ['EXTERNAL'], ['EXTERNAL', 'DBUS_COOKIE_SHA1']])
        conns.append({'script': list(script), 'offer': offer})
        queues.append(['u%d:%s' % (i, hx(c)) for c in chunks if c])
    return {'kind': 'bus', 'mode': 'scripted', 'conns': conns, 'events': ' '.join(_interleave(rng, queues))}


def _real_spec(rng=None, linux=True, h1='absent', files=None, frac=False):
    spec = {'creds': None, 'users': USERS, 'dirs': {'h1': h1, 'h2': 'absent'}, 'files': {}, 'frac': frac, 'linux': linux}
    if files is not None:
        spec['dirs']['h1'] = 'good'
        spec['files']['h1'] = files
    return spec


def bus_external_chains():
    """The identity chain: connections whose peers have different / no credentials, every one asking EXTERNAL, in several
    interleavings; the credentials reach the bus through each connection's own socket."""
    sets = [[1000, None, 1001], [None, 1000, 1001], [1001, 1000, None], [1000, 1001, None], [None, 1001, 1000],
            [1001, None, 1000], [1000, 1000], [None, 1000], [1000, None], [1000, -1, 1001], [5555, 1000], [1001, 7, 5555]]
    k = 0
    for cs in sets:
        n = len(cs)
        idx = list(range(n))
        conv = lambda i: ['e%d' % i, 'D%d' % i, 'b%d' % i]
        allc = ['c%d' % i for i in idx]
        pats = [
            ('one-after-the-other', sum([['c%d' % i] + conv(i) for i in idx], [])),
            ('lost-in-between', sum([['c%d' % i] + conv(i) + ['l%d' % i] for i in idx], [])),
            ('all-live', allc + sum([conv(i) for i in idx], [])),
            ('round-robin', allc + ['e%d' % i for i in idx] + ['D%d' % i for i in idx] + ['b%d' % i for i in idx]),
            ('round-robin-reversed', allc + ['e%d' % i for i in reversed(idx)] + ['D%d' % i for i in idx]
             + ['b%d' % i for i in reversed(idx)]),
            ('nul-bytes-first', allc + ['u%d:00' % i for i in idx] + sum([conv(i) for i in reversed(idx)], [])),
            ('retry-after-the-others', allc + ['e0', 'x0'] + sum([conv(i) for i in idx[1:]], []) + conv(0)),
        ]
        for pn, ev in pats:
            k += 1
            yield {'kind': 'bus', 'mode': 'plain' if k % 3 == 0 else 'real', 'what': 'EXTERNAL, peers %s, %s' % (cs, pn),
                   'env': _real_spec(), 'conns': [{'creds': c, 'user': 'alice'} for c in cs], 'events': ' '.join(ev)}
    # the platform without SO_PEERCRED: nobody has credentials, EXTERNAL accepts nobody
    for ev in ('c0 c1 e0 e1 D0 D1 b0 b1 n0 b0', 'c0 e0 D0 c1 n1 b1 e0 b0'):
        yield {'kind': 'bus', 'mode': 'real', 'what': 'EXTERNAL without SO_PEERCRED', 'env': _real_spec(linux=False),
               'conns': [{'creds': 1000, 'user': 'alice'}, {'creds': 1001, 'user': 'bob'}], 'events': ev}


EXT_PLANS = [['e', 'D', 'b'], ['e:own', 'D', 'b'], ['e:1000', 'D', 'b'], ['n', 'b'], ['a', 'r', 'b'], ['e', 'x', 'e', 'D', 'b'],
             ['e', 'D', 'x', 'n', 'b'], ['E', 'e', 'D', 'b'], ['e', 'D', 'D', 'b'], ['e', 'b'], ['a', 'w', 'e', 'D', 'b'], ['e', 'D']]


def gen_bus_external_random(rng):
    n = rng.randint(2, 4)
    conns, queues = [], []
    for i in range(n):
        creds = rng.choice([1000, None, 1001, -1, 5555, 7, 1000, 1001])
        conns.append({'creds': creds, 'gid': rng.choice([77, 1000, 1001]), 'user': rng.choice(['alice', 'bob', '1000', '7'])})
        q = []
        for op in rng.choice(EXT_PLANS):
            if op == 'e:own':
                op = 'e' if creds is None else 'e'
                q.append('e%d%s' % (i, '' if creds is None or creds < 0 else ':%d' % creds))
                continue
            head, _, arg = op.partition(':')
            q.append('%s%d%s' % (head, i, (':' + arg) if arg else ''))
        queues.append(q)
    return {'kind': 'bus', 'mode': rng.choice(['real', 'real', 'plain']),
            'env': _real_spec(linux=rng.random() < 0.9, h1=rng.choice(['absent', 'good']), frac=rng.random() < 0.5),
            'conns': conns, 'events': ' '.join(_interleave(rng, queues))}


COOKIE_HISTORIES = [
    'a0 w0 a1 r1 b1',                                   # a failed exchange, then a good one on another connection
    'a0 w0:othercookie a0 r0 b0 a1 r1 b1',
    'a0 l0 a1 r1 b1',                                   # dropped without CANCEL, then a good one
    'a0 a1 l0 r1 b1 a2 r2 b2',
    'a0 l0 t31 a1 r1 b1 a2 r2 b2',                      # the dropped entry expires
    'a0 r0 b0 t31 a1 a2 r2 b2 r1 b1',                   # time has passed since the process first looked at a clock
    't31 a0 a1 r0 b0 r1 b1',
    't60 a0 a1 a2 r1 b1 r0 b0 r2 b2',
    'a0 x0 a1 w1:othercookie a2 r2 b2 a1 r1 b1',
    'a0 a1 w0:othercookie r1 b1 a0 r0 b0',
    'a0 a1 a2 l1 r0 b0 a3 r3 b3 r2 b2',
    'a0 t7 a1 t7 r0 b0 t7 r1 b1',
    'a0 w0 a0 w0:one a0 w0:three a0 w0:empty a0 w0:wrongcc a0 r0 b0 a1 r1 b1',       # five failures, then right
    'a0 w0 a0 w0 a0 w0 a0 w0 a0 w0 a0 w0 a1 r1 b1 a0',                               # six: 0 is closed, 1 is not affected
    'a0 r0 x0 a0 r0 b0 a1 r1 x1 a1 r1 b1',
    'a0 a1 r0 r1 l0 b1 a2 r2 b2',
]

_CK = ['%048x' % (0x1111 * (k + 1) + (k << 90)) for k in range(6)]
PRESEEDS = [None, [], [[5, 3, _CK[0]], [2, 10, _CK[1]]], [[1, 31, _CK[0]], [2, 5000, _CK[1]]],
            [[3, 29, _CK[0]], [1, 30, _CK[1]], [7, -29, _CK[2]]], [[2, 0, _CK[0]], [1, 25, _CK[1]], [9, 60, _CK[2]]]]
USER_SETS = [['alice'], ['alice', '7'], ['1000', 'alice', '7'], ['alice', 'bob']]


def bus_cookie_histories():
    k = 0
    for hist in COOKIE_HISTORIES:
        n = 1 + max(int(t[1:].split(':')[0]) for t in hist.split() if t[0] != 't')
        for users in USER_SETS:
            for pre in PRESEEDS:
                k += 1
                if (k % 3 and pre not in (None, PRESEEDS[2])):
                    continue                       # every history with no file and the non-ascending one; the rest thinned
                yield {'kind': 'bus', 'mode': 'plain' if k % 4 == 0 else 'real',
                       'env': _real_spec(linux=False, files=pre, frac=bool(k % 2)),
                       'conns': [{'creds': None, 'user': users[i % len(users)], 'lazy': bool((k + i) % 2)} for i in range(n)],
                       'events': hist}


def gen_bus_cookie_random(rng):
    """Overlapping DBUS_COOKIE_SHA1 exchanges with failures, cancellations, dropped connections, the clock advancing, and
    a keyring file that may hold entries from before.  The clock only jumps (>= 30 s) while no challenge is outstanding
    on a live connection, and by small amounts (< 30 s in total) otherwise - the assumption on time of this harness."""
    n = rng.randint(2, 5)
    users = rng.choice(USER_SETS)
    plans = []
    for i in range(n):
        p = []
        for _ in range(rng.randint(0, 2)):
            p += rng.choice([['a', 'w'], ['a', 'x'], ['a', 'r', 'x'], ['a', 'w:' + rng.choice(WRONG_VARIANTS)], ['a', 'E']])
        p += rng.choice([['a', 'r', 'b'], ['a', 'r', 'b'], ['a', 'r', 'b'], ['a', 'l'], ['a', 'r', 'l'], ['a'], []])
        plans.append(p)
    pos = [0] * n
    ev = []
    outstanding = set()
    small = 0
    while True:
        cand = [i for i in range(n) if pos[i] < len(plans[i])]
        if not cand:
            break
        r = rng.random()
        if r < 0.08 and not outstanding:
            ev.append('t%d' % rng.choice([31, 31, 60, 30]))
            continue
        if r < 0.14 and small + 7 < 30:
            small += 7
            ev.append('t7')
            continue
        i = rng.choice(cand)
        op = plans[i][pos[i]]
        pos[i] += 1
        head, _, arg = op.partition(':')
        ev.append('%s%d%s' % (head, i, (':' + arg) if arg else ''))
        if head == 'a':
            outstanding.add(i)
        else:
            outstanding.discard(i)
    pre = None
    if rng.random() < 0.5:
        ids = rng.sample(range(1, 12), rng.randint(0, 4))
        pre = [[cid, rng.choice(AGES), '%048x' % rng.getrandbits(190)] for cid in ids]
    return {'kind': 'bus', 'mode': rng.choice(['real', 'real', 'plain']),
            'env': _real_spec(linux=rng.random() < 0.3, h1=rng.choice(['absent', 'good']), files=pre, frac=rng.random() < 0.5),
            'conns': [{'creds': None, 'user': users[i % len(users)], 'lazy': rng.random() < 0.5} for i in range(n)],
            'events': ' '.join(ev)}


# ===================================================================== corpus / replay / run

def run_case(ctx, case, pending, stream_name='corpus'):
    if case.get('kind') == 'config-sequence':
        plan = [(None if c is None else [x.encode() for x in c], [binascii.unhexlify(l) if l != '-' else b'' for l in cv])
                for c, cv in case['plan']]
        judge_config_plan(ctx, case['mode'], plan)
    elif case.get('kind') == 'bus':
        judge_bus(ctx, stream_name if stream_name.startswith('bus-') else
                  {'scripted': 'bus-scripted'}.get(case['mode'], 'bus-cookie' if ' a' in ' ' + case['events'] else 'bus-external'),
                  case, pending)
    elif case.get('kind') == 'overlapping':
        judge_overlapping(ctx, case['schedule'], case['users'], case.get('dir', 'absent'), case.get('frac', False))
    elif case.get('kind') == 'interleaved':
        judge_interleaved_case(ctx, case)
    elif case.get('kind') == 'real':
        judge_real(ctx, case, pending)
    else:
        reads = [binascii.unhexlify(r) if r != '-' else b'' for r in case['reads']]
        rl = [reads]
        if case.get('other_reads'):
            rl.append([binascii.unhexlify(r) if r != '-' else b'' for r in case['other_reads']])
        elif case.get('all_splittings'):
            rl = splittings(ctx.rng, b''.join(reads))
        judge_scripted(ctx, stream_name, case.get('script', []), rl, pending)


def expand_corpus_case(case):
    """Corpus files may describe long inputs compactly: {"gen": "line16384-split-cr-lf"}."""
    g = case.get('gen')
    if g == 'line16384-split-cr-lf':
        line = b'A' * MAXLINE
        return {'kind': 'scripted', 'script': [], 'reads': [hx(b'\0' + line + b'\r'), hx(b'\n')],
                'other_reads': [hx(b'\0' + line + b'\r\n')]}
    if g == 'line16385-whole':
        line = b'A' * (MAXLINE + 1)
        return {'kind': 'scripted', 'script': [], 'reads': [hx(b'\0' + line + b'\r\n')],
                'other_reads': [hx(b'\0' + line + b'\r'), hx(b'\n')]}
    return case


def run(ctx):
    impl()
    pending = []
    rng = ctx.rng
    # past failures first
    for name, case in ctx.corpus():
        run_case(ctx, expand_corpus_case(case), pending, 'scripted-boundary' if 'gen' in case else
                 ('real-mechs' if case.get('kind') == 'real' else 'scripted-random'))
    flush_model(ctx, pending)

    run_bytes_helpers(ctx)
    run_spec_table(ctx)

    # bounded-exhaustive
    thorough = ctx.tier == 'thorough'
    d_full = 4 if thorough else 3
    d_red = 5 if thorough else 4
    if ctx.widen:
        d_full, d_red = d_full, d_red + 0
    leaves = enum_scripted(LINE_FORMS, d_full)
    seen = {(tuple(l), tuple(s)) for l, s in leaves}
    for l, s in enum_scripted(REDUCED_FORMS, d_red):
        if (tuple(l), tuple(s)) not in seen:
            leaves.append((l, s))
    ctx.stat('exhaustive-leaves', len(leaves))
    for lines, script in leaves:
        stream = b'\0' + b''.join(l + b'\r\n' for l in lines)
        judge_scripted(ctx, 'scripted-exhaustive', script, splittings(rng, stream, n_random=2, bytewise_max=0), pending)
        if len(pending) > 20000:
            flush_model(ctx, pending)
    flush_model(ctx, pending)

    # random, long, crossing the rejection limit
    for _ in range(ctx.scale(quick=1500, thorough=40000)):
        script, stream = gen_random_conv(rng)
        judge_scripted(ctx, 'scripted-random', script, splittings(rng, stream), pending)
    flush_model(ctx, pending)
    for _ in range(ctx.scale(quick=40, thorough=400)):
        script, reads_list = gen_boundary_conv(rng)
        judge_scripted(ctx, 'scripted-boundary', script, reads_list, pending)
        ctx.stat('boundary')
    flush_model(ctx, pending)
    for _ in range(ctx.scale(quick=600, thorough=12000)):
        script, stream = gen_malformed_conv(rng)
        judge_scripted(ctx, 'scripted-malformed', script, splittings(rng, stream), pending)
    flush_model(ctx, pending)

    # the real mechanisms
    for _ in range(ctx.scale(quick=250, thorough=4000)):
        judge_real(ctx, gen_real_case(rng), pending)
    flush_model(ctx, pending)
    for _ in range(ctx.scale(quick=60, thorough=1000)):
        judge_interleaved(ctx, rng)
    judge_config_sequences(ctx, rng)
    for sched in SCHEDULES:
        for users in (['alice'], ['alice', '7'], ['1000', 'alice', '7']):
            judge_overlapping(ctx, sched, users, 'absent', False)
    for _ in range(ctx.scale(quick=60, thorough=1500)):
        judge_overlapping(ctx, random_schedule(rng), rng.choice([['alice'], ['alice', '7'], ['1000', 'alice']]),
                          rng.choice(['absent', 'good']), rng.random() < 0.5)

    # several live connections of one bus: per-connection scripts / credentials / cookie exchanges, interleaved
    for case in bus_scripted_pairs():
        judge_bus(ctx, 'bus-scripted', case, pending)
    for _ in range(ctx.scale(quick=300, thorough=8000)):
        judge_bus(ctx, 'bus-scripted', gen_bus_scripted_random(rng), pending)
    flush_model(ctx, pending)
    for case in bus_external_chains():
        judge_bus(ctx, 'bus-external', case, pending)
    for _ in range(ctx.scale(quick=150, thorough=4000)):
        judge_bus(ctx, 'bus-external', gen_bus_external_random(rng), pending)
    flush_model(ctx, pending)
    for case in bus_cookie_histories():
        judge_bus(ctx, 'bus-cookie', case, pending)
    for _ in range(ctx.scale(quick=200, thorough=5000)):
        judge_bus(ctx, 'bus-cookie', gen_bus_cookie_random(rng), pending)
    flush_model(ctx, pending)
    ctx.exhaustive = False


def replay(ctx, data):
    impl()
    pending = []
    case = expand_corpus_case(data.get('input', data))
    run_case(ctx, case, pending, 'real-mechs' if case.get('kind') == 'real' else 'scripted-random')
    flush_model(ctx, pending)
