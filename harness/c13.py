"""C13 - Built-in bus: a name has one live owner; ownership follows request flags.

Correspondence + oracle harness.  The real `txdbus.bus.Bus` with scripted `BusProtocol`
connections on `StringTransport`s:

* byte path: every connection authenticates with ANONYMOUS through the real line protocol, sends
  a real Hello and every RequestName / ReleaseName / GetNameOwner / ListQueuedOwners as the bytes
  of a real `MethodCallMessage`; what the bus writes back is parsed with `message.parseMessage`;
* direct path: the same objects, but `bus.dbus_*` is called directly (the same code, without
  the codec and the dispatcher) - used for the largest enumeration only.

A history is a list of driver tokens (`c`, `d<c>`, `q<c>,<n>,<flags>`, `r<c>,<n>`, `o<c>,<n>`,
`l<c>,<n>`; c = k of the unique name ":1.k", n = index into NAMES).

Extension 2026-09-30 (seam with C14): `u<c>,<dest>,<t>` - connection c sends a message of type t (1 call,
2 return, 3 error, 4 signal) addressed to <dest> through the real bus, and the harness records on which
transports it arrives; `g<c>,<dest>` - GetNameOwner(<dest>) for any name.  <dest> = `k<j>` the unique name
":1.j", `n<i>` NAMES[i], `f<i>` FOREIGN[i] (starts with ':' but is not of the form the bus hands out).
The model's answer is `routerLookup` on its name table at that point of the history; the oracle's is the
owner of the destination in the reference table at that moment (nobody when there is none).

S3: every step's events + live tables are compared with the Lean code model (`drv_c13`).
S4: an implementation-only oracle: the invariants of the live tables after every step, and reply
codes / NameAcquired deliveries / lookups against the reference name table `Ref`, which is
written from the property statement (and is itself compared with the Lean specification in the
stream `spec-vs-reference`).
"""
import itertools
import json

STREAMS = ['names-exhaustive-bytes', 'names-exhaustive-direct', 'names-two-name-handover',
           'names-random-bytes', 'spec-vs-reference', 'client-flags', 'router-lookup-bytes',
           'names-waiter-leaves', 'names-two-buses']
THEOREMS = ['inv_reachable', 'inv_step', 'at_most_one_owner_and_alive', 'step_never_raises',
            'request_semantics', 'reply_states_relation', 'release_semantics', 'disconnect_semantics',
            'signals_track_ownership', 'at_most_one_believer',
            'queries_agree', 'refines_spec', 'run_refines_spec', 'spec_exec_sound', 'codes_match_spec',
            'client_flags_roundtrip', 'client_success_iff_owner',
            'router_lookup_is_spec_owner', 'lookup_follows_history', 'lookup_at_that_moment',
            'lookups_change_nothing', 'queries_agree_any_name', 'prefix_router_finds_dead_owner',
            'owners_follow_names_step', 'owners_follow_names_history', 'router_models_agree',
            'unicast_reaches_spec_owner', 'wellknown_owner_is_live',
            'linked_history_exists', 'joint_bus_invariant_partial', 'joint_bus_unicast_partial',
            'joint_bus_self_addressed_partial', 'joint_bus_owner_is_live_partial']
TRUSTED_BASE = [
    'Python dict (insertion order, in-place overwrite, del), list.remove / insert / append / `in`, '
    'object identity of connections (`is`) - mirrored by hand in Bus/Names.lean, validated by the streams',
    'the mapping connection object <-> k of its unique name ":1.k", name string <-> index (harness/c13.py)',
    'Bus/SpecNames.lean: transcription of the RequestName / ReleaseName sections of the DBus specification',
]
ASSUMPTIONS = [
    'FRAME: only the modelled functions write Bus.busNames / a connection\'s busNames / Bus.clients; every other '
    'entry point of the bus is the no-op `Op.other`.  Enforced on every run by the translator (AST of txdbus/*.py, '
    'table lemma frame_only_modelled_writers) and exercised by the other-traffic steps of the random stream',
    'clientDisconnected is modelled from the release loop on; the `router.delMatch` loop before it is assumed not to '
    'raise (C12/C14).  Exercised: connections get match rules through real AddMatch calls before they disconnect',
    '"connected" in the theorems is membership in Bus.clients (connectionLost -> clientDisconnected is the only way '
    'out); the oracle instead uses the set of connections the harness itself has open',
    'names are valid well-known bus names (validation at the top of dbus_RequestName is C18); destinations of '
    'messages / GetNameOwner are non-empty valid bus names other than org.freedesktop.DBus (the empty destination and '
    'the bus\'s own name are decided before the lookup: C14)',
    'of an addressed message only WHO receives it is modelled and judged here (content, sender field, order: C14)',
    'org.freedesktop.DBus as a REQUESTED name: the built-in bus grants it (dbus-daemon refuses; neither C13\'s nor C14\'s '
    'statement says it must: observed, not flagged - DESIGN section 13); the name table then treats it like any name '
    '(modelled, compared, judged: NAMES[4]).  As a DESTINATION that string is the token `b` = HStep.sendBus: answered by '
    'the bus and forwarded to nobody (C14\'s statement), whoever holds the name; `u<c>,n4` is never generated',
    'a connection whose first message is not Hello (token a<dest>) is `connect` followed by `send` in the model; that '
    'the bus asks the transport to close after a first method call that is not Hello is C14\'s (the harness may deliver '
    'the loss later as d<k>)',
    'what becomes of a replaced owner is left open by the property (txdbus drops it; the DBus '
    'specification requeues it second): both accepted by spec and oracle',
    'not demanded by the oracle (compared with the model only): NameOwnerChanged broadcasts, NameLost deliveries, '
    'absence of extra NameAcquired, how an unowned name is reported by ListQueuedOwners (error or empty list), '
    'flag words with bits outside 0x7, the representation of the tables',
    'a connection acts only while connected; one operation is processed at a time (Twisted reactor); one whole '
    'message per read (framing is C04)',
]
RULE = ('a case is one history prefix (node of the enumeration tree) or one whole history (family, random); exhaustive streams '
        'enumerate every history over 4 connections x 2 names x {8 flag words, release, lookup, listing} + disconnects '
        'up to symmetry (connections and names in order of first appearance); distinct = distinct token list; '
        'non-trivial = at least one name has an owner when the last operation runs')

# 0, 1: the two names of the enumerations; 2, 3: differ from name 0 in case only / are a prefix of it;
# 4: the bus's own name as a REQUESTED name (the built-in bus grants it - observed, not flagged, DESIGN section 13 -,
#    GetNameOwner then names the requester; as the DESTINATION of a message it is the token `b`, never `n4`:
#    such a message is answered by the bus and not forwarded, whoever holds the name)
NAMES = ['com.example.alpha', 'org.b.c2', 'Com.Example.Alpha', 'com.example', 'org.freedesktop.DBus']
BUSNAME_IDX = 4
# match rules that match the messages `World.addressed` builds (token m<c>,<j>): a holder must still not receive
# an addressed message (C14: "to the connection owning the destination name ... and to no other")
EAVES = ["type='method_call',interface='com.example.Iface'",
         "type='signal',interface='com.example.Iface',member='Poked'",
         "type='error'", "type='method_return'", "interface='com.example.Iface'", "member='Frob'"]
RULES = ["type='signal',interface='com.example.Nothing',member='Nope'",
         "type='signal',interface='org.freedesktop.DBus',member='NameOwnerChanged'"]
# names that start with ':' but are not of the form ':1.<decimal without leading zero>' the bus hands out
FOREIGN = [':1.01', ':2.1', ':1.1a', ':01.1', ':1.1.1', ':x.y']
BUS = 'org.freedesktop.DBus'
PATH = '/org/freedesktop/DBus'
ERRP = 'org.freedesktop.DBus.Error.'
PYEXC = 'org.txdbus.PythonException.'


def dest_str(d):
    """The destination string of a destination token (k<j> / n<i> / f<i> / b)."""
    if d == 'b':
        return BUS
    if d[0] == 'k':
        return ':1.%d' % int(d[1:])
    if d[0] == 'n':
        return NAMES[int(d[1:])]
    return FOREIGN[int(d[1:]) % len(FOREIGN)]


def tok_args(tok):
    """Integer arguments of a token; for `u` / `g` tokens only the sender (the destination is a word); none for
    `c` and `a` (a new connection)."""
    if tok[0] in 'ug':
        return [int(tok[1:].split(',')[0])]
    if tok[0] in 'ca':
        return []
    return [int(x) for x in tok[1:].split(',')]


def tok_dest(tok):
    """The destination word of a `u` / `g` / `a` token."""
    return tok[1:].split(',')[0 if tok[0] == 'a' else 1]


# ----------------------------------------------------------------------------- the real bus
class World:
    """A real Bus with scripted connections.  mode = 'bytes' | 'direct'."""

    def __init__(self, mode):
        import struct
        import txdbus.protocol
        from txdbus import bus, message, client
        from twisted.internet.testing import StringTransport
        from twisted.internet.protocol import Factory
        # the first byte of a connection makes the protocol read the peer credentials off the socket on Linux; the
        # fake transport below carries a socket stand-in that answers getsockopt, so no private switch of the
        # library is needed (the module flag `_is_linux`, where it still exists, is only the fast path)
        if hasattr(txdbus.protocol, '_is_linux'):
            txdbus.protocol._is_linux = False
        self.struct = struct
        self.busmod, self.message, self.client = bus, message, client
        self.mode = mode
        self.bus = bus.Bus()
        self.factory = Factory()
        self.factory.protocol = bus.BusProtocol
        self.factory.bus = self.bus
        self.protos = {}          # k -> BusProtocol (every connection ever made)
        self.made = 0             # connections made so far (the harness's own count; `a` tokens number by it)
        self.raw = []             # (k or None, payload) in the order the bus sent things
        self.msgs = {}            # cache of call messages
        world = self

        class FakeSocket:
            def getsockopt(self, level, opt, size=0):
                return struct.pack('3i', 4242, 0, 0)      # pid, uid, gid of SO_PEERCRED

        class Transport(StringTransport):
            owner = None
            socket = FakeSocket()

            def write(self, data):
                world.raw.append((self.owner, bytes(data)))
        self.Transport = Transport

        orig = self.bus.broadcastSignal

        def broadcast(member, signature=None, body=None, **kw):
            world.raw.append((None, (member, body)))
            return orig(member, signature, body, **kw)
        self.bus.broadcastSignal = broadcast

    # -- helpers
    def kof(self, proto):
        u = getattr(proto, 'uniqueName', None)
        if isinstance(u, str) and u.startswith(':1.') and u[3:].isdigit():
            return int(u[3:])
        return -1

    def nidx(self, name):
        return NAMES.index(name) if name in NAMES else ('?' + repr(name))

    def split(self, buf):
        out = []
        while buf:
            e = '<' if buf[:1] == b'l' else '>'
            blen = self.struct.unpack(e + 'I', buf[4:8])[0]
            hlen = self.struct.unpack(e + 'I', buf[12:16])[0]
            h = 16 + hlen
            tot = h + ((8 - h % 8) % 8) + blen
            out.append(self.message.parseMessage(buf[:tot], []))
            buf = buf[tot:]
        return out

    def call_msg(self, member, sig=None, body=None):
        return self.message.MethodCallMessage(PATH, member, interface=BUS, destination=BUS,
                                              signature=sig, body=body)

    # -- operations
    def authenticated(self):
        """A new connection that has authenticated and not yet sent anything."""
        p = self.factory.buildProtocol(None)
        t = self.Transport()
        p.makeConnection(t)
        if self.mode == 'bytes':
            p.dataReceived(b'\0AUTH ANONYMOUS 616e6f6e\r\n')
            p.dataReceived(b'BEGIN\r\n')
        else:
            # authenticated by fiat (`_authenticated` is pinned by the test suite); everything else goes through
            # the public entry point: the library registers the connection and notes the Hello itself
            p._authenticated = True
            p.connectionAuthenticated()
        self.made += 1
        return p, t

    def connect(self):
        p, t = self.authenticated()
        p.dataReceived(self.call_msg('Hello').rawMessage)
        k = self.kof(p)
        t.owner = k
        self.protos[k] = p
        self.raw = []
        return k

    def events(self, serial, kind):
        """Canonical events from self.raw (in order).  Returns a list of strings or 'ERR:x'.
        Deliveries of NameOwnerChanged through match rules are C14's subject and dropped (the broadcast
        itself is recorded at broadcastSignal); for other traffic (kind 'x') only name signals are kept."""
        out = []
        other = kind == 'x'
        for owner, payload in self.raw:
            if owner is None:
                member, body = payload
                if member == 'NameOwnerChanged' and isinstance(body, (list, tuple)) and len(body) == 3:
                    def u(x):
                        return '-' if x == '' else (x[3:] if isinstance(x, str) and x.startswith(':1.') else '?')
                    out.append('B%s:%s:%s' % (self.nidx(body[0]), u(body[1]), u(body[2])))
                else:
                    out.append('B?%s' % (member,))
                continue
            for m in self.split(payload):
                mt = m._messageType
                if mt == 4:
                    tag = {'NameAcquired': 'A', 'NameLost': 'L'}.get(m.member)
                    if tag and m.interface == BUS and m.body and len(m.body) == 1:
                        out.append('%s%d:%s' % (tag, owner, self.nidx(m.body[0])))
                    elif (m.member == 'NameOwnerChanged' and m.interface == BUS) or other:
                        pass
                    else:
                        out.append('S%d:%s' % (owner, m.member))
                elif other:
                    if mt == 3 and m.error_name.startswith(PYEXC):
                        return 'ERR:' + exc_kind(m.error_name[len(PYEXC):])
                elif mt == 2:
                    if serial is None or m.reply_serial != serial:
                        out.append('R%d:unexpected' % owner)
                    elif kind in ('q', 'r'):
                        out.append('r%d:%s' % (owner, m.body[0]))
                    elif kind == 'o':
                        v = m.body[0]
                        out.append('o%d:%s' % (owner, v[3:] if v.startswith(':1.') else '?' + v))
                    elif kind == 'l':
                        out.append('l%d:%s' % (owner, '.'.join(v[3:] for v in m.body[0])))
                elif mt == 3:
                    en = m.error_name
                    if en.startswith(PYEXC):
                        return 'ERR:' + exc_kind(en[len(PYEXC):])
                    out.append('e%d:%s' % (owner, en[len(ERRP):] if en.startswith(ERRP) else en))
                else:
                    out.append('M%d:%d' % (owner, mt))
        return out

    def addressed(self, dest, t):
        """A message of type t with destination `dest` as a peer would write it."""
        msg = self.message
        if t == 2:
            return msg.MethodReturnMessage(77, body=[5], destination=dest, signature='u')
        if t == 3:
            return msg.ErrorMessage('com.example.Error.Nope', 78, destination=dest, signature='s', body=['no'])
        if t == 4:
            return msg.SignalMessage('/com/example/Obj', 'Poked', 'com.example.Iface', destination=dest,
                                     signature='s', body=['p'])
        return msg.MethodCallMessage('/com/example/Obj', 'Frob', interface='com.example.Iface',
                                     destination=dest, signature='s', body=['x'])

    def receivers(self, sent, dest):
        """On which transports did the addressed message arrive (in the order written)?  A transport keeps the
        number of the connection it was made for, connected or not.  Name signals that the send caused (there
        should be none) are listed too.  -> ['D1'] / ['D-'] / ['D1.2'] (+ 'A..' / 'L..') or 'ERR:x'."""
        got, extra = [], []
        for owner, payload in self.raw:
            if owner is None:
                extra.append('B?')
                continue
            for m in self.split(payload):
                if (m._messageType == sent._messageType and m.serial == sent.serial
                        and getattr(m, 'destination', None) == dest):
                    got.append(owner)
                elif m._messageType == 4 and m.interface == BUS and m.member in ('NameAcquired', 'NameLost'):
                    extra.append('%s%d:%s' % (m.member[4], owner, self.nidx(m.body[0])))
                elif m._messageType == 3 and m.error_name.startswith(PYEXC):
                    return 'ERR:' + exc_kind(m.error_name[len(PYEXC):])
        return ['D' + ('.'.join(str(k) for k in got) if got else '-')] + extra

    def step(self, tok):
        """Run one operation token; returns canonical event list, or 'ERR:<kind>'."""
        self.raw = []
        kind = tok[0]
        try:
            if kind == 'c':
                self.connect()
                return []
            if kind == 'a':
                # a new connection whose FIRST message is an addressed one (no Hello): the bus names it on that
                # message (and asks the transport to close when it is a method call; the message is processed)
                parts = tok[1:].split(',')
                dest = dest_str(parts[0])
                p, t = self.authenticated()
                k = self.made
                t.owner = k
                self.protos[k] = p
                self.raw = []
                m = self.addressed(dest, int(parts[1]) if len(parts) > 1 else 1)
                p.dataReceived(m.rawMessage)
                if self.kof(p) != k:
                    return 'ERR:other-numbering'
                return self.receivers(m, dest)
            if kind == 'm':
                c, j = [int(x) for x in tok[1:].split(',')]
                rule = EAVES[j % len(EAVES)]
                if self.mode == 'bytes':
                    self.protos[c].dataReceived(self.call_msg('AddMatch', 's', [rule]).rawMessage)
                else:
                    self.bus.dbus_AddMatch(rule, dbusCaller=':1.%d' % c)
                ev = self.events(None, 'x')
                return ev
            if kind in 'ug':
                parts = tok[1:].split(',')
                c, dest = int(parts[0]), dest_str(parts[1])
                p = self.protos[c]
                if kind == 'u':
                    m = self.addressed(dest, int(parts[2]) if len(parts) > 2 else 1)
                    if self.mode == 'bytes':
                        p.dataReceived(m.rawMessage)
                    else:
                        # what BusProtocol.rawDBusMessageReceived hands to the bus (the filter for the bus's own
                        # name sits in Bus.messageReceived, not in Bus.sendMessage)
                        m.sender = ':1.%d' % c
                        self.bus.messageReceived(p, m)
                    return self.receivers(m, dest)
                if self.mode == 'bytes':
                    m = self.call_msg('GetNameOwner', 's', [dest])
                    p.dataReceived(m.rawMessage)
                    return self.events(m.serial, 'o')
                try:
                    v = self.bus.dbus_GetNameOwner(dest)
                    ev = 'o%d:%s' % (c, v[3:] if v.startswith(':1.') else '?' + v)
                except self.busmod.DError as e:
                    en = e.errorName
                    ev = 'e%d:%s' % (c, en[len(ERRP):] if en.startswith(ERRP) else en)
                sigs = self.events(None, 'o')
                return sigs if isinstance(sigs, str) else sigs + [ev]
            args = [int(x) for x in tok[1:].split(',')]
            c = args[0]
            p = self.protos[c]
            if kind == 'd':
                from twisted.python.failure import Failure
                from twisted.internet.error import ConnectionDone
                p.connectionLost(Failure(ConnectionDone()))
                return self.events(None, kind)
            if kind == 'x':
                try:
                    self.other_traffic(p, c, args[1] if len(args) > 1 else 0)
                except Exception:
                    pass      # a failure of unrelated bus traffic is not C13's business; the tables are compared
                ev = self.events(None, kind)
                return [] if isinstance(ev, str) else ev
            name = NAMES[args[1]]
            if self.mode == 'bytes':
                key = (kind,) + tuple(args[1:])
                m = self.msgs.get(key)
                if m is None:       # the same call bytes (and serial) are reused; the sender is the transport
                    if kind == 'q':
                        m = self.call_msg('RequestName', 'su', [name, args[2]])
                    elif kind == 'r':
                        m = self.call_msg('ReleaseName', 's', [name])
                    elif kind == 'o':
                        m = self.call_msg('GetNameOwner', 's', [name])
                    else:
                        m = self.call_msg('ListQueuedOwners', 's', [name])
                    self.msgs[key] = m
                p.dataReceived(m.rawMessage)
                return self.events(m.serial, kind)
            # direct calls of the same methods
            me = ':1.%d' % c
            try:
                if kind == 'q':
                    ev = 'r%d:%s' % (c, self.bus.dbus_RequestName(name, args[2], dbusCaller=me))
                elif kind == 'r':
                    ev = 'r%d:%s' % (c, self.bus.dbus_ReleaseName(name, dbusCaller=me))
                elif kind == 'o':
                    v = self.bus.dbus_GetNameOwner(name)
                    ev = 'o%d:%s' % (c, v[3:] if v.startswith(':1.') else '?' + v)
                else:
                    ev = 'l%d:%s' % (c, '.'.join(v[3:] for v in self.bus.dbus_ListQueuedOwners(name)))
            except self.busmod.DError as e:
                en = e.errorName
                ev = 'e%d:%s' % (c, en[len(ERRP):] if en.startswith(ERRP) else en)
            sigs = self.events(None, kind)
            return sigs if isinstance(sigs, str) else sigs + [ev]
        except Exception as e:   # escapes dataReceived / the direct call
            return 'ERR:' + exc_kind(type(e).__name__)

    def other_traffic(self, p, c, k):
        """Bus traffic that is not a name operation (must leave the name tables alone)."""
        msg = self.message
        if self.mode != 'bytes':
            if k in (0, 1):
                self.bus.dbus_AddMatch(RULES[k], dbusCaller=':1.%d' % c)
            return
        if k in (0, 1):      # AddMatch: the connection now has a rule that clientDisconnected must remove
            m = self.call_msg('AddMatch', 's', [RULES[k]])
        elif k == 2:         # a method call to a well-known name (forwarded to its owner, if any)
            m = msg.MethodCallMessage('/com/example/Obj', 'Frob', interface='com.example.Iface',
                                      destination=NAMES[0], signature='s', body=['x'])
        elif k == 3:         # Peer.Ping answered by the bus itself
            m = msg.MethodCallMessage(PATH, 'Ping', interface='org.freedesktop.DBus.Peer', destination=BUS)
        elif k == 4:         # a signal of the client's own, routed through the match rules
            m = msg.SignalMessage('/com/example/Obj', 'Changed', 'com.example.Iface', signature='u', body=[7])
        else:                # every other method the bus exports (Hello again, GetId, RemoveMatch,
            #                  GetConnectionUnixUser, the unimplemented ones): whatever it answers, names stay
            skip = ('RequestName', 'ReleaseName', 'GetNameOwner', 'ListQueuedOwners')
            meths = sorted(n for n in self.bus.stdIface.methods if n not in skip)
            name = meths[(k - 5) % len(meths)]
            sig = self.bus.stdIface.methods[name].sigIn or None
            body = {None: None, 's': [RULES[0] if 'Match' in name else NAMES[0]], 'su': [NAMES[0], 0],
                    'a{ss}': [{}]}.get(sig, None)
            if sig is not None and body is None:
                return
            m = self.call_msg(name, sig, body)
        p.dataReceived(m.rawMessage)

    # -- observation of the live tables (for the correspondence with the model, S3, only)
    def queues(self):
        """name index -> list of k (live Bus.busNames)"""
        return {self.nidx(n): [self.kof(p) for p in q] for n, q in self.bus.busNames.items()}

    def connected(self):
        return sorted(self.kof(p) for p in self.bus.clients.values())

    def state_str(self):
        qs = self.queues()
        names = ';'.join('%s=%s' % (n, '.'.join(str(k) for k in qs[n])) for n in sorted(qs, key=str))
        cl = []
        for pr in sorted(self.bus.clients.values(), key=self.kof):      # the objects the bus itself has registered
            t = getattr(pr, 'busNames', None) or {}
            cl.append('%d=%s' % (self.kof(pr), ','.join('%s:%d' % (self.nidx(n), 1 if b else 0) for n, b in t.items())))
        return names + '#' + ';'.join(cl)

    def lookup(self, n):
        """(GetNameOwner answer, ListQueuedOwners answer) by direct calls; None = NameHasNoOwner."""
        res = []
        for f in (self.bus.dbus_GetNameOwner, self.bus.dbus_ListQueuedOwners):
            try:
                v = f(NAMES[n])
                res.append(int(v[3:]) if isinstance(v, str) else [int(x[3:]) for x in v])
            except self.busmod.DError as e:
                res.append(None if e.errorName == ERRP + 'NameHasNoOwner' else 'error:' + e.errorName)
        return res

    # -- snapshot / restore of everything the name operations touch (for the enumeration tree)
    def snapshot(self):
        return ({n: list(q) for n, q in self.bus.busNames.items()},
                dict(self.bus.clients),
                {k: (dict(p.busNames), p.isConnected) for k, p in self.protos.items()},
                self.bus.next_id)

    def restore(self, snap):
        # IN PLACE: the objects the library made stay where the library put them.  Assigning fresh dicts
        # (`p.busNames = dict(t)`) would give every connection an instance attribute of its own and so repair, for the
        # rest of the enumeration, a table that the library keeps at class level (state-leak round, audit M2).
        names, clients, per, nid = snap
        bn = self.bus.busNames
        bn.clear()
        bn.update({n: list(q) for n, q in names.items()})
        cl = self.bus.clients
        cl.clear()
        cl.update(clients)
        for k in list(self.protos):
            if k not in per:
                del self.protos[k]
        self.made = len(self.protos)
        for k, (t, ic) in per.items():
            d = self.protos[k].busNames
            d.clear()
            d.update(t)
            if self.protos[k].isConnected != ic:
                self.protos[k].isConnected = ic       # the library assigns this attribute per instance itself
        self.bus.next_id = nid
        self.raw = []


def exc_kind(name):
    return {'KeyError': 'key', 'IndexError': 'index', 'AttributeError': 'attr'}.get(name, 'other-' + name)


def field(events, state):
    if isinstance(events, str):
        return events
    return (','.join(events) if events else '-') + '#' + state


# ----------------------------------------------------------------------------- reference table
class Ref:
    """The name table as the property statement describes it.  name -> list of [conn, allow]."""

    ACQ, INQ, INUSE, ALREADY = 1, 2, 3, 4      # DBus specification, RequestName replies
    REL, NONEX, NOTOWNER = 1, 2, 3             # ReleaseName replies

    def __init__(self):
        self.conn = set()
        self.q = {}
        self.next = 1

    def copy(self):
        r = Ref()
        r.conn = set(self.conn)
        r.q = {n: [list(e) for e in q] for n, q in self.q.items()}
        r.next = self.next
        return r

    def queue(self, n):
        return [e[0] for e in self.q.get(n, [])]

    def owner_of(self, d):
        """Who owns destination token d at this moment: a unique name is owned by the connection it was given to
        while that is connected, a well-known name by the first of its queue, any other name by nobody."""
        if d == 'b':         # the bus itself: answered by the bus, not forwarded - whoever requested its name
            return None
        if d[0] == 'k':
            return int(d[1:]) if int(d[1:]) in self.conn else None
        if d[0] == 'n':
            q = self.q.get(int(d[1:]), [])
            return q[0][0] if q else None
        return None

    def step(self, tok):
        """-> dict(code=, told=[(kind, to, n)], alt=None|queue-with-old-owner-kept, answer=)"""
        kind = tok[0]
        out = {'code': None, 'told': [], 'alt': None, 'answer': None, 'case': kind}
        if kind == 'c':
            self.conn.add(self.next)
            self.next += 1
            return out
        if kind == 'a':          # a new connection; its first message is an addressed one
            self.conn.add(self.next)
            self.next += 1
            out['answer'] = self.owner_of(tok_dest(tok))
            return out
        if kind in 'ug':         # an addressed message / a question: no effect on names; who is the owner now?
            out['answer'] = self.owner_of(tok_dest(tok))
            return out
        if kind == 'm':          # AddMatch: no effect on names
            return out
        a = [int(x) for x in tok[1:].split(',')]
        c = a[0]
        if kind == 'x':          # other traffic: the statement gives it no effect on names
            return out
        if kind == 'd':
            self.conn.discard(c)
            for n in sorted(self.q):
                q = self.q[n]
                if q and q[0][0] == c and len(q) > 1:
                    out['told'].append(('A', q[1][0], n))
                self.q[n] = [e for e in q if e[0] != c]
            self.q = {n: q for n, q in self.q.items() if q}
            return out
        n = a[1]
        q = self.q.get(n, [])
        if kind == 'q':
            allow, replace, dnq = bool(a[2] & 1), bool(a[2] & 2), bool(a[2] & 4)
            if not q:
                self.q[n] = [[c, allow]]
                out.update(code=self.ACQ, told=[('A', c, n)], case='free')
            elif q[0][0] == c:
                q[0][1] = allow
                out.update(code=self.ALREADY, case='owner')
            elif replace and q[0][1]:
                old = q[0]
                rest = [e for e in q[1:] if e[0] != c]
                self.q[n] = [[c, allow]] + rest
                out.update(code=self.ACQ, told=[('L', old[0], n), ('A', c, n)], case='replace',
                           alt=[[c, allow], old] + rest)
            elif dnq:
                self.q[n] = [e for e in q if e[0] != c]
                out.update(code=self.INUSE, case='refuse')
            else:
                hit = [e for e in q if e[0] == c]
                if hit:
                    hit[0][1] = allow
                else:
                    q.append([c, allow])
                out.update(code=self.INQ, case='queue')
        elif kind == 'r':
            if not q:
                out.update(code=self.NONEX, case='nonexistent')
            elif c not in [e[0] for e in q]:
                out.update(code=self.NOTOWNER, case='stranger')
            elif q[0][0] == c:
                told = [('L', c, n)]
                if len(q) > 1:
                    told.append(('A', q[1][0], n))
                self.q[n] = q[1:]
                out.update(code=self.REL, told=told, case='owner-release')
            else:
                self.q[n] = [e for e in q if e[0] != c]
                out.update(code=self.REL, case='queued-release')
            if not self.q.get(n):
                self.q.pop(n, None)
        elif kind == 'o':
            out['answer'] = q[0][0] if q else None
        elif kind == 'l':
            out['answer'] = [e[0] for e in q] if q else None
        return out

    # the format of the driver's `s` command
    def spec_field(self, tok, names):
        kind = tok[0]
        a = tok_args(tok)
        if kind not in 'caolxugm' and a[0] not in self.conn:
            return 'REFUSED'
        r = self.step(tok)
        ev = ['%s%d:%d' % t for t in r['told']]
        if kind in 'ua':
            ev.append('D-' if r['answer'] is None else 'D%d' % r['answer'])
        if kind == 'g':
            ev.append('e%d:NameHasNoOwner' % a[0] if r['answer'] is None else 'o%d:%d' % (a[0], r['answer']))
        if r['code'] is not None:
            ev.append('r%d:%d' % (a[0], r['code']))
        if kind == 'o':
            ev.append('e%d:NameHasNoOwner' % a[0] if r['answer'] is None else 'o%d:%d' % (a[0], r['answer']))
        if kind == 'l':
            ev.append('e%d:NameHasNoOwner' % a[0] if r['answer'] is None
                      else 'l%d:%s' % (a[0], '.'.join(str(x) for x in r['answer'])))
        st = ';'.join('%d=%s' % (n, '.'.join('%d%s' % (e[0], 'a' if e[1] else '') for e in self.q[n]))
                      for n in names if self.q.get(n))
        return (','.join(ev) if ev else '-') + '#' + st


# ----------------------------------------------------------------------------- the oracle
UNJUDGED = 'unjudged'


def observe(world, names):
    """What a client can see of the table: per name (GetNameOwner, ListQueuedOwners) through the bus's public
    methods.  An unowned name may be reported by the NameHasNoOwner error or by an empty list."""
    obs = {}
    for n in names:
        own, lst = world.lookup(n)
        obs[n] = (own, [] if lst is None else lst)
    return obs


def judge(world, ref, tok, events, names=(0, 1)):
    """Implementation-only judgement of one step, from observables only: the reply, the NameAcquired
    deliveries of the step, and GetNameOwner / ListQueuedOwners of every name afterwards - against the reference
    table `ref` (advanced here) and the set of connections the harness itself has open (`ref.conn`).
    The live dicts `bus.busNames` / `proto.busNames` are NOT read here (they are compared with the model, S3).
    Returns None, UNJUDGED (stop judging this history) or (key, what, observed, expected)."""
    kind = tok[0]
    a = tok_args(tok)
    if isinstance(events, str):
        ref.step(tok)
        return ('name-op-raises', 'the bus raises %s while handling %s' % (events, tok), events, 'a reply')
    # flag words with bits outside the three defined ones are outside the statement ("all 8 flag combinations"):
    # follow whatever the bus did (treated the low bits / refused the call), never judge the step
    if kind == 'q' and a[2] > 7:
        trial = ref.copy()
        exp = trial.step(tok)
        try:
            obs = observe(world, names)
        except Exception:
            return UNJUDGED
        if all(obs[n][1] == trial.queue(n) for n in names):
            ref.__dict__.update(trial.__dict__)
            return None
        if exp['alt'] is not None and obs[a[1]][1] == [e[0] for e in exp['alt']]:
            trial.q[a[1]] = [list(e) for e in exp['alt']]
            ref.__dict__.update(trial.__dict__)
            return None
        if all(obs[n][1] == ref.queue(n) for n in names):
            return None
        return UNJUDGED
    before = {n: ref.queue(n) for n in names}
    exp = ref.step(tok)
    # 1. reply code
    got = None
    for e in events:
        if e[0] == 'r' and kind in 'qr' and e.startswith('r%d:' % a[0]):
            got = e.split(':')[1]
    if kind in 'qr':
        if got is None:
            return ('no-reply', 'no reply to %s' % tok, events, 'reply code %s' % exp['code'])
        if got != str(exp['code']):
            if kind == 'q' and exp['case'] == 'queue' and got == '3' and not (a[2] & 2):
                return ('request-no-replace-flag-not-queued',
                        'RequestName without REPLACE_EXISTING and without DO_NOT_QUEUE on an owned name answers '
                        'IN_USE (3) instead of queueing the caller', got, 'IN_QUEUE (2), caller appended to the queue')
            if kind == 'r' and exp['case'] == 'queued-release' and got == '3':
                return ('queued-release-not-owner',
                        'ReleaseName by a queued (non-owner) connection answers NOT_OWNER (3) and leaves it queued',
                        got, 'RELEASED (1), caller removed from the queue')
            return ('reply-code-' + exp['case'], 'reply code of %s does not state the resulting relation' % tok,
                    got, str(exp['code']))
    # 2. what the lookups say afterwards
    try:
        obs = observe(world, names)
    except Exception as e:
        return ('lookup-raises', 'GetNameOwner / ListQueuedOwners raises %s' % type(e).__name__, repr(e), 'an answer')
    for n in names:
        own, lq = obs[n]
        rq = ref.queue(n)
        if isinstance(own, str) or isinstance(lq, str):
            return ('lookup-error', 'GetNameOwner / ListQueuedOwners answers an unexpected error', [own, lq], rq)
        if len(set(lq)) != len(lq):
            return ('queued-twice', 'ListQueuedOwners lists a connection twice', {'queue': lq},
                    'every connection at most once in a queue')
        dead = [k for k in lq if k not in ref.conn]
        if own is not None and own not in ref.conn:
            return ('dead-queued-client-becomes-owner', 'GetNameOwner names a connection that has disconnected',
                    {'owner': own, 'queue': lq, 'connected': sorted(ref.conn)}, 'the owner is a connected client')
        if dead:
            return ('disconnected-client-still-queued', 'ListQueuedOwners lists a connection that has disconnected',
                    {'queue': lq, 'connected': sorted(ref.conn)}, 'a client that disconnected neither owns nor waits')
        if own != (lq[0] if lq else None):
            return ('lookups-disagree', 'GetNameOwner and ListQueuedOwners of one name disagree',
                    {'owner': own, 'queue': lq}, 'owner = first of the listing')
        if lq == rq:
            continue
        if exp['alt'] is not None and kind == 'q' and n == a[1] and lq == [e[0] for e in exp['alt']]:
            ref.q[n] = [list(e) for e in exp['alt']]       # the replaced owner was kept second: allowed
            continue
        if kind == 'q' and n == a[1]:
            c = a[0]
            if exp['case'] == 'refuse' and c in lq:
                return ('refused-but-still-queued', 'RequestName with DO_NOT_QUEUE by a queued connection answers '
                        'IN_USE but leaves the caller waiting in the queue', {'queue': lq}, {'queue': rq})
            if exp['case'] == 'queue' and c not in lq:
                return ('request-no-replace-flag-not-queued', 'the caller was answered IN_QUEUE but is not listed',
                        {'queue': lq}, {'queue': rq})
            if (lq[:1] != before[n][:1]) and exp['case'] not in ('replace', 'free'):
                return ('owner-replaced-without-permission', 'the owner changed although the owner had not allowed '
                        'replacement or the requester had not asked for it', {'queue': lq}, {'queue': rq})
            if exp['case'] == 'replace' and lq[:1] != [c]:
                return ('replace-not-honoured', 'owner allowed replacement and requester asked, but the owner stayed',
                        {'queue': lq}, {'queue': rq})
        if kind in 'rd' and a[0] in lq:
            return ('released-client-still-queued', 'a client that released the name / disconnected still owns or waits',
                    {'queue': lq}, {'queue': rq})
        if kind in 'rd' and lq[:1] != rq[:1]:
            return ('wrong-successor', 'after the owner left, the owner is not the longest-waiting queued client',
                    {'queue': lq}, {'queue': rq})
        if kind in 'xugam':
            return ('other-traffic-changes-names', 'a bus call that is not a name operation changed who owns / waits',
                    {'queue': lq}, {'queue': rq})
        return ('queue-mismatch', 'owner / listing of name %d differ from the reference table after %s' % (n, tok),
                {'queue': lq}, {'queue': rq})
    # 3. the new owner is told (extra NameAcquired deliveries are not judged: the statement does not forbid them)
    want = sorted((t[1], t[2]) for t in exp['told'] if t[0] == 'A')
    have = sorted((int(e[1:].split(':')[0]), int(e.split(':')[1])) for e in events
                  if e[0] == 'A' and e.split(':')[1].isdigit())
    missing = [w for w in want if w not in have]
    if missing:
        return ('new-owner-not-told', 'the new owner is not sent NameAcquired', have, want)
    # 5. an addressed message is received by the connection owning the destination at that moment, by it only,
    #    once; when nobody owns the destination nobody receives it
    if kind in 'ua':
        dest = dest_str(tok_dest(tok))
        got = []
        for e in events:
            if e[0] == 'D':
                got = [int(x) for x in e[1:].split('.') if x.isdigit()]
        owner = exp['answer']
        want = [] if owner is None else [owner]
        # a sender that has not said Hello: a bus may refuse to forward for it (dbus-daemon disconnects such a client);
        # txdbus forwards.  Not delivering is therefore never flagged for `a` tokens - only WHO else gets it is.
        if kind == 'a' and got == []:
            want = []
        if got != want:
            obs = {'destination': dest, 'received-by': got, 'connected': sorted(ref.conn)}
            wexp = {'received-by': want}
            dead = [k for k in got if k not in ref.conn]
            if dead:
                return ('unicast-to-disconnected-client', 'a message addressed to %s is written to the transport of '
                        'a connection that has disconnected' % dest, obs, wexp)
            if owner is None:
                return ('unicast-delivered-without-owner', 'a message addressed to %s, which nobody owns at that '
                        'moment, is delivered' % dest, obs, wexp)
            if owner not in got:
                return ('unicast-not-delivered-to-owner', 'a message addressed to %s does not reach the connection '
                        'owning the name at that moment' % dest, obs, wexp)
            if [k for k in got if k != owner]:
                return ('unicast-reaches-non-owner', 'a message addressed to %s also reaches a connection that does '
                        'not own the name' % dest, obs, wexp)
            return ('unicast-delivered-twice', 'a message addressed to %s reaches its owner more than once' % dest,
                    obs, wexp)
    if kind == 'g':
        ans = None
        for e in events:
            if e[0] == 'e' and e.endswith(':NameHasNoOwner'):
                ans = ('none',)
            elif e[0] == 'o':
                v = e.split(':')[1]
                ans = int(v) if v.isdigit() else v
        want_ans = ('none',) if exp['answer'] is None else exp['answer']
        if ans != want_ans:
            return ('owner-lookup-disagrees', '%s (GetNameOwner of %s) answers %r' % (tok, dest_str(tok_dest(tok)), ans),
                    ans, want_ans)
    # 4. the answer of an explicit lookup / listing sent through the bus
    if kind in 'ol':
        ans = None
        for e in events:
            if e[0] == 'e' and e.endswith(':NameHasNoOwner'):
                ans = ('none',)
            elif e[0] == 'o':
                ans = int(e.split(':')[1])
            elif e[0] == 'l':
                ans = [int(x) for x in e.split(':')[1].split('.') if x] or ('none',)
        want_ans = ('none',) if exp['answer'] is None else exp['answer']
        if ans != want_ans:
            return ('owner-lookup-disagrees' if kind == 'o' else 'queue-listing-disagrees',
                    '%s answers %r' % (tok, ans), ans, want_ans)
    return None


def names_of(hist):
    ns = {int(t[1:].split(',')[1]) for t in hist if t[0] in 'qrol'}
    ns |= {int(tok_dest(t)[1:]) for t in hist if t[0] in 'uga' and tok_dest(t)[0] == 'n'}
    ns = sorted(ns)
    return tuple(ns) if ns else (0,)


# ----------------------------------------------------------------------------- running histories
class Runner:
    """One history on one fresh bus, step by step (so that two of them can be interleaved in one process).

    fields   per step what is compared with the model (S3); after a step on which the bus raised: '!'
    heads    per step the first of every queue of `Bus.busNames` (S3: the driver's `e` command)
    verdict  the first finding of the oracle: (step index, key, what, observed, expected)
    extras   findings made AFTER an exception (state-leak round, audit M5): the connection on which the bus raised is
             dropped - Twisted loses a connection whose dataReceived raised - and the history goes on for the others.
             The reference table cannot follow a half-finished operation, so from then on only what the statement
             says of EVERY state is judged: owner and waiters are connected clients, nobody waits twice, owner = first
             of the listing, no addressed message is written to a disconnected client.
    """

    def __init__(self, mode, hist):
        self.mode, self.hist = mode, hist
        self.w = World(mode)
        self.ref = Ref()
        self.names = names_of(hist)
        self.fields, self.heads, self.extras = [], [], []
        self.verdict = None
        self.judging = True
        self.broken = False          # the bus raised on an earlier step
        self.gone = set()
        self.i = 0

    def done(self):
        return self.i >= len(self.hist)

    def _heads(self):
        try:
            return {n: (q[0] if q else None) for n, q in self.w.queues().items()}
        except Exception:
            return None

    def _invariants(self, i, tok, ev):
        """Judgement without the reference table (after an exception)."""
        live = self.ref.conn
        try:
            for n in self.names:
                own, lq = self.w.lookup(n)
                lq = [] if lq is None else lq
                if isinstance(own, str) or isinstance(lq, str):
                    continue
                if own is not None and own not in live:
                    return ('dead-queued-client-becomes-owner', 'GetNameOwner names a connection that has disconnected',
                            {'owner': own, 'queue': lq, 'connected': sorted(live)}, 'the owner is a connected client')
                if [k for k in lq if k not in live]:
                    return ('disconnected-client-still-queued', 'ListQueuedOwners lists a connection that has '
                            'disconnected', {'queue': lq, 'connected': sorted(live)},
                            'a client that disconnected neither owns nor waits')
                if len(set(lq)) != len(lq):
                    return ('queued-twice', 'ListQueuedOwners lists a connection twice', {'queue': lq},
                            'every connection at most once in a queue')
                if own != (lq[0] if lq else None):
                    return ('lookups-disagree', 'GetNameOwner and ListQueuedOwners of one name disagree',
                            {'owner': own, 'queue': lq}, 'owner = first of the listing')
        except Exception as e:
            return ('lookup-raises', 'GetNameOwner / ListQueuedOwners raises %s' % type(e).__name__, repr(e), 'an answer')
        if tok[0] in 'ua' and not isinstance(ev, str):
            got = [int(x) for e in ev if e[0] == 'D' for x in e[1:].split('.') if x.isdigit()]
            dead = [k for k in got if k not in live]
            if dead:
                return ('unicast-to-disconnected-client', 'a message addressed to %s is written to the transport of a '
                        'connection that has disconnected' % dest_str(tok_dest(tok)),
                        {'received-by': got, 'connected': sorted(live)}, {'received-by': 'connected clients only'})
        return None

    def _drop(self, tok):
        """The bus raised while handling `tok`: the connection concerned is gone (for a data event the reactor
        loses it; a connectionLost that raised is not repeated)."""
        a = tok_args(tok)
        c = a[0] if a else self.w.made
        if tok[0] != 'd' and c in self.w.protos:
            try:
                from twisted.python.failure import Failure
                from twisted.internet.error import ConnectionDone
                self.w.protos[c].connectionLost(Failure(ConnectionDone()))
            except Exception:
                pass
        self.gone.add(c)
        self.ref.conn.discard(c)
        if tok[0] in 'ca':
            self.ref.next = max(self.ref.next, self.w.made + 1)

    def step(self):
        i, tok = self.i, self.hist[self.i]
        self.i += 1
        w, ref = self.w, self.ref
        if self.broken:
            self.fields.append('!')
            self.heads.append(None)
            a = tok_args(tok)
            if a and a[0] in self.gone:
                return
            if tok[0] in 'ca':
                ref.conn.add(w.made + 1)
            ev = w.step(tok)
            if tok[0] == 'd':
                ref.conn.discard(a[0])
            if isinstance(ev, str):
                self._drop(tok)
            v = self._invariants(i, tok, ev)
            first = self.verdict[1] if self.verdict else None
            if v is not None and v[0] != first and v[0] not in [x[1] for x in self.extras]:
                self.extras.append((i,) + v)
            return
        ev = w.step(tok)
        self.fields.append(field(ev, w.state_str()))
        self.heads.append(None if isinstance(ev, str) else self._heads())
        if self.verdict is None and self.judging:
            v = judge(w, ref, tok, ev, self.names)
            if v == UNJUDGED:
                self.judging = False
            elif v is not None:
                self.verdict = (i,) + v
        elif self.verdict is not None and self.verdict[1] == 'disconnected-client-still-queued' \
                and not isinstance(ev, str):
            # the same defect, one step further: the dead connection reaches the head of the queue
            try:
                for n in self.names:
                    own, lq = w.lookup(n)
                    if isinstance(own, int) and own not in ref.conn:
                        self.verdict = (i, 'dead-queued-client-becomes-owner',
                                        'GetNameOwner names a connection that has disconnected',
                                        {'owner': own, 'queue': lq, 'connected': sorted(ref.conn), 'events': ev},
                                        'the owner is a connected client')
            except Exception:
                pass
        if isinstance(ev, str):
            self.broken = True
            self._drop(tok)


def run_fresh(mode, hist, full=False):
    """Fresh bus, whole history.  -> (fields, verdict) ; verdict = None | (step index, key, what, obs, exp);
    full=True: the Runner itself (heads, extras)."""
    r = Runner(mode, hist)
    while not r.done():
        r.step()
    return r if full else (r.fields, r.verdict)


def run_pair(mode, ha, hb, schedule):
    """Two buses in ONE process, their histories interleaved step by step (schedule: string of '0' / '1'; when one
    history is exhausted the other runs on).  Anything the library keeps at class or module level (a name table, the
    client table, the counter of unique names) shows as cross-talk: each bus is compared with its own run of the model
    and judged by its own reference table."""
    ra, rb = Runner(mode, ha), Runner(mode, hb)
    for ch in schedule:
        r = ra if ch == '0' else rb
        if not r.done():
            r.step()
    for r in (ra, rb):
        while not r.done():
            r.step()
    return ra, rb


def well_formed(hist):
    """Every operation is issued by a connection that is connected at that moment."""
    conn, nxt = set(), 1
    for tok in hist:
        if tok[0] in 'ca':
            conn.add(nxt)
            nxt += 1
            continue
        c = int(tok[1:].split(',')[0])
        if c not in conn:
            return False
        if tok[0] == 'd':
            conn.discard(c)
    return True


def minimise(mode, hist, key):
    """Greedy shrinking of a failing history (keeps the violation key)."""
    def fails(h):
        if not well_formed(h):
            return False
        _, v = run_fresh(mode, h)
        return v is not None and v[1] == key
    _, v = run_fresh(mode, hist)
    if v is None or v[1] != key:
        return hist
    hist = hist[:v[0] + 1]
    changed = True
    while changed:
        changed = False
        for i in range(len(hist) - 1, -1, -1):
            if hist[i][0] in 'ca':
                continue        # renumbering connections is not attempted
            h2 = hist[:i] + hist[i + 1:]
            if fails(h2):
                hist = h2
                changed = True
    return hist


def report_extras(ctx, mode, hist, extras):
    """Findings made after an exception: the whole history up to the step is the input (they depend on what the
    half-finished operation left behind; no shrinking)."""
    for i, key, what, obs, exp in extras:
        ctx.violation(key, what + ' (after the bus raised earlier in this history)',
                      inp={'path': mode, 'names': NAMES, 'history': list(hist[:i + 1])}, observed=obs, expected=exp)


def report(ctx, mode, hist, verdict):
    i, key, what, obs, exp = verdict
    h = minimise(mode, list(hist), key)
    _, v2 = run_fresh(mode, h)
    if v2 is not None and v2[1] == key:
        _, _, what, obs, exp = v2
    else:
        h = list(hist)
    ctx.violation(key, what, inp={'path': mode, 'names': NAMES, 'history': h},
                  observed=obs, expected=exp)


def alphabet(full):
    kinds = ['q%d,%d,' + str(f) for f in range(8)] + ['r%d,%d'] + (['o%d,%d', 'l%d,%d'] if full else [])
    return kinds


def enumerate_tree(ctx, stream, mode, depth, full, nclients=4):
    """Every history up to `depth` (up to symmetry) after `nclients` connects, sharing prefixes by
    snapshot / restore of the real objects.  Yields nothing; reports through ctx.  Returns the list of
    (history tokens, field) of every node, for the comparison with the model."""
    w = World(mode)
    ref0 = Ref()
    prefix = ['c'] * nclients
    for tok in prefix:
        w.step(tok)
        ref0.step(tok)
    kinds = alphabet(full)
    nodes = []
    reported = set()

    def rec(d, hist, ref, usedc, usedn, alive):
        if d == depth:
            return
        snap = w.snapshot()
        for ci in range(min(usedc + 1, nclients)):
            c = ci + 1
            if c not in alive:
                continue
            uc = max(usedc, ci + 1)
            toks = [('d%d' % c, usedn)]
            for n in range(min(usedn + 1, 2)):        # the enumerations use names 0 and 1
                for k in kinds:
                    toks.append((k % (c, n), max(usedn, n + 1)))
            for tok, un in toks:
                ev = w.step(tok)
                fld = field(ev, w.state_str())
                h2 = hist + [tok]
                nodes.append((h2, fld))
                r2 = ref.copy()
                owned = any(ref.q.values())
                v = judge(w, r2, tok, ev)
                ctx.case(stream, sample=h2, nontrivial=owned)
                ctx.stat('op:' + tok[0])
                if not isinstance(ev, str):
                    for e in ev:
                        if e[0] == 'r':
                            ctx.stat('%s-reply:%s' % ('request' if tok[0] == 'q' else 'release', e.split(':')[1]))
                if v is not None:
                    if v[0] not in reported:
                        reported.add(v[0])
                        report(ctx, mode, prefix + h2, (len(prefix) + len(h2) - 1,) + v)
                    else:
                        ctx.violation(v[0], v[1], inp={'path': mode, 'names': NAMES, 'history': prefix + h2},
                                      observed=v[2], expected=v[3])
                elif not isinstance(ev, str):
                    rec(d + 1, h2, r2, uc, un, alive - {c} if tok[0] == 'd' else alive)
                w.restore(snap)
    rec(0, [], ref0, 0, 0, set(range(1, nclients + 1)))
    return prefix, nodes


def compare_nodes(ctx, stream, prefix, nodes):
    out = ctx.model(['t ' + ' '.join(prefix + h) for h, _ in nodes])
    if out is None:
        return
    for (h, fld), m in zip(nodes, out):
        if m != fld:
            ctx.disagree(stream, {'history': prefix + h}, m, fld)


def selfcheck_restore(ctx, mode, prefix, nodes):
    """The snapshot/restore shortcut must give what a fresh bus gives (sampled)."""
    if not nodes:
        return
    idx = sorted(set(ctx.rng.randrange(len(nodes)) for _ in range(60)))
    for i in idx:
        h, fld = nodes[i]
        fields, _ = run_fresh(mode, prefix + h)
        if fields[-1] != fld:
            # on the unchanged tree this never happens; with state kept outside the restored objects it is the
            # library that differs between "this bus, earlier" and "a fresh bus": a disagreement, not a crash
            ctx.disagree('names-exhaustive-' + ('bytes' if mode == 'bytes' else 'direct'),
                         {'history': prefix + h, 'path': mode}, fld, fields[-1],
                         detail='the same history on a fresh bus differs from the bus that ran other histories before')


def random_history(rng, length):
    """One random history.  Three shapes: small (<= 4 live connections, reconnects), full house (four
    connections queued on one name first), crowd (12 connections, so that ':1.1' / ':1.10' / ':1.11' coexist and
    queues get deeper than four).  Names: two or three of NAMES (which contain a case variant and a prefix of
    name 0).  About 8 % of the steps are other bus traffic (AddMatch - so that clientDisconnected has rules to
    remove -, a call to a well-known name, GetId, a signal)."""
    hist, conn, nxt, total = [], [], 1, 0
    flagpool = list(range(4)) * 9 + list(range(4, 8)) * 4 + [8, 16, 0xFFFFFFF8, 0xFFFFFFFF, 0x80000002, 9, 10, 12, 31]
    names = rng.choice([[0, 1], [0, 1], [0, 2], [0, 3], [2, 3], [0, 2, 3], [1, 3, 0]])
    shape = rng.random()
    limit, cap = 4, 9
    if shape < 0.35:
        n0 = rng.choice(names)
        hist = ['c'] * 4
        conn, nxt, total = [1, 2, 3, 4], 5, 4
        order = [1, 2, 3, 4]
        rng.shuffle(order)
        hist += ['q%d,%d,%d' % (c, n0, rng.randrange(4)) for c in order]
    elif shape < 0.65:
        k = 12
        hist = ['c'] * k
        conn, nxt, total = list(range(1, k + 1)), k + 1, k
        limit, cap = 12, 14
        if rng.random() < 0.6:
            n0 = rng.choice(names)
            order = list(conn)
            rng.shuffle(order)
            hist += ['q%d,%d,%d' % (c, n0, rng.randrange(4)) for c in order[:rng.randrange(5, 13)]]
    while len(hist) < length:
        r = rng.random()
        if not conn or (r < 0.07 and len(conn) < limit and total < cap):
            hist.append('c')
            conn.append(nxt)
            nxt += 1
            total += 1
            continue
        c = rng.choice(conn)
        n = rng.choice(names) if rng.random() < 0.8 else names[0]
        if r < 0.12:
            hist.append('d%d' % c)
            conn.remove(c)
        elif r < 0.20:
            hist.append('x%d,%d' % (c, rng.randrange(20)))
        elif r < 0.64:
            hist.append('q%d,%d,%d' % (c, n, rng.choice(flagpool)))
        elif r < 0.80:
            hist.append('r%d,%d' % (c, n))
        elif r < 0.90:
            hist.append('o%d,%d' % (c, n))
        else:
            hist.append('l%d,%d' % (c, n))
    return hist


def two_name_family():
    """Bounded-exhaustive: connection 1 owns both names, 2 and 3 wait (same / different successor on the two
    names, optional third in line, every allow bit of the owner, both acquisition orders), the connection has a
    match rule or not, then it disconnects or releases both names; then everything is looked up."""
    out = []
    for a in (2, 3):
        for b in (2, 3):
            for f in range(4):
                for third in (False, True):
                    for order in ((0, 1), (1, 0)):
                        for leave in ('d', 'r', 'xd'):
                            h = ['c', 'c', 'c']
                            h += ['q1,%d,%d' % (order[0], f & 1), 'q1,%d,%d' % (order[1], f >> 1)]
                            h += ['q%d,0,0' % a, 'q%d,1,0' % b]
                            if third:
                                h += ['q%d,0,0' % (5 - a), 'q%d,1,0' % (5 - b)]
                            if leave == 'd':
                                h += ['d1']
                            elif leave == 'xd':
                                h += ['x1,1', 'x1,0', 'd1']
                            else:
                                h += ['r1,0', 'r1,1']
                            h += ['l2,0', 'l2,1', 'o3,0', 'o3,1']
                            out.append(h)
    return out


def waiter_family():
    """Bounded-exhaustive "a waiter leaves" (state-leak round, audit G9; the shape of the seeded C13p / C14o): connection
    2 WAITS for name X (owner 1) and also holds name Y - owns it, or waits for it behind 3 -, requested before or after X;
    optionally 4 waits behind 2 on Y (and on X); 2 then disconnects (plainly / holding match rules) or releases both
    names; afterwards everybody looks: listings, owners, a DO_NOT_QUEUE request for Y by 3, messages to Y, to X and to
    :1.2, GetNameOwner of :1.2, a new connection that requests Y."""
    out = []
    for first in ((0, 1), (1, 0)):
        for yrole in ('owns', 'waits'):
            for behind in (0, 1, 2):
                for leave in ('d', 'xd', 'md', 'r'):
                    for f in (0, 1):
                        h = ['c', 'c', 'c', 'c', 'q1,0,0']
                        if yrole == 'waits':
                            h.append('q3,1,%d' % f)
                        req = {0: 'q2,0,%d' % f, 1: 'q2,1,%d' % (1 - f)}
                        h += [req[first[0]], req[first[1]]]
                        if behind >= 1:
                            h.append('q4,1,0')
                        if behind == 2:
                            h.append('q4,0,0')
                        h += {'d': ['d2'], 'xd': ['x2,1', 'x2,0', 'd2'], 'md': ['m2,0', 'm2,4', 'd2'],
                              'r': ['r2,0', 'r2,1']}[leave]
                        h += ['l1,0', 'l1,1', 'o3,1', 'o4,0', 'q3,1,4', 'u1,n1,1', 'u3,n0,4', 'u1,k2,1', 'g1,k2',
                              'c', 'q5,1,0', 'l5,1', 'u5,n1,2']
                        out.append(h)
    return out


def pair_histories(ctx):
    """Pairs of histories for two buses in one process: the SAME scripted history on both (every class-level table
    would have to serve two owners of one name), a history and its mirror (connections numbered alike, different
    names / flags), and random pairs with lookups."""
    rng = ctx.rng
    out = []
    scripted = [
        ['c', 'c', 'q1,0,0', 'q2,0,0', 'g2,n0', 'u2,n0,1', 'u1,k2,1', 'd1', 'g2,n0', 'u2,n0,4', 'l2,0'],
        ['c', 'c', 'c', 'q1,0,1', 'q2,1,0', 'q3,0,2', 'l1,0', 'u2,n0,1', 'r3,0', 'q2,0,0', 'd3', 'u1,k3,1', 'c', 'q4,1,0'],
        ['c', 'q1,0,0', 'c', 'q2,0,3', 'm1,0', 'u2,n0,1', 'd2', 'c', 'g1,k3', 'u1,k3,2', 'q3,0,4'],
    ]
    for h in scripted:
        out.append(('same', h, list(h)))
        out.append(('shifted', h, ['c'] + list(h)[:-2]))
    n = ctx.scale(quick=24, thorough=150)
    for _ in range(n):
        hs = []
        for _k in (0, 1):
            base = random_history(rng, rng.choice((8, 12, 20)))
            names = sorted({int(t[1:].split(',')[1]) for t in base if t[0] in 'qrol'}) or [0]
            hs.append(with_lookups(rng, base, names, density=0.4))
        out.append(('random', hs[0], hs[1]))
    res = []
    for shape, ha, hb in out:
        sched = ''.join(rng.choice('01') for _ in range(len(ha) + len(hb))) if shape != 'same' \
            else '01' * max(len(ha), len(hb))
        res.append((shape, ha, hb, sched))
    return res


def run_pair_stream(ctx):
    stream = 'names-two-buses'
    pairs = pair_histories(ctx)
    lines = []
    for _, ha, hb, _s in pairs:
        lines += ['h ' + ' '.join(ha), 'h ' + ' '.join(hb)]
    out = ctx.model(lines)
    for i, (shape, ha, hb, sched) in enumerate(pairs):
        ra, rb = run_pair('bytes', ha, hb, sched)
        ctx.impl_trace(2)
        ctx.case(stream, sample=[ha, hb, sched], nontrivial=any(t[0] == 'q' for t in ha + hb))
        ctx.stat('pair-shape:' + shape)
        for j, (r, h) in enumerate(((ra, ha), (rb, hb))):
            inp = {'path': 'bytes', 'names': NAMES, 'pair': [ha, hb], 'schedule': sched, 'judged': j}
            # Findings of this stream carry the PAIR as input and a key of their own class (`two-buses-...`): state that
            # the library keeps outside the Bus object makes single histories fail only because of what ran before them
            # in the process, and a replay of such a single history in a fresh process shows nothing (audit M6); the pair
            # replays.  An ordinary defect is reported by the other streams under the plain key as well.
            if r.verdict is not None:
                _, key, what, obs, exp = r.verdict
                ctx.violation('two-buses-' + key, what + ' (one of two buses running in one process)',
                              inp=inp, observed=obs, expected=exp)
            for k2, key, what, obs, exp in r.extras:
                ctx.violation('two-buses-' + key, what + ' (after the bus raised; two buses in one process)', inp=inp,
                              observed=obs, expected=exp)
            m = out[2 * i + j] if out else None
            if m is not None and m != ' | '.join(r.fields):
                mf = m.split(' | ')
                k = next((x for x, (a, b) in enumerate(zip(mf, r.fields)) if a != b), min(len(mf), len(r.fields)))
                ctx.disagree(stream, inp, mf[k] if k < len(mf) else None, r.fields[k] if k < len(r.fields) else None,
                             detail='bus %d of the pair, first differing step %d' % (j, k))


def with_lookups(rng, hist, names, density=0.5, every=None):
    """Interleave a name history with addressed messages and GetNameOwner questions.  After a step (with
    probability `density`) one to three lookups by live connections; destinations: the well-known names of the
    history, every unique name handed out so far - connected or gone -, the next one (not handed out yet),
    the sender itself, and colon names of another form.  `every`: instead, after EVERY step one message to
    each of these destinations (bounded-exhaustive use)."""
    out, live, nxt = [], [], 1
    for tok in hist:
        out.append(tok)
        if tok[0] in 'ca':
            live.append(nxt)
            nxt += 1
        elif tok[0] == 'd':
            c = int(tok[1:])
            if c in live:
                live.remove(c)
        if not live:
            continue
        if every is not None:
            dests = ['n%d' % n for n in names if n != BUSNAME_IDX] + ['k%d' % j for j in range(1, nxt + 1)] \
                + ['f%d' % (len(out) % len(FOREIGN))] + (['b'] if BUSNAME_IDX in names else [])
            for i, d in enumerate(dests):
                c = live[(len(out) + i) % len(live)]
                out.append('u%d,%s,%d' % (c, d, 1 + (len(out) + i) % 4))
            if every:
                gd = dests[len(out) % len(dests)]
                out.append('g%d,%s' % (live[0], 'n%d' % BUSNAME_IDX if gd == 'b' else gd))
            continue
        if rng.random() >= density:
            continue
        for _ in range(rng.choice((1, 1, 2, 3))):
            c = rng.choice(live)
            r = rng.random()
            if r < 0.45:
                d = 'n%d' % rng.choice(names)
            elif r < 0.50:
                d = 'b'
            elif r < 0.80:
                d = 'k%d' % rng.randrange(1, nxt + 1)
            elif r < 0.90:
                d = 'k%d' % c
            else:
                d = 'f%d' % rng.randrange(len(FOREIGN))
            if d == 'n%d' % BUSNAME_IDX:
                # the bus's own name: GetNameOwner asks the table; a MESSAGE for it is the token `b`
                out.append('g%d,%s' % (c, d) if rng.random() < 0.5 else 'u%d,b,%d' % (c, rng.randrange(1, 5)))
                continue
            r2 = rng.random()
            if r2 < 0.22 and d != 'b':
                out.append('g%d,%s' % (c, d))
            elif r2 < 0.28:
                out.append('m%d,%d' % (c, rng.randrange(len(EAVES))))        # from now on c holds a matching rule
            elif r2 < 0.34 and nxt <= 13:
                out.append('a%s,%d' % (d, rng.randrange(1, 5)))              # a new connection's first message
                live.append(nxt)
                nxt += 1
            else:
                out.append('u%d,%s,%d' % (c, d, rng.randrange(1, 5)))
    return out


def lookup_histories(ctx):
    """The histories of stream `router-lookup-bytes`: (a) the two-name handover family with a message to every
    destination after every step (a third of it in the quick tier), (b) short scripted histories around the
    moments at which the owner changes (replacement, release, disconnect of the owner, of a waiter, reconnect
    under a new unique name), (c) random name histories with random lookups."""
    out = []
    fam = two_name_family()
    step = 1 if ctx.tier == 'thorough' or ctx.widen else 3
    off = ctx.rng.randrange(step)
    for h in fam[off::step]:
        out.append(('family', with_lookups(ctx.rng, h, [0, 1], every=True)))
    scripted = [
        ['c', 'c', 'q1,0,1', 'q2,0,0', 'q2,0,2', 'r2,0', 'q1,0,0', 'd1', 'c', 'q3,0,0', 'q2,0,4', 'd3', 'd2'],
        ['c', 'c', 'c', 'q1,0,0', 'q2,0,0', 'q3,0,0', 'd2', 'r1,0', 'd3', 'q1,0,0', 'd1'],
        ['c', 'c', 'q1,2,1', 'q2,0,3', 'q2,2,3', 'q1,3,0', 'q2,3,0', 'd1', 'd2', 'c', 'q3,0,0'],
    ]
    for h in scripted:
        out.append(('scripted', with_lookups(ctx.rng, h, sorted({int(t.split(',')[1]) for t in h if t[0] in 'qr'}),
                                             every=True)))
    # (review 3, F2) the bus's own name is requested, granted, handed over, released - and messages for it never arrive
    busname = [
        ['c', 'c', 'q1,4,0', 'q2,4,0', 'q2,0,0', 'r1,4', 'd2', 'q1,4,1'],
        ['c', 'c', 'c', 'q1,4,1', 'q2,4,2', 'q3,4,4', 'q1,0,0', 'd2', 'r1,0'],
    ]
    for h in busname:
        out.append(('bus-name', with_lookups(ctx.rng, h, sorted({int(t.split(',')[1]) for t in h if t[0] in 'qr'}),
                                             every=True)))
    # (review 3, 6) every connection holds rules that match the messages sent; senders whose first message is the unicast
    for h in scripted[:2] + busname[:1]:
        names = sorted({int(t.split(',')[1]) for t in h if t[0] in 'qr'})
        hh, conns = [], 0
        for tok in h:
            hh.append(tok)
            if tok == 'c':
                conns += 1
                hh += ['m%d,%d' % (conns, j) for j in range(len(EAVES))]
        out.append(('eavesdroppers', with_lookups(ctx.rng, hh, names, every=True)))
    for h in scripted + busname[:1]:
        names = sorted({int(t.split(',')[1]) for t in h if t[0] in 'qr'})
        hh, nxt = [], 1
        for tok in h:
            hh.append(tok)
            if tok == 'c':
                nxt += 1
            if tok[0] in 'qrd' and nxt <= 10:
                dests = ['n%d' % n for n in names if n != BUSNAME_IDX] + ['k%d' % j for j in range(1, nxt + 1)] + ['b', 'f1']
                d = dests[len(hh) % len(dests)]
                hh.append('a%s,%d' % (d, 1 + len(hh) % 4))
                nxt += 1
                if len(hh) % 3 == 0:
                    hh.append('d%d' % (nxt - 1))        # the loss the bus asked for arrives
        if well_formed(hh):
            out.append(('first-message', with_lookups(ctx.rng, hh, names, density=0.5)))
    n = ctx.scale(quick=120, thorough=900)
    for _ in range(n):
        base = random_history(ctx.rng, ctx.rng.choice((8, 15, 25, 40)))
        if ctx.rng.random() < 0.15:          # one of the names of this history is the bus's own
            used = sorted({int(t[1:].split(',')[1]) for t in base if t[0] in 'qrol'})
            if used:
                old = ctx.rng.choice(used)
                base = [(lambda p: ','.join([p[0], str(BUSNAME_IDX)] + p[2:]))(t.split(','))
                        if t[0] in 'qrol' and int(t[1:].split(',')[1]) == old else t for t in base]
        names = sorted({int(t[1:].split(',')[1]) for t in base if t[0] in 'qrol'}) or [0]
        out.append(('random', with_lookups(ctx.rng, base, names, density=ctx.rng.choice((0.3, 0.6, 0.9)))))
    return out


def run_lookup_stream(ctx):
    stream = 'router-lookup-bytes'
    hists = lookup_histories(ctx)
    out = ctx.model(['h ' + ' '.join(h) for _, h in hists])
    sout = ctx.model(['s ' + ' '.join(h) for _, h in hists])
    eout = ctx.model(['e ' + ' '.join(h) for _, h in hists])
    for i, (shape, h) in enumerate(hists):
        r = run_fresh('bytes', h, full=True)
        fields, verdict = check_history(ctx, stream, 'bytes', h, out[i] if out else None, runner=r)
        # the owner changes C13's model computes for C14's table (`Bus.ownerChanges`) against the changes of the
        # heads of Bus.busNames on the real bus, step by step
        if eout is not None:
            mine, prev = [], {}
            for hd in r.heads:
                if hd is None:
                    mine.append('!')
                    continue
                ch = ['%s=%s' % (n, hd[n]) for n in hd if prev.get(n) != hd[n]] + \
                     ['%s=-' % n for n in prev if n not in hd]
                mine.append(','.join(sorted(ch, key=lambda x: (len(x.split('=')[0]), x.split('=')[0]))) or '-')
                prev = hd
            if eout[i] != ' | '.join(mine):
                mf = eout[i].split(' | ')
                k = next((j for j, (x, y) in enumerate(zip(mf, mine)) if x != y), min(len(mf), len(mine)))
                ctx.disagree(stream, {'history': h, 'what': 'owner changes (driver command e)'},
                             mf[k] if k < len(mf) else None, mine[k] if k < len(mine) else None,
                             detail='first differing step %d (%s)' % (k, h[k] if k < len(h) else ''))
        ctx.case(stream, sample=h, nontrivial=any(t[0] == 'q' for t in h))
        ctx.stat('lookup-shape:' + shape)
        live, nxt = set(), 1
        rules = set()
        for tok, f in zip(h, fields):
            if tok[0] in 'ca':
                live.add(nxt)
                nxt += 1
            elif tok[0] == 'd':
                live.discard(int(tok[1:]))
                rules.discard(int(tok[1:]))
            elif tok[0] == 'm':
                rules.add(int(tok[1:].split(',')[0]))
            if tok[0] not in 'uga':
                continue
            d = tok_dest(tok)
            sender = nxt - 1 if tok[0] == 'a' else int(tok[1:].split(',')[0])
            if tok[0] in 'ua':
                ctx.stat('lookup-rule-holders:%d' % min(len(rules & live), 3))
            cls = {'n': 'well-known', 'f': 'foreign', 'b': 'bus-itself'}.get(d[0])
            if d == 'n%d' % BUSNAME_IDX:
                cls = 'bus-name-in-table'
            if cls is None:
                j = int(d[1:])
                cls = ('unique-self' if j == sender else 'unique-live' if j in live
                       else 'unique-gone' if j < nxt else 'unique-never')
            ev = f.split('#')[0]
            res = 'error' if ev.startswith('ERR') or ev == '!' else \
                  'nobody' if ev in ('D-',) or 'NameHasNoOwner' in ev else 'found'
            ctx.stat('lookup-%s:%s:%s' % ({'u': 'send', 'a': 'first-message', 'g': 'ask'}[tok[0]], cls, res))
            if tok[0] == 'u':
                ctx.stat('lookup-msgtype:' + (tok.split(',')[2] if tok.count(',') > 1 else '1'))
        # the oracle's reference (owner_of) against the Lean specification (Spec.State.ownerOf)
        ref = Ref()
        names = sorted({int(t[1:].split(',')[1]) for t in h if t[0] in 'qrol'} |
                       {int(tok_dest(t)[1:]) for t in h if t[0] in 'uga' and tok_dest(t)[0] == 'n'})
        mine = [ref.spec_field(tok, names) for tok in h]
        ctx.case('spec-vs-reference', sample=h)
        if sout is not None and sout[i] != ' | '.join(mine):
            mf = sout[i].split(' | ')
            k = next((j for j, (x, y) in enumerate(zip(mf, mine)) if x != y), 0)
            ctx.disagree('spec-vs-reference', {'history': h}, mf[k] if k < len(mf) else None,
                         mine[k] if k < len(mine) else None, detail='step %d' % k)


def check_history(ctx, stream, mode, hist, model_line, runner=None):
    r = runner if runner is not None else run_fresh(mode, hist, full=True)
    fields, verdict = r.fields, r.verdict
    ctx.impl_trace()
    if verdict is not None:
        report(ctx, mode, hist, verdict)
    report_extras(ctx, mode, hist, r.extras)
    if model_line is not None:
        want = ' | '.join(fields)
        if model_line != want:
            mf = model_line.split(' | ')
            k = next((i for i, (x, y) in enumerate(zip(mf, fields)) if x != y), min(len(mf), len(fields)))
            ctx.disagree(stream, {'history': hist, 'path': mode}, mf[k] if k < len(mf) else None,
                         fields[k] if k < len(fields) else None, detail='first differing step %d (%s)' % (k, hist[k] if k < len(hist) else ''))
    return fields, verdict


# ----------------------------------------------------------------------------- client side
def client_rows(only=None):
    from txdbus import client, error
    from twisted.internet import defer
    rows = []
    combos = [tuple(only[:4])] if only else list(itertools.product((False, True), repeat=4))
    for a, r, d, e in combos:
        for code in ([only[4]] if only else range(8)):
            conn = client.DBusClientConnection.__new__(client.DBusClientConnection)
            seen = {}

            def callRemote(path, member, **kw):
                seen['args'] = (path, member, kw)
                seen['d'] = defer.Deferred()
                return seen['d']
            conn.callRemote = callRemote
            dres = conn.requestBusName('com.example.alpha', allowReplacement=a, replaceExisting=r,
                                       doNotQueue=d, errbackUnlessAcquired=e)
            path, member, kw = seen['args']
            ok_call = (path == PATH and member == 'RequestName' and kw.get('interface') == BUS
                       and kw.get('destination') == BUS and kw.get('signature') == 'su'
                       and kw['body'][0] == 'com.example.alpha')
            flags = kw['body'][1]
            res = []
            dres.addCallbacks(lambda v: res.append('ok:%d' % v),
                              lambda f: res.append('raise:%d' % f.value.returnCode
                                                   if isinstance(f.value, error.FailedToAcquireName)
                                                   else 'other:' + type(f.value).__name__))
            seen['d'].callback(code)
            text = str(error.FailedToAcquireName('n', code))
            cls = 1 if text.endswith('Queued for name acquisition') else 2 if text.endswith('Name in use') else 0
            rows.append(((a, r, d, e, code), '%d %s %d' % (flags, res[0] if res else 'pending', cls), ok_call))
    return rows


def judge_client(ctx, inp, impl, ok_call):
    """Implementation-only oracle of the client side: the flag word sent, and what the caller is told.
    RequestName replies 1 (owner) and 4 (already owner) mean the caller owns the name afterwards, 2 (queued) and
    3 (refused) that it does not: with errbackUnlessAcquired the Deferred must succeed exactly for 1 and 4 and
    otherwise fail with FailedToAcquireName carrying the reply code; without it, it always succeeds with the code.
    Codes outside 1..4 are not defined by the statement and not judged."""
    a, r, d, e, code = inp
    flags, res, _cls = impl.split()
    cinp = {'client': [bool(a), bool(r), bool(d), bool(e), code]}
    if not ok_call or int(flags) != (1 if a else 0) | (2 if r else 0) | (4 if d else 0):
        ctx.violation('client-flag-bits', 'requestBusName does not send the DBus flag bits it was asked for',
                      inp=cinp, observed=impl, expected='ALLOW=1 REPLACE=2 DO_NOT_QUEUE=4')
    if code not in (1, 2, 3, 4):
        return
    owns = code in (1, 4)
    want = 'ok:%d' % code if (owns or not e) else 'raise:%d' % code
    if res == want:
        return
    if not e:
        key, what = ('client-errback-although-disabled',
                     'requestBusName(errbackUnlessAcquired=False) does not deliver the reply code')
    elif owns and code == 4:
        key, what = ('client-already-owner-reported-as-failure',
                     'reply ALREADY_OWNER (4): the caller owns the name, yet requestBusName fails with '
                     'FailedToAcquireName')
    elif owns:
        key, what = ('client-owner-reported-as-failure',
                     'reply PRIMARY_OWNER (1): the caller owns the name, yet requestBusName fails')
    elif res.startswith('ok:'):
        key, what = ('client-not-owner-reported-as-success',
                     'reply %d: the caller does not own the name, yet requestBusName(errbackUnlessAcquired=True) '
                     'succeeds' % code)
    else:
        key, what = ('client-failure-without-code',
                     'requestBusName fails, but not with FailedToAcquireName carrying the reply code')
    ctx.violation(key, what, inp=cinp, observed=res, expected=want)


# ----------------------------------------------------------------------------- entry points
def run(ctx):
    # corpus first: past failures, on both paths
    for name, case in ctx.corpus():
        hist = case['input']['history']
        for mode in ('bytes', 'direct'):
            out = ctx.model(['h ' + ' '.join(hist)])
            check_history(ctx, 'names-random-bytes' if mode == 'bytes' else 'names-exhaustive-direct',
                          mode, hist, out[0] if out else None)
            ctx.case('names-random-bytes' if mode == 'bytes' else 'names-exhaustive-direct', sample=hist)
        ctx.stat('corpus')

    thorough = ctx.tier == 'thorough'

    # exhaustive, byte path: every history to length 3 over the full alphabet
    prefix, nodes = enumerate_tree(ctx, 'names-exhaustive-bytes', 'bytes', 3, full=True)
    compare_nodes(ctx, 'names-exhaustive-bytes', prefix, nodes)
    selfcheck_restore(ctx, 'bytes', prefix, nodes)
    ctx.impl_trace(len(nodes))

    # exhaustive, direct calls: length 2 (quick, full alphabet) / length 4 (thorough, state-changing operations;
    # the lookups are made by the oracle after every step anyway)
    if thorough:
        prefix, nodes = enumerate_tree(ctx, 'names-exhaustive-direct', 'direct', 4, full=False)
    else:
        prefix, nodes = enumerate_tree(ctx, 'names-exhaustive-direct', 'direct', 2, full=True)
    compare_nodes(ctx, 'names-exhaustive-direct', prefix, nodes)
    selfcheck_restore(ctx, 'direct', prefix, nodes)
    ctx.impl_trace(len(nodes))
    ctx.exhaustive = True

    # bounded-exhaustive two-name handover family (5..12 steps), byte path
    fam = two_name_family()
    fout = ctx.model(['h ' + ' '.join(h) for h in fam])
    for i, h in enumerate(fam):
        check_history(ctx, 'names-two-name-handover', 'bytes', h, fout[i] if fout else None)
        ctx.case('names-two-name-handover', sample=h)

    # random, byte path, to length 60
    nh = ctx.scale(quick=150, thorough=2500)
    hists = [random_history(ctx.rng, ctx.rng.choice((10, 25, 40, 60, 60))) for _ in range(nh)]
    out = ctx.model(['h ' + ' '.join(h) for h in hists])
    for i, h in enumerate(hists):
        fields, verdict = check_history(ctx, 'names-random-bytes', 'bytes', h, out[i] if out else None)
        ctx.case('names-random-bytes', sample=h)
        ctx.stat('random-len:%d' % len(h))
        qmax = 0
        for f in fields:
            if '#' in f:
                for part in f.split('#')[1].split(';'):
                    if '=' in part:
                        qmax = max(qmax, len(part.split('=')[1].split('.')))
            ev = f.split('#')[0]
            for e in ev.split(','):
                if e[:1] == 'r':
                    ctx.stat('random-reply:' + e.split(':')[1])
                elif e[:1] in 'ALBoel':
                    ctx.stat('random-event:' + e[0])
        ctx.stat('random-max-queue:%d' % qmax)

    # the reference table of the oracle against the Lean specification
    shists = hists[:ctx.scale(quick=150, thorough=1500)]
    sout = ctx.model(['s ' + ' '.join(h) for h in shists])
    for i, h in enumerate(shists):
        ref = Ref()
        names = sorted({int(t[1:].split(',')[1]) for t in h if t[0] in 'qrol'})
        mine = []
        for tok in h:
            mine.append(ref.spec_field(tok, names))
        ctx.case('spec-vs-reference', sample=h)
        if sout is not None and sout[i] != ' | '.join(mine):
            mf = sout[i].split(' | ')
            k = next((j for j, (x, y) in enumerate(zip(mf, mine)) if x != y), 0)
            ctx.disagree('spec-vs-reference', {'history': h}, mf[k] if k < len(mf) else None,
                         mine[k] if k < len(mine) else None, detail='step %d' % k)

    # the router's reading of the table: addressed messages and GetNameOwner of any name between name operations
    run_lookup_stream(ctx)

    # a waiter leaves (state-leak round): bounded-exhaustive, byte path
    wf = waiter_family()
    if not (thorough or ctx.widen):
        wf = wf[ctx.rng.randrange(2)::2]
    wout = ctx.model(['h ' + ' '.join(h) for h in wf])
    for i, h in enumerate(wf):
        check_history(ctx, 'names-waiter-leaves', 'bytes', h, wout[i] if wout else None)
        ctx.case('names-waiter-leaves', sample=h)

    # two buses in one process, interleaved
    run_pair_stream(ctx)

    # client side
    rows = client_rows()
    cout = ctx.model(['f %d %d %d %d %d' % (a, r, d, e, code) for (a, r, d, e, code), _, _ in rows])
    for i, (inp, impl, ok_call) in enumerate(rows):
        ctx.case('client-flags', sample=list(inp))
        if cout is not None and cout[i] != impl:
            ctx.disagree('client-flags', list(inp), cout[i], impl)
        judge_client(ctx, inp, impl, ok_call)


def replay(ctx, data):
    inp = data['input']
    if 'client' in inp:
        a, r, d, e, code = inp['client']
        for row, impl, ok_call in client_rows(only=(bool(a), bool(r), bool(d), bool(e), int(code))):
            out = ctx.model(['f %d %d %d %d %d' % row])
            judge_client(ctx, row, impl, ok_call)
            if out is not None and out[0] != impl:
                ctx.disagree('client-flags', list(row), out[0], impl)
        return
    if 'pair' in inp:
        ha, hb = inp['pair']
        ra, rb = run_pair(inp.get('path', 'bytes'), ha, hb, inp.get('schedule', ''))
        out = ctx.model(['h ' + ' '.join(ha), 'h ' + ' '.join(hb)])
        for j, r in enumerate((ra, rb)):
            for v in ([r.verdict] if r.verdict else []) + r.extras:
                ctx.violation('two-buses-' + v[1], v[2], inp=inp, observed=v[3], expected=v[4])
            if out is not None and out[j] != ' | '.join(r.fields):
                ctx.disagree('replay', inp, out[j], ' | '.join(r.fields))
        return
    if 'history' not in inp:
        return run(ctx)
    hist = [t for t in inp['history'] if not t.startswith('(')]
    mode = inp.get('path', 'bytes')
    out = ctx.model(['h ' + ' '.join(hist)])
    r = run_fresh(mode, hist, full=True)
    fields, verdict = r.fields, r.verdict
    for v in r.extras:
        ctx.violation(v[1], v[2], inp=inp, observed=v[3], expected=v[4])
    if verdict is not None:
        i, key, what, obs, exp = verdict
        ctx.violation(key, what, inp=inp, observed=obs, expected=exp)
    if out is not None and out[0] != ' | '.join(fields):
        ctx.disagree('replay', inp, out[0], ' | '.join(fields))
