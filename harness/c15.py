"""C15 - Introspection XML round-trips every interface definition.  Correspondence + oracle harness.

Per generated document (an object path, the exported objects with their interface definitions built through
the public DBusInterface API, a pre-populated `DBusInterface.knownInterfaces`, the replacement flag):

  implementation:  generateIntrospectionXML -> text;  xml.sax with a recording ContentHandler -> events;
                   getInterfacesFromXML(text, replace) -> interfaces;  RemoteDBusObject(..., interfaces).callRemote
  model (drv_c15): the same definitions -> events -> handler state machine -> interfaces -> callCheck

S3 compares events (text/event boundary), the returned interfaces with object identity against the cache, the
cache afterwards, and the proxy's accept/reject decisions.  S4 (oracle, implementation only) evaluates the
property statement: declared vs recovered.  A second stream drives the real IntrospectionHandler directly with
mutated (not well nested, attributes missing) event sequences.

Histories in ONE process (the table `DBusInterface.knownInterfaces` is process-wide): a document may carry
`failed` - declarations `DBusInterface(name, *members)` that RAISE part-way (a non-member argument, a member
whose signature makes genCompleteTypes raise; at every position of the member list), attempted after the cache
was filled and before the round trip ('before') or between the two parses ('between').  A declaration that
raised declared nothing: the round trip and the table afterwards are judged exactly as without it.
"""
import xml.sax
import xml.sax.handler
from io import StringIO

STREAMS = ['gen-events', 'parse-result', 'proxy-calls', 'handler-events', 'malformed-defs', 'failed-declarations']
THEOREMS = ['handler_gen', 'handler_gen_fresh', 'proxy_accepts_same_calls', 'declared_method_count',
            'declared_method_accepts', 'std_name_collision_witness',
            'known_reused_unless_replaced', 'generated_attribute_values_need_no_escaping', 'xml_cache_coherent',
            'members_sorted', 'failed_construction_leaves_registry', 'registry_holds_only_declared_or_parsed',
            'roundtrip_after_failed_declarations', 'register_first_model_violates']
TRUSTED_BASE = [
    'expat / xml.sax: text <-> SAX events (the model starts at the event level; validated per case by parsing the '
    'generated text with a recording ContentHandler and comparing with the model\'s event list)',
    'Python str ordering (sorted) = lexicographic by code point; dict insertion order; str.lower on ASCII (mirrored)',
    'the DOCTYPE stripping of getInterfacesFromXML (first ">" of the text) - exercised, not modelled',
    'marshal.genCompleteTypes as modelled by TxdbusModel.Sig.Split (property C19 owns its correspondence)',
]
ASSUMPTIONS = [
    'interface, member names and object paths are valid DBus names and signatures are lists of complete types '
    '(then no generated attribute value needs XML escaping: theorem generated_attribute_values_need_no_escaping)',
    'an interface name declared twice on ONE object (a subclass re-declaring its base\'s interface): the object '
    'serves the first definition in getInterfaces() order (dispatch takes the first interface of that name), so the '
    'first interface of that name that comes back must hold that first definition, and the proxy is judged '
    'against it; which of the same-named blocks the cache keeps afterwards, and calls to methods only a shadowed '
    'definition has, are not judged (theorems 2-4 assume distinct names, handler_gen covers the fold)',
    'no declared interface carries the name of a standard interface generateIntrospectionXML appends (it appends its own block even when the object declares e.g. '
    'org.freedesktop.DBus.ObjectManager itself: the declared definition still comes back first, but a replacing '
    'parse leaves the poorer standard definition in the cache - pinned by std_name_collision_witness, covered by '
    'handler_gen and by the correspondence streams, not judged by the oracle)',
    'the change-notification mode (Property.emits) is not part of the statement: it comes back as a bool '
    '(true/invalidates -> True, false -> False); reported in the distribution, never as a violation',
    'readings of the statement used by the oracle: (a) the reference is the declaration as generated (names, '
    'signatures, readable/writeable flags -> read/write/readwrite, one argument per complete type), interfaces are '
    'matched by NAME (order and extra interfaces are not judged; when several declared interfaces have a method and '
    'no interface= keyword selects one, any of them may answer); (b) "reused" = what comes back for a known name '
    'without replacement holds the known definition and the known object is not modified (object identity is not '
    'demanded); (c) "unless replacement is requested" = the returned interface holds the declared definition (a new '
    'object or an in-place refresh are both fine) AND a later default-mode parse of the same text sees that '
    'replaced definition (the docstring of getInterfacesFromXML: known definitions "will be replaced"); '
    '(d) "already known locally" = declared in this process by a DBusInterface(...) call that RETURNED (without '
    'noRegister), put into the table by the application, or read from XML by an earlier parse - a declaration that '
    'raised declared nothing, so after it the name is as known / unknown as before; (e) whatever the table holds '
    'under a declared name after the round trip is what later default-mode parses will hand out, so it must be the '
    'definition that was known before (reuse) or the declared one - that the parse registers at all is NOT demanded',
]
RULE = ('one case = one document (path, exported objects, each interface built by a random sequence of add*/del*/'
        'introspectionXml operations with 0-6 members of each kind and signatures from a type-directed generator over '
        'the full grammar, cache contents, replacement flag, probe calls); distinct = distinct canonical JSON; '
        'non-trivial = at least one exported member or a cache hit')

BASIC = 'ybnqiuxtdsogh'
STD_FALLBACK = ['org.freedesktop.DBus.Introspectable', 'org.freedesktop.DBus.Peer',
                'org.freedesktop.DBus.ObjectManager']
STD_NAMES = list(STD_FALLBACK)       # refreshed from introspection._intro by run()/replay()
STD_METHOD_NAMES = ['Introspect', 'Ping', 'GetManagedObjects']


def intro_events():
    """SAX events of the standard-interface blocks: read off the document the code generates for an exported
    object without interfaces (no dependence on how introspection.py stores that text)"""
    from txdbus import introspection

    class NoIfaces:
        def getInterfaces(self):
            return []

    return sax_events(introspection.generateIntrospectionXML('/probe', {'/probe': NoIfaces()}))[1:-1]


def refresh_std():
    """names of the standard interfaces generateIntrospectionXML appends and of their methods (from `_intro`)"""
    try:
        evs = intro_events()
        names = [dict(e[2]).get('name') for e in evs if e[0] == 'S' and e[1] == 'interface']
        methods = [dict(e[2]).get('name') for e in evs if e[0] == 'S' and e[1] == 'method']
    except Exception:      # noqa - a text that does not parse: keep the pinned names, the streams will report
        names, methods = [], []
    STD_NAMES[:] = names if names else STD_FALLBACK
    STD_METHOD_NAMES[:] = methods if methods else ['Introspect', 'Ping', 'GetManagedObjects']


PROPS_DEF = {'name': 'org.freedesktop.DBus.Properties', 'ops': [
    ['m', 'Get', 'ss', 'v', 2, 1], ['m', 'Set', 'ssv', '', 3, 0], ['m', 'GetAll', 's', 'a{sv}', 1, 1],
    ['s', 'PropertiesChanged', 'sa{sv}as', 3]]}
ANNOT = 'org.freedesktop.DBus.Property.EmitsChangedSignal'

MEMBER_POOL = ['a', 'A', '_a', 'a_', 'a1', 'a10', 'a2', 'B', 'b', 'Z', '_', '_1', 'aB', 'Ab', 'zz', 'Foo', 'foo',
               'FOO', 'foo_bar', 'fooBar', 'foo1', 'x0', 'x_0', 'X0', 'Get', 'Set', 'Ping', 'z9', 'Z_', '__', 'a__b',
               'aa', 'aA', 'Aa', 'AA', 'a0', 'a00', 'A0']
IFACE_POOL = ['org.a.B', 'org.a.b', 'org.A.B', 'com.x_y.Z1', 'a.b', 'A.b', 'a.B', '_a._b', 'org.freedesktop.Foo',
              'org.freedesktop.DBus.Foo', 'z.z.z.z', 'a1.b2.c3']
ALNUM_ = 'abcdefghijklmnopqrstuvwxyzABCDEFGHIJKLMNOPQRSTUVWXYZ0123456789_'


# ------------------------------------------------------------------------------------------------ generators
def gen_type(rng, depth):
    r = rng.random()
    if depth <= 0 or r < 0.42:
        return rng.choice(BASIC + 'vvss')
    if r < 0.62:
        return 'a' + gen_type(rng, depth - 1)
    if r < 0.80:
        return '(' + ''.join(gen_type(rng, depth - 1) for _ in range(rng.choice([1, 1, 2, 2, 3, 4]))) + ')'
    return 'a{' + rng.choice(BASIC) + gen_type(rng, depth - 1) + '}'


def gen_types(rng):
    """a list of complete types (the signature is their concatenation)"""
    n = rng.choice([0, 0, 1, 1, 1, 2, 2, 3, 4, 5, 6])
    r = rng.random()
    if r < 0.03:
        # deep nesting
        d = rng.randint(8, 40)
        return [rng.choice(['a' * d + 'i', '(' * d + 'i' + ')' * d, 'a{s' * d + 'v' + '}' * d])]
    depth = rng.choice([0, 1, 2, 2, 3, 3, 4, 5])
    return [gen_type(rng, depth) for _ in range(n)]


def gen_member_name(rng):
    if rng.random() < 0.7:
        return rng.choice(MEMBER_POOL)
    return rng.choice(ALNUM_[:52] + '_') + ''.join(rng.choice(ALNUM_) for _ in range(rng.randint(0, 8)))


def gen_iface_name(rng):
    if rng.random() < 0.6:
        return rng.choice(IFACE_POOL)
    return '.'.join(gen_member_name(rng) for _ in range(rng.randint(2, 4)))


BAD_SIGS = ['a', '(', '(i', 'a{s', '{', 'ia', 'aa', '(ii', 'a(', 'i(a', '((i)', '{s{', 'a{sv', 'sa']
ODD_SIGS = [')', '}', 'i)', 'z', '1', 'i}i', 'a)', '{sv}', 'a{}', '()', 'ay', 'a}']   # split without error, piecewise


def gen_ops(rng, malformed=False):
    """a sequence of API operations building one interface; returns ops (JSON lists)"""
    ops = []
    names = {'m': [], 's': [], 'p': []}
    nm, ns, np_ = (rng.choice([0, 1, 2, 3, 3, 4, 5, 6]) for _ in range(3))
    plan = ['m'] * nm + ['s'] * ns + ['p'] * np_
    rng.shuffle(plan)
    for k in plan:
        # occasionally re-use a name (dict overwrite), delete one, or read the XML in between (cache)
        r = rng.random()
        if r < 0.08:
            ops.append(['x'])
        if r > 0.93 and names[k]:
            victim = rng.choice(names[k])
            ops.append(['d' + k, victim])
            names[k] = [n for n in names[k] if n != victim]
        if malformed and rng.random() < 0.1:
            ops.append(['d' + k, gen_member_name(rng) + 'Q'])     # absent: KeyError
        name = rng.choice(names[k]) if names[k] and rng.random() < 0.12 else gen_member_name(rng)
        if name not in names[k]:
            names[k].append(name)
        if k == 'm':
            if malformed and rng.random() < 0.5:
                a = rng.choice(BAD_SIGS + ODD_SIGS)
                b = rng.choice(BAD_SIGS + ODD_SIGS + ['', 's'])
                ops.append(['m', name, a, b, None, None])
            else:
                ti, to = gen_types(rng), gen_types(rng)
                ops.append(['m', name, ''.join(ti), ''.join(to), len(ti), len(to)])
        elif k == 's':
            if malformed and rng.random() < 0.5:
                ops.append(['s', name, rng.choice(BAD_SIGS + ODD_SIGS), None])
            else:
                t = gen_types(rng)
                ops.append(['s', name, ''.join(t), len(t)])
        else:
            if malformed and rng.random() < 0.5:
                sig = rng.choice(BAD_SIGS + ODD_SIGS + ['', 'ii'])
            else:
                sig = gen_type(rng, rng.choice([0, 1, 2, 3, 4]))
            ops.append(['p', name, sig, rng.choice([0, 1, 1]), rng.choice([0, 0, 1]), rng.choice('ttfi')])
    if rng.random() < 0.1:
        ops.append(['x'])
    # re-declarations after the XML was read: an existing member is added again, looking partly or wholly
    # unchanged (same name and signature, another access / change-notification mode; same input, other output
    # signature; identical; deleted and re-added) - what a too clever `_xml` invalidation would miss
    if not malformed and rng.random() < 0.4:
        for _ in range(rng.choice([1, 1, 2, 3])):
            live = {'m': {}, 's': {}, 'p': {}}
            for op in ops:
                if op[0] in ('m', 's', 'p'):
                    live[op[0]][op[1]] = op
                elif op[0] in ('dm', 'ds', 'dp'):
                    live[op[0][1]].pop(op[1], None)
            kinds = [k for k in 'msp' if live[k]]
            if not kinds:
                break
            k = rng.choice(kinds + (['p'] if 'p' in kinds else []))
            old = list(rng.choice(sorted(live[k].values(), key=lambda o: o[1])))
            ops.append(['x'])
            if rng.random() < 0.15:
                ops.append(['d' + k, old[1]])
                if rng.random() < 0.5:
                    ops.append(['x'])
            r = rng.random()
            new = list(old)
            if k == 'p':
                if r < 0.6:
                    # same name and type, another access and / or emits mode
                    while new[3:6] == old[3:6]:
                        new[3], new[4], new[5] = rng.choice([0, 1]), rng.choice([0, 1]), rng.choice('tfi')
                elif r < 0.8:
                    new[2] = gen_type(rng, rng.choice([0, 1, 2]))
            elif k == 'm':
                if r < 0.4:
                    to = gen_types(rng)
                    new[3], new[5] = ''.join(to), len(to)
                elif r < 0.6:
                    ti = gen_types(rng)
                    new[2], new[4] = ''.join(ti), len(ti)
                elif r < 0.75 and new[4]:
                    # same number of arguments, other types
                    ti = [gen_type(rng, 1) for _ in range(new[4])]
                    new[2] = ''.join(ti)
            else:
                if r < 0.5:
                    t = gen_types(rng)
                    new[2], new[3] = ''.join(t), len(t)
                elif r < 0.7 and new[3]:
                    new[2] = ''.join(gen_type(rng, 1) for _ in range(new[3]))
            ops.append(new)
            if rng.random() < 0.3:
                ops.append(['x'])
    # histories ending "read the XML, delete a member, (read again)" with no mutator after the delete: the only
    # thing that can invalidate the cached text is the delete itself
    if not malformed and rng.random() < 0.2:
        for _ in range(rng.choice([1, 1, 2])):
            live = {'m': {}, 's': {}, 'p': {}}
            for op in ops:
                if op[0] in ('m', 's', 'p'):
                    live[op[0]][op[1]] = op
                elif op[0] in ('dm', 'ds', 'dp'):
                    live[op[0][1]].pop(op[1], None)
            kinds = [k for k in 'msp' if live[k]]
            if not kinds:
                break
            k = rng.choice(kinds)
            ops.append(['x'])
            ops.append(['d' + k, rng.choice(sorted(live[k]))])
            if rng.random() < 0.5:
                ops.append(['x'])
    return ops


def gen_ifdef(rng, name=None, malformed=False):
    d = {'name': name if name is not None else gen_iface_name(rng), 'ops': gen_ops(rng, malformed)}
    if rng.random() < 0.3:
        d['ctor'] = True
    return d


def final_members(ifdef):
    """what the operations leave in the three dicts (names only, per kind, with the generator's counts)"""
    d = {'m': {}, 's': {}, 'p': {}}
    for op in ifdef['ops']:
        if op[0] in ('m', 's', 'p'):
            d[op[0]][op[1]] = op
        elif op[0] in ('dm', 'ds', 'dp'):
            d[op[0][1]].pop(op[1], None)
    return d


def share_members(rng, case):
    """one Method / Signal / Property OBJECT added to two or more DBusInterface instances of the case (cached
    definitions, the object's interfaces, other objects' interfaces).  In build order the first add counts the
    object (or it was created with its counts set: 'preset'); every later add meets an already counted object.
    The later adds often come after that interface's XML was read once."""
    targets = [d for d in case['known']] + [d for p, ifs in case['objs'] for d in ifs]
    if len(targets) < 2:
        # a second definition to share with: an interface of another exported object
        extra = gen_ifdef(rng, gen_iface_name(rng))
        extra.pop('ctor', None)
        case['objs'].append(['/sh/ared', [extra]])
        targets.append(extra)
    if len(targets) < 2:
        return
    for key in range(rng.choice([1, 1, 2, 3])):
        kind = rng.choice('mmssp')
        name = gen_member_name(rng)
        if kind == 'm':
            ti, to = gen_types(rng), gen_types(rng)
            op = ['m', name, ''.join(ti), ''.join(to), len(ti), len(to)]
        elif kind == 's':
            t = gen_types(rng)
            op = ['s', name, ''.join(t), len(t)]
        else:
            op = ['p', name, gen_type(rng, rng.choice([0, 1, 2])), rng.choice([0, 1]), rng.choice([0, 1]), rng.choice('tfi')]
        mark = {'shared': key}
        if kind != 'p' and rng.random() < 0.2:
            mark['preset'] = True
        chosen = [d for d in targets if rng.random() < 0.6]
        if len(chosen) < 2:
            chosen = rng.sample(targets, 2)
        for d in targets:          # keep build order
            if not any(d is c for c in chosen):
                continue
            d.pop('ctor', None) if rng.random() < 0.7 else None
            new = list(op) + [dict(mark)]
            r = rng.random()
            if r < 0.55:
                # after the XML of this interface was generated once
                d['ops'] += [['x'], new] + ([['x']] if rng.random() < 0.3 else [])
            elif r < 0.75:
                d['ops'].append(new)
            else:
                d['ops'].insert(rng.randint(0, len(d['ops'])), new)
            if rng.random() < 0.1:
                # ... and taken out again after another read
                d['ops'] += [['x'], ['d' + kind, name]]
    case['shares'] = True


OTHER_ARGS = ['tuple', 'str', 'none', 'int', 'list', 'iface', 'class']
RAISING_SIGS = ['(is', 'a', '(', 'a{s', 'ia', '(ii', 'a(', 'i(a', '((i)', 'a{sv', 'sa', 's(i', 'aa']


def add_ops_of(d):
    """the members an interface definition ends up with, as constructor arguments (fresh member objects)"""
    fm = final_members(d)
    out = []
    for k in 'msp':
        for op in fm[k].values():
            out.append([x for x in op if not isinstance(x, dict)])
    return out


def gen_bad_arg(rng):
    """a constructor argument that makes DBusInterface.__init__ raise"""
    r = rng.random()
    if r < 0.4:
        return ['o', rng.choice(OTHER_ARGS)]
    name = gen_member_name(rng)
    if r < 0.6:
        return ['m', name, rng.choice(RAISING_SIGS), ''.join(gen_types(rng)), None, None]
    if r < 0.75:
        # the input signature is counted before the output signature raises
        return ['m', name, ''.join(gen_types(rng)), rng.choice(RAISING_SIGS), None, None]
    return ['s', name, rng.choice(RAISING_SIGS), None]


def gen_failed(rng, names, known, ifs):
    """1-3 declarations that raise part-way: the name is mostly one the object declares (or one that is known),
    the member list mostly the complete one of that declaration with ONE bad argument at a random position"""
    out = []
    pool = list(names) * 3 + [d['name'] for d in known] + [gen_iface_name(rng)]
    pool = [n for n in pool if n not in STD_NAMES and n != PROPS_DEF['name']]
    if not pool:
        return out
    for _ in range(rng.choice([1, 1, 1, 2, 3])):
        n = rng.choice(pool)
        src = [d for d in ifs if d['name'] == n]
        if src and rng.random() < 0.7:
            args = add_ops_of(src[0])
        else:
            args = add_ops_of(gen_ifdef(rng, n))
        rng.shuffle(args)
        args = args[:rng.choice([len(args), len(args), rng.randint(0, len(args))])]
        args.insert(rng.randint(0, len(args)), gen_bad_arg(rng))
        out.append({'name': n, 'register': 0 if rng.random() < 0.15 else 1, 'args': args,
                    'when': 'between' if rng.random() < 0.25 else 'before'})
    return out


def gen_doc(rng, malformed=False):
    nif = rng.choice([0, 1, 1, 1, 2, 2, 3, 4])
    names = []
    while len(names) < nif:
        n = gen_iface_name(rng)
        if n not in names and n not in STD_NAMES and n != PROPS_DEF['name']:
            names.append(n)
    dup = False
    ifs = [gen_ifdef(rng, n, malformed) for n in names]
    if (not malformed) and nif >= 1 and rng.random() < 0.08:
        if rng.random() < 0.65:
            # the same name declared twice on ONE object (a subclass re-declaring its base's interface: the
            # subclass' definition comes first in getInterfaces() and is the one the object serves)
            dup = 'user'
            k = rng.randrange(len(ifs))
            first = ifs[k]
            if rng.random() < 0.6:
                # the base's revision: a prefix of the subclass' history, possibly with other access modes
                base_ops = [list(o) for o in first['ops'][:rng.randint(0, max(0, len(first['ops']) - 1))]]
                for o in base_ops:
                    if o[0] == 'p' and rng.random() < 0.5:
                        o[3], o[4] = rng.choice([0, 1]), rng.choice([0, 1])
                second = {'name': first['name'], 'ops': base_ops}
            else:
                second = gen_ifdef(rng, first['name'])
            ifs.insert(rng.randint(k + 1, len(ifs)), second)
        else:
            # the name of a standard interface: correspondence only (see ASSUMPTIONS)
            dup = 'std'
            ifs.append(gen_ifdef(rng, rng.choice(STD_NAMES)))
    objkind = rng.choice(['stub', 'stub', 'dbusobject'])
    path = rng.choice(['/', '/a', '/a/b', '/org/x_1/Y', '/a/b/c/d'])
    objs = [[path, ifs]]
    # other exported paths: children, siblings sharing a prefix, parents
    for p in rng.sample(['/a', '/a/b', '/a/bc', '/a/b/c', '/a/b/c/d/e', '/q', '/a/b/d', '/org/x_1/Y/z', '/a/b/c2'],
                        rng.choice([0, 0, 1, 2, 4])):
        if p != path:
            # other exported objects carry their own interfaces (also interfaces named like ours)
            other = []
            if not malformed and rng.random() < 0.45:
                for _ in range(rng.choice([1, 1, 2])):
                    on = rng.choice(names) if names and rng.random() < 0.3 else gen_iface_name(rng)
                    if on not in [d['name'] for d in other] and on not in STD_NAMES and on != PROPS_DEF['name']:
                        other.append(gen_ifdef(rng, on))
            objs.append([p, other])
    rng.shuffle(objs)
    # the cache before the parse
    known = []
    r = rng.random()
    if r < 0.45:
        pass
    else:
        cands = names + STD_NAMES + [gen_iface_name(rng)]
        for n in rng.sample(cands, min(len(cands), rng.choice([1, 1, 2, 3]))):
            if rng.random() < 0.3 and n in names:
                # the cached definition equals the exported one
                known.append({'name': n, 'ops': [list(o) for o in [d for d in ifs if d['name'] == n][0]['ops']]})
            else:
                known.append(gen_ifdef(rng, n))
    opath = path
    if rng.random() < 0.06:
        path = rng.choice(['/', '/a', '/a/b', '/nothing/here', '/a/b/c', opath + '/', '/a/', '/a/b/', '/a/b/c/'])
    registered = 0
    if not malformed and not dup and path == opath and rng.random() < 0.15:
        # the exporter lives in the same process: its interface objects themselves are in the cache
        known = [d for d in known if d['name'] not in names]
        for d in ifs:
            known.append({'name': d['name'], 'ops': [list(o) for o in d['ops']], 'same_object': True})
            registered += 1
    queries = []
    pool = []
    for d in ifs + ([PROPS_DEF] if objkind == 'dbusobject' else []):
        fm = final_members(d)
        for mn, op in fm['m'].items():
            pool.append((d['name'], mn, op[4] if op[4] is not None else 1))
    foreign = []
    for p, oifs in objs:
        if p != opath:
            for d in oifs:
                for mn, op in final_members(d)['m'].items():
                    foreign.append((d['name'], mn, op[4] if op[4] is not None else 1))
    for _ in range(rng.choice([2, 4, 6])):
        if foreign and rng.random() < 0.3:
            # a method only another exported object declares: our proxy must not know it
            iname, mn, cnt = rng.choice(foreign)
            queries.append([rng.choice([None, None, iname]), mn, cnt])
        elif pool and rng.random() < 0.85:
            iname, mn, cnt = rng.choice(pool)
            filt = rng.choice([None, None, iname, '', rng.choice(names + STD_NAMES)])
            queries.append([filt, mn, max(0, cnt + rng.choice([0, 0, 0, 1, -1, 2]))])
        else:
            queries.append([rng.choice([None, 'org.freedesktop.DBus.Peer', 'no.such']),
                            rng.choice(['Ping', 'Introspect', 'GetManagedObjects', 'Nope', 'GetAll']),
                            rng.choice([0, 0, 1])])
    case = {'kind': 'doc', 'replace': rng.choice([0, 1]), 'path': path, 'known': known, 'objs': objs,
            'objkind': objkind, 'queries': queries, 'dup': dup, 'malformed': bool(malformed)}
    if not malformed and not any(d.get('same_object') for d in known) and rng.random() < 0.3:
        share_members(rng, case)
    if known and not malformed and not case['replace'] and rng.random() < 0.35:
        # three-step history: known locally; a malformed / truncated document naming known interfaces is parsed
        # (default mode) and raises; then the well-formed document is parsed without replacement
        kn = sorted({d['name'] for d in known})
        case['prelude'] = {'names': rng.sample(kn, rng.randint(1, len(kn))),
                           'kind': rng.choice(['truncated', 'truncated', 'mismatched', 'garbage', 'ampersand'])}
    if not malformed and not dup and rng.random() < 0.3:
        # declarations that raise part-way, in the same process, before the round trip / between the two parses
        f = gen_failed(rng, names, known, ifs)
        if f:
            case['failed'] = f
    return case


# ------------------------------------------------------------------------------------------------ encoding
SAFE = set('abcdefghijklmnopqrstuvwxyzABCDEFGHIJKLMNOPQRSTUVWXYZ0123456789_./(){}')


def enc(s):
    return ''.join(c if c in SAFE else '%%%06x' % ord(c) for c in s)


def tok(s):
    return '=' + enc(s)


def share_mark(op):
    """{'shared': k[, 'preset': True]} when the op adds a member OBJECT that other interfaces add too"""
    return op[-1] if isinstance(op[-1], dict) else None


def enc_op(op, used=None):
    """`used`: keys of shared member objects that an earlier op (in build order) already added - such an object
    has been counted (nargs set) and is added as it is"""
    k = op[0]
    mark = share_mark(op)
    counted = False
    if mark is not None and k in ('m', 's'):
        counted = bool(mark.get('preset')) or (used is not None and mark['shared'] in used)
        if used is not None:
            used.add(mark['shared'])
    if k == 'm':
        if counted:
            return 'M %s %s %s %d %d' % (tok(op[1]), tok(op[2]), tok(op[3]), op[4], op[5])
        return 'm %s %s %s' % (tok(op[1]), tok(op[2]), tok(op[3]))
    if k == 's':
        if counted:
            return 'S %s %s %d' % (tok(op[1]), tok(op[2]), op[3])
        return 's %s %s' % (tok(op[1]), tok(op[2]))
    if k == 'p':
        return 'p %s %s %d %d %s' % (tok(op[1]), tok(op[2]), op[3], op[4], op[5])
    if k in ('dm', 'ds', 'dp'):
        return '%s %s' % (k, tok(op[1]))
    return 'x'


def enc_ifdef(d, used=None):
    return ' '.join([tok(d['name']), str(len(d['ops']))] + [enc_op(o, used) for o in d['ops']])


def obj_ifdefs(case, ifs):
    return ifs + ([PROPS_DEF] if case['objkind'] == 'dbusobject' and True else [])


def enc_doc(case):
    used = set()      # build order: the cached definitions first, then the exported objects in their order
    parts = ['doc', str(case['replace']), tok(case['path']), 'K', str(len(case['known']))]
    parts += [enc_ifdef(d, used) for d in case['known']]
    if case.get('failed') is not None:
        for mark, when in (('F', 'before'), ('G', 'between')):
            att = [a for a in case['failed'] if a.get('when', 'before') == when]
            parts += [mark, str(len(att))]
            for a in att:
                parts += [tok(a['name']), str(int(bool(a['register']))), str(len(a['args']))]
                parts += ['o' if o[0] == 'o' else enc_op(o) for o in a['args']]
    parts += ['X', str(len(case['objs']))]
    for p, ifs in case['objs']:
        full = obj_ifdefs(case, ifs)
        parts += [tok(p), str(len(full))] + [enc_ifdef(d, used) for d in full]
    parts += ['Q', str(len(case['queries']))]
    for f, m, n in case['queries']:
        parts += ['-' if f is None else tok(f), tok(m), str(n)]
    return ' '.join(parts)


def enc_evs(case):
    parts = ['evs', str(case['replace']), 'K', str(len(case['known']))]
    parts += [enc_ifdef(d) for d in case['known']]
    parts += ['E', str(len(case['events']))]
    for e in case['events']:
        if e[0] == 'S':
            parts += ['S', tok(e[1]), str(len(e[2]))]
            for k, v in e[2]:
                parts += [tok(k), tok(v)]
        else:
            parts += ['E', tok(e[1])]
    return ' '.join(parts)


# ------------------------------------------------------------------------------------------------ implementation
class Recorder(xml.sax.handler.ContentHandler):
    def __init__(self):
        xml.sax.handler.ContentHandler.__init__(self)
        self.ev = []

    def startElement(self, name, attrs):
        self.ev.append(['S', name, [[k, attrs[k]] for k in attrs.keys()]])

    def endElement(self, name):
        self.ev.append(['E', name])


def sax_events(text):
    rec = Recorder()
    p = xml.sax.make_parser()
    p.setFeature(xml.sax.handler.feature_validation, False)
    p.setFeature(xml.sax.handler.feature_external_ges, False)
    p.setFeature(xml.sax.handler.feature_external_pes, False)
    p.setContentHandler(rec)
    p.parse(StringIO(text))
    return rec.ev


def show_events(evs):
    out = []
    for e in evs:
        if e[0] == 'S':
            out.append(','.join(['S', enc(e[1])] + ['%s=%s' % (enc(k), enc(v)) for k, v in e[2]]))
        else:
            out.append('E,' + enc(e[1]))
    return ';'.join(out)


def exc_kind(e):
    if isinstance(e, KeyError):
        return 'keyError'
    if isinstance(e, AttributeError):
        return 'attributeError'
    if isinstance(e, TypeError):
        return 'typeError'
    if isinstance(e, RuntimeError):
        return 'stopIteration'
    return 'exc:' + type(e).__name__


def member_of(I, op, registry=None):
    """the member object of an add op; an op marked {'shared': k} uses ONE object per key within a case"""
    mark = share_mark(op)
    if mark is not None and registry is not None and mark['shared'] in registry:
        return registry[mark['shared']]
    if op[0] == 'm':
        o = I.Method(op[1], op[2], op[3])
        if mark is not None and mark.get('preset'):
            o.nargs, o.nret = op[4], op[5]      # created with its counts set by hand
    elif op[0] == 's':
        o = I.Signal(op[1], op[2])
        if mark is not None and mark.get('preset'):
            o.nargs = op[3]
    else:
        o = I.Property(op[1], op[2], bool(op[3]), bool(op[4]), {'t': True, 'f': False, 'i': 'invalidates'}[op[5]])
    if mark is not None and registry is not None:
        registry[mark['shared']] = o
    return o


def build_iface(I, d, registry=None):
    if d.get('ctor') and all(op[0] in ('m', 's', 'p') for op in d['ops']):
        # the members handed to the constructor: DBusInterface(name, *members)
        return I.DBusInterface(d['name'], *[member_of(I, op, registry) for op in d['ops']], noRegister=True)
    i = I.DBusInterface(d['name'], noRegister=True)
    for op in d['ops']:
        k = op[0]
        if k == 'm':
            i.addMethod(member_of(I, op, registry))
        elif k == 's':
            i.addSignal(member_of(I, op, registry))
        elif k == 'p':
            i.addProperty(member_of(I, op, registry))
        elif k == 'dm':
            i.delMethod(op[1])
        elif k == 'ds':
            i.delSignal(op[1])
        elif k == 'dp':
            i.delProperty(op[1])
        else:
            i.introspectionXml
    return i


def show_emits(v):
    if v is True:
        return 'bT'
    if v is False:
        return 'bF'
    return 's' + enc(v)


def show_iface(i):
    ms = '+'.join(':'.join([enc(m.name), enc(m.sigIn), enc(m.sigOut), str(m.nargs), str(m.nret)])
                  for m in i.methods.values())
    ss = '+'.join(':'.join([enc(s.name), enc(s.sig), str(s.nargs)]) for s in i.signals.values())
    ps = '+'.join(':'.join([enc(p.name), enc(p.sig), enc(p.access), show_emits(p.emits)])
                  for p in i.properties.values())
    return '!'.join([enc(i.name), ms, ss, ps])


def show_result(known_objs, result, cache, new=None):
    """`new` (objects created by earlier parses of the same case, in creation order) is extended in place"""
    if new is None:
        new = []

    def ref(o):
        for j, k in enumerate(known_objs):
            if k is o:
                return 'k%d' % j
        for j, k in enumerate(new):
            if k is o:
                return 'n%d' % j
        new.append(o)
        return 'n%d' % (len(new) - 1)

    r = ','.join(['R'] + [ref(o) for o in result])
    c = ','.join(['C'] + ['%s=%s' % (enc(k), ref(v)) for k, v in cache.items()])
    h = 'H,' + ';'.join(show_iface(o) for o in new)
    return '|'.join([r, c, h])


class FakeConn:
    def __init__(self):
        self.sent = None

    def callRemote(self, objectPath, methodName, **kw):
        self.sent = (kw.get('interface'), kw.get('signature'), kw.get('returnSignature'))
        return None


class FakeHandler:
    def __init__(self):
        self.conn = FakeConn()


def probe_calls(ifaces, queries, path):
    from txdbus import objects
    out = []
    for f, m, n in queries:
        h = FakeHandler()
        ro = objects.RemoteDBusObject(h, 'org.test', path, ifaces)
        try:
            if f is None:
                ro.callRemote(m, *([0] * n))
            else:
                ro.callRemote(m, *([0] * n), interface=f)
            out.append(':'.join(['S', enc(h.conn.sent[0]), enc(h.conn.sent[1]), enc(h.conn.sent[2])]))
        except AttributeError:
            out.append('A')
        except TypeError:
            out.append('T')
    return out


class Stub:
    def __init__(self, ifs):
        self.ifs = ifs

    def getInterfaces(self):
        return self.ifs


def make_obj(case, path, built):
    if case['objkind'] == 'stub':
        return Stub(built)
    from txdbus import objects

    class Exported(objects.DBusObject):
        dbusInterfaces = built

    return Exported(path if path != '' else '/')


def with_clean_cache(f):
    """run f() with DBusInterface.knownInterfaces emptied, restore the previous content afterwards"""
    from txdbus import interface as I
    from txdbus import objects  # noqa: F401 - its import registers org.freedesktop.DBus.Properties; do it before clearing
    saved = dict(I.DBusInterface.knownInterfaces)
    I.DBusInterface.knownInterfaces.clear()
    try:
        return f()
    finally:
        I.DBusInterface.knownInterfaces.clear()
        I.DBusInterface.knownInterfaces.update(saved)


def prelude_text(pre):
    """a document that names locally known interfaces and cannot be parsed to the end"""
    l = ['<node name="/x">']
    for n in pre['names']:
        l.append('  <interface name="%s">' % n)
        l.append('    <method name="Broken">')
        l.append('      <arg direction="in" type="i"/>')
        if pre['kind'] == 'mismatched' and n == pre['names'][-1]:
            l.append('    </signal>')
        elif pre['kind'] == 'garbage' and n == pre['names'][-1]:
            l.append('    <<< ]]>')
        elif pre['kind'] == 'ampersand' and n == pre['names'][-1]:
            l.append('      <arg direction="in" type="a&b"/>')
        elif n != pre['names'][-1]:
            l.append('    </method>')
            l.append('  </interface>')
    # 'truncated': the document simply ends here
    return '\n'.join(l)


def other_arg(I, kind):
    """something that is not a Method / Signal / Property instance"""
    return {'tuple': ('Echo', 's', 's'), 'str': 'Echo', 'none': None, 'int': 0, 'list': [],
            'iface': I.DBusInterface('x.y', noRegister=True), 'class': I.Method}.get(kind, kind)


def attempt_declarations(I, case, when):
    """`try: DBusInterface(name, *args) except Exception: carry on` for the attempts scheduled at `when`"""
    out = []
    for a in case.get('failed') or []:
        if a.get('when', 'before') != when:
            continue
        args = [other_arg(I, o[1]) if o[0] == 'o' else member_of(I, o) for o in a['args']]
        try:
            if a['register']:
                I.DBusInterface(a['name'], *args)
            else:
                I.DBusInterface(a['name'], *args, noRegister=True)
            out.append('ok')
        except Exception as e:      # noqa - the point of the step
            out.append('e:' + exc_kind(e))
    return out


def observe_doc(case):
    """returns dict: events, result, calls (strings as the driver prints them) + raw objects for the oracle"""
    from txdbus import interface as I, introspection as X

    def body():
        obs = {}
        try:
            registry = {}
            known_objs = [None if d.get('same_object') else build_iface(I, d, registry) for d in case['known']]
            exported = {}
            declared = None
            for p, ifs in case['objs']:
                built = [build_iface(I, d, registry) for d in ifs]
                o = make_obj(case, p, built)
                exported[p] = o
                if p == case['path']:
                    declared = list(o.getInterfaces())
                    for j, d in enumerate(case['known']):
                        if d.get('same_object'):
                            known_objs[j] = [b for b in built if b.name == d['name']][0]
            if any(k is None for k in known_objs):
                known_objs = [k if k is not None else build_iface(I, d, registry)
                              for k, d in zip(known_objs, case['known'])]
        except Exception as e:      # noqa - canonicalised
            obs['line'] = 'err ' + exc_kind(e)
            return obs
        for k in known_objs:
            I.DBusInterface.knownInterfaces[k.name] = k
        obs['known_objs'] = known_objs
        obs['known_before'] = [show_iface(k) for k in known_objs]
        obs['declared'] = declared
        if case.get('failed') is not None:
            obs['failed'] = [attempt_declarations(I, case, 'before'), None]
        if case.get('prelude'):
            try:
                X.getInterfacesFromXML(prelude_text(case['prelude']))
                obs['prelude'] = 'no-exception'
            except Exception as e:      # noqa - this is the point of the step
                obs['prelude'] = 'raised:' + type(e).__name__
        try:
            text = X.generateIntrospectionXML(case['path'], exported)
        except Exception as e:      # noqa
            obs['line'] = 'err ' + exc_kind(e)
            return obs
        if text is None:
            obs['line'] = 'none'
            return obs
        obs['text'] = text
        try:
            obs['events'] = show_events(sax_events(text))
        except Exception as e:      # noqa
            obs['events'] = 'sax-failed:' + type(e).__name__
        try:
            res = X.getInterfacesFromXML(text, bool(case['replace']))
        except Exception as e:      # noqa
            obs['result'] = 'err ' + exc_kind(e)
            obs['line'] = 'ok %s|%s' % (obs['events'], obs['result'])
            return obs
        obs['recovered'] = res
        new = []
        obs['result'] = show_result(known_objs, res, I.DBusInterface.knownInterfaces, new)
        # content as of now: the second parse below may legitimately refresh objects in place
        import copy
        obs['recovered_snapshot'] = [copy.deepcopy(r) for r in res]
        obs['known_after'] = [show_iface(k) for k in known_objs]
        # what the table holds now (content as of now, see above)
        obs['cache_after'] = {n: copy.deepcopy(o) for n, o in I.DBusInterface.knownInterfaces.items()}
        obs['calls'] = ','.join(['Q'] + probe_calls(res, case['queries'], case['path']))
        if case.get('failed') is not None:
            obs['failed'][1] = attempt_declarations(I, case, 'between')
        # the same text once more, with the other flag, on the cache the first parse left
        try:
            res2 = X.getInterfacesFromXML(text, not bool(case['replace']))
            obs['recovered2'] = res2
            obs['result2'] = show_result(known_objs, res2, I.DBusInterface.knownInterfaces, new)
            obs['cache_after2'] = {n: copy.deepcopy(o) for n, o in I.DBusInterface.knownInterfaces.items()}
        except Exception as e:      # noqa
            obs['result2'] = 'err ' + exc_kind(e)
        obs['line'] = 'ok %s|%s|%s|2|%s' % (obs['events'], obs['result'], obs['calls'], obs['result2'])
        if case.get('failed') is not None:
            obs['failed_line'] = '|'.join(','.join(o) for o in obs['failed'])
            obs['line'] += '|F|' + obs['failed_line']
        return obs

    return with_clean_cache(body)


def split_failed(line):
    """model output line -> (line without the `|F|<outcomes>|<outcomes>` tail, that tail or None)"""
    if line is not None and line.startswith('ok '):
        parts = line.split('|')
        if len(parts) >= 4 and parts[-3] == 'F':
            return '|'.join(parts[:-3]), '|'.join(parts[-2:])
    return line, None


def split_model_doc(line):
    """model output line -> (events, result, calls, second result); missing parts are None"""
    if line is None:
        return None, None, None, None
    if not line.startswith('ok '):
        return line, None, None, None
    parts = line[3:].split('|')
    ev = parts[0]
    if len(parts) >= 2 and parts[1].startswith('err '):
        return ev, parts[1], None, None
    second = '|'.join(parts[6:]) if len(parts) > 6 and parts[5] == '2' else None
    return ev, '|'.join(parts[1:4]), parts[4] if len(parts) > 4 else None, second


# ------------------------------------------------------------------------------------------------ oracle
def access_of(readable, writeable):
    """the access mode a Property declared with these flags has (interface.Property docstring)"""
    if writeable and not readable:
        return 'write'
    if writeable and readable:
        return 'readwrite'
    return 'read'


def spec_of_ifdef(d):
    """the declared definition as the GENERATOR describes it (never read from the implementation's objects):
    methods name -> (sigIn, sigOut, nargs, nret), signals name -> (sig, nargs), properties name -> (type, access)"""
    fm = final_members(d)
    return {'name': d['name'],
            'm': {n: (op[2], op[3], op[4], op[5]) for n, op in fm['m'].items()},
            's': {n: (op[2], op[3]) for n, op in fm['s'].items()},
            'p': {n: (op[2], access_of(op[3], op[4])) for n, op in fm['p'].items()}}


def declared_spec(case):
    """the interfaces declared for the object at case['path'] (None: nothing exported there)"""
    for p, ifs in case['objs']:
        if p == case['path']:
            return [spec_of_ifdef(d) for d in obj_ifdefs(case, ifs)]
    return None


def definition_mismatches(spec, r):
    """clauses of the statement: same name, methods (signatures, counts), signals, properties (type, access)"""
    out = []
    if set(r.methods) != set(spec['m']):
        out.append(('method-set', 'recovered interface has other methods', sorted(r.methods), sorted(spec['m'])))
    for n, (si, so, na, nr) in spec['m'].items():
        q = r.methods.get(n)
        if q is None:
            continue
        if (q.name, q.sigIn, q.sigOut) != (n, si, so):
            out.append(('method-signature', 'recovered method has other signatures',
                        [q.name, q.sigIn, q.sigOut], [n, si, so]))
        if (q.nargs, q.nret) != (na, nr):
            out.append(('method-counts', 'recovered method has other argument counts than one per declared '
                        'complete type', [n, q.nargs, q.nret], [n, na, nr]))
    if set(r.signals) != set(spec['s']):
        out.append(('signal-set', 'recovered interface has other signals', sorted(r.signals), sorted(spec['s'])))
    for n, (sg, na) in spec['s'].items():
        q = r.signals.get(n)
        if q is None:
            continue
        if (q.name, q.sig, q.nargs) != (n, sg, na):
            out.append(('signal-signature', 'recovered signal differs', [q.name, q.sig, q.nargs], [n, sg, na]))
    if set(r.properties) != set(spec['p']):
        out.append(('property-set', 'recovered interface has other properties',
                    sorted(r.properties), sorted(spec['p'])))
    for n, (sg, acc) in spec['p'].items():
        q = r.properties.get(n)
        if q is None:
            continue
        if (q.name, q.sig, q.access) != (n, sg, acc):
            out.append(('property-type-access', 'recovered property has another type or access mode',
                        [q.name, q.sig, q.access], [n, sg, acc]))
    return out


def judge_doc(ctx, case, obs):
    """the property statement on the implementation alone (only for cases inside its assumptions).
    The reference is the generator's description of the declaration; interfaces are matched by name."""
    if case.get('malformed') or case.get('dup') in (True, 'std'):
        return
    specs = declared_spec(case)
    if specs is None or 'known_objs' not in obs:
        return
    # a name declared more than once on this object: the object serves the FIRST definition (dispatch takes the
    # first interface of that name in getInterfaces() order), so that one is what must come back under the name
    all_specs = specs
    repeated = {sp['name'] for sp in specs if sum(1 for q in specs if q['name'] == sp['name']) > 1}
    firsts, seen = [], set()
    for sp in specs:
        if sp['name'] not in seen:
            seen.add(sp['name'])
            firsts.append(sp)
    specs = firsts
    inp = case
    if 'text' not in obs:
        ctx.violation('roundtrip-raises', 'generating the XML of a valid interface definition raises or yields nothing',
                      inp, observed=obs.get('line'), expected='introspection XML')
        return
    if 'recovered' not in obs:
        ctx.violation('roundtrip-raises', 'parsing the XML generated for a valid interface definition raises',
                      inp, observed=obs.get('result'), expected='a list of interfaces')
        return
    rec = obs['recovered_snapshot']
    known_names = {}
    for j, d in enumerate(case['known']):
        known_names[d['name']] = j          # a later entry of the same name overwrote the earlier one
    # declarations attempted in this process that RAISED declared nothing (reading (d)): the names they used are
    # as known / unknown as before, and everything below is judged exactly as without them.  (An attempt that
    # returned although it was meant to raise made its name known with its own definition: not judged.)
    attempts = case.get('failed') or []
    outcomes = [o for part in (obs.get('failed') or []) for o in (part or [])]
    ordered = [a for w in ('before', 'between') for a in attempts if a.get('when', 'before') == w]
    if any(o == 'ok' and a['register'] for a, o in zip(ordered, outcomes)):
        ctx.stat('a declaration meant to raise returned: document not judged')
        return
    failed_before = {a['name'] for a in attempts if a.get('when', 'before') == 'before'}
    # the declaring side: the exporter's own objects must hold what was declared (argument counting of addMethod /
    # addSignal, access decoding of Property) - judged against the generator's description
    for spec, d in zip(all_specs, obs['declared'] or []):
        if d.name == spec['name']:
            for key, what, o, e in definition_mismatches(spec, d):
                ctx.violation('declared-' + key, 'the declared DBusInterface object differs from the declaration: '
                              + what, inp, observed=o, expected=e)
    for spec in specs:
        name = spec['name']
        found = [r for r in rec if r.name == name]
        if not found:
            ctx.violation('interface-missing', 'no interface of the declared name comes back', inp,
                          observed=[r.name for r in rec], expected=name)
            continue
        r = found[0]
        if name in known_names and not case['replace']:
            # "interfaces already known locally are reused": what comes back is the known definition, untouched
            idx = known_names[name]
            before = obs['known_before'][idx]
            if show_iface(r) != before:
                ctx.violation('known-not-reused', 'a locally known interface was not reused although replacement '
                              'was not requested', inp, observed=show_iface(r), expected=before)
            if obs['known_after'][idx] != before:
                ctx.violation('known-mutated', 'the known interface was modified by a parse that should reuse it',
                              inp, observed=obs['known_after'][idx], expected=before)
            continue
        for key, what, o, e in definition_mismatches(spec, r):
            if name in failed_before:
                ctx.violation('failed-declaration-then-' + key, 'a declaration of this name raised earlier in the '
                              'process (it declared nothing), then the XML of the complete definition was parsed: '
                              + what, inp, observed=o, expected=e)
            else:
                ctx.violation(key, what, inp, observed=o, expected=e)
        for n, q in r.properties.items():
            ctx.stat('emits comes back as %r' % (q.emits,))
    # what the table holds under the declared names after the round trip (reading (e)): the definition that was
    # known before (reuse) or the declared one; no entry at all is fine
    for spec in specs:
        name = spec['name']
        if name in repeated:
            continue        # which of several same-named blocks the cache keeps is not judged (see ASSUMPTIONS)
        entry = (obs.get('cache_after') or {}).get(name)
        if entry is None:
            continue
        if name in known_names and not case['replace']:
            before = obs['known_before'][known_names[name]]
            if show_iface(entry) != before:
                ctx.violation('table-holds-undeclared-definition', 'after a parse without replacement the table of '
                              'known interfaces holds, under a name that was known, something else than the known '
                              'definition', inp, observed=show_iface(entry), expected=before)
        else:
            mm = definition_mismatches(spec, entry)
            if mm:
                ctx.violation('table-holds-undeclared-definition', 'after the round trip the table of known '
                              'interfaces holds, under a declared name, a definition that is neither a known nor '
                              'the declared one (%s)' % mm[0][0], inp, observed=mm[0][2], expected=mm[0][3])
    # the same text parsed again with the other flag: after a replacing parse a default-mode parse must see the
    # replaced (= declared) definitions; a replacing parse after a default one must yield the declared definitions
    if 'recovered2' in obs:
        rec2 = obs['recovered2']
        for spec in specs:
            if spec['name'] in repeated:
                continue    # which of several same-named blocks the cache keeps is not judged (see ASSUMPTIONS)
            found = [r for r in rec2 if r.name == spec['name']]
            if not found:
                ctx.violation('interface-missing', 'no interface of the declared name comes back (second parse of '
                              'the same text)', inp, observed=[r.name for r in rec2], expected=spec['name'])
                continue
            mm = definition_mismatches(spec, found[0])
            if mm and case['replace']:
                ctx.violation('replaced-definition-not-seen-later', 'after a parse with replacement a default-mode '
                              'parse of the same text does not return the declared definition (%s)' % mm[0][0],
                              inp, observed=mm[0][2], expected=mm[0][3])
            elif mm:
                ctx.violation('second-parse-' + mm[0][0], 'a replacing parse after a default-mode parse of the same '
                              'text: ' + mm[0][1], inp, observed=mm[0][2], expected=mm[0][3])
            # after both parses every declared name went through a replacing parse: whatever the table holds
            # under it now is what later default-mode parses hand out, so it must be the declared definition
            entry = (obs.get('cache_after2') or {}).get(spec['name'])
            if entry is not None:
                mm = definition_mismatches(spec, entry)
                if mm:
                    ctx.violation('table-holds-undeclared-definition', 'after a replacing and a default-mode parse '
                                  'of the same text the table of known interfaces holds, under a declared name, '
                                  'something else than the declared definition (%s)' % mm[0][0], inp,
                                  observed=mm[0][2], expected=mm[0][3])
    elif 'result2' in obs:
        ctx.violation('roundtrip-raises', 'parsing the same generated XML a second time (other flag) raises',
                      inp, observed=obs.get('result2'), expected='a list of interfaces')
    # proxy: accepts exactly the calls the exporter declared (only when no known definition was reused)
    stale = (not case['replace']) and any(sp['name'] in known_names for sp in specs)
    std_known = (not case['replace']) and any(n in known_names for n in STD_NAMES)
    if not stale and not std_known:
        got = obs['calls'].split(',')[1:]
        for (f, m, n), g in zip(case['queries'], got):
            want = expected_calls(all_specs, f, m, n)
            if want is not None and g not in want:
                ctx.violation('proxy-accepts-differently', 'a proxy built from the XML accepts/rejects a call '
                              'differently from the declaration', inp, observed=[f, m, n, g], expected=sorted(want))


def expected_calls(specs, f, m, n):
    """from the declaration alone: the set of acceptable outcomes.  A declared interface (matching the
    `interface=` keyword when given) that has the method decides; when several have it and no keyword selects
    one, any of them may (the order of lookup is not part of the statement).  A method no declared interface
    has is unknown - unless a standard interface names it (then not judged: None)."""
    firsts, seen = [], set()
    for sp in specs:
        if sp['name'] not in seen:
            seen.add(sp['name'])
            firsts.append(sp)
    cands = [sp for sp in firsts if (not f or f == sp['name']) and m in sp['m']]
    if any((not f or f == sp['name']) and m in sp['m'] for sp in specs if not any(sp is q for q in firsts)):
        return None     # a later, shadowed definition of a repeated name has it too: who answers is not judged
    if not f and m in STD_METHOD_NAMES:
        return None     # a standard interface has a method of this name too: which one answers is a matter of order
    if cands:
        out = set()
        for sp in cands:
            si, so, na, _ = sp['m'][m]
            out.add('T' if n != na else ':'.join(['S', enc(sp['name']), enc(si), enc(so)]))
        return out
    if m in STD_METHOD_NAMES:
        return None
    return {'A'}


# ------------------------------------------------------------------------------------------------ handler stream
def events_of_defs(rng, ifdefs):
    """well-formed events for definitions (as _getXml would order them), built independently in Python"""
    evs = [['S', 'node', [['name', '/x']]]]
    for d in ifdefs:
        evs.append(['S', 'interface', [['name', d['name']]]])
        fm = final_members(d)
        for n in sorted(fm['m']):
            op = fm['m'][n]
            evs.append(['S', 'method', [['name', n]]])
            for t in pieces(op[2]):
                evs += [['S', 'arg', [['direction', 'in'], ['type', t]]], ['E', 'arg']]
            for t in pieces(op[3]):
                evs += [['S', 'arg', [['direction', 'out'], ['type', t]]], ['E', 'arg']]
            evs.append(['E', 'method'])
        for n in sorted(fm['s']):
            op = fm['s'][n]
            evs.append(['S', 'signal', [['name', n]]])
            for t in pieces(op[2]):
                evs += [['S', 'arg', [['type', t]]], ['E', 'arg']]
            evs.append(['E', 'signal'])
        for n in sorted(fm['p']):
            op = fm['p'][n]
            acc = rng.choice(['read', 'write', 'readwrite', 'Read', 'READWRITE', 'wRiTe', 'readWrite', 'bogus', '',
                              'read ', 'readwrit'])
            evs.append(['S', 'property', [['name', n], ['type', op[2]], ['access', acc]]])
            if rng.random() < 0.8:
                evs.append(['S', 'annotation', [['name', rng.choice([ANNOT, ANNOT, ANNOT, 'org.other', ANNOT + 'x'])],
                                                ['value', rng.choice(['true', 'false', 'invalidates', 'True', '', 'x'])]]])
                evs.append(['E', 'annotation'])
            evs.append(['E', 'property'])
        evs.append(['E', 'interface'])
    evs.append(['E', 'node'])
    return evs


def pieces(sig):
    """top-level complete types of a well-formed signature (independent small splitter)"""
    out, i = [], 0
    while i < len(sig):
        j = i
        while sig[j] == 'a':
            j += 1
        if sig[j] in '({':
            o, c = sig[j], {'(': ')', '{': '}'}[sig[j]]
            depth = 0
            while True:
                if sig[j] == o:
                    depth += 1
                elif sig[j] == c:
                    depth -= 1
                    if depth == 0:
                        break
                j += 1
        out.append(sig[i:j + 1])
        i = j + 1
    return out


def mutate_events(rng, evs):
    evs = [list(e) for e in evs]
    for _ in range(rng.choice([0, 1, 1, 2, 3])):
        if not evs:
            break
        k = rng.randrange(len(evs))
        r = rng.random()
        if r < 0.2:
            del evs[k]
        elif r < 0.35:
            evs.insert(k, [x if not isinstance(x, list) else [list(y) for y in x] for x in evs[k]])
        elif r < 0.5 and k + 1 < len(evs):
            evs[k], evs[k + 1] = evs[k + 1], evs[k]
        elif r < 0.7:
            e = evs[k]
            if e[0] == 'S' and e[2]:
                e[2] = [list(a) for a in e[2]]
                del e[2][rng.randrange(len(e[2]))]
        elif r < 0.8:
            e = evs[k]
            if e[0] == 'S':
                e[2] = [list(a) for a in e[2]]
                for a in e[2]:
                    if a[0] == 'direction':
                        a[1] = rng.choice(['in', 'out', 'IN', '', 'inout'])
        elif r < 0.9:
            evs[k][1] = rng.choice(['node', 'interface', 'method', 'signal', 'property', 'annotation', 'arg',
                                    'Method', 'doc', 'interfaces', ''])
        else:
            evs.insert(k, rng.choice([['E', 'interface'], ['E', 'method'], ['E', 'signal'], ['E', 'property'],
                                      ['S', 'arg', [['type', 'i'], ['direction', 'in']]],
                                      ['S', 'arg', [['type', 'i']]],
                                      ['S', 'annotation', [['name', ANNOT], ['value', 'true']]],
                                      ['S', 'interface', [['name', 'org.a.B']]],
                                      ['S', 'method', [['name', 'M']]], ['S', 'signal', [['name', 'M']]]]))
    return evs


def gen_evs(rng):
    ifdefs = []
    names = []
    for _ in range(rng.choice([1, 1, 2, 3])):
        n = gen_iface_name(rng)
        if rng.random() < 0.9 and n in names:
            continue
        names.append(n)
        d = gen_ifdef(rng, n)
        d['ops'] = d['ops'][:rng.choice([2, 4, 8])]
        ifdefs.append(d)
    evs = events_of_defs(rng, ifdefs)
    if rng.random() < 0.75:
        evs = mutate_events(rng, evs)
    known = []
    if rng.random() < 0.5:
        for n in rng.sample(names, min(len(names), rng.choice([1, 2]))):
            known.append(gen_ifdef(rng, n))
    return {'kind': 'evs', 'replace': rng.choice([0, 1]), 'known': known, 'events': evs}


def observe_evs(case):
    from txdbus import interface as I, introspection as X

    def body():
        known_objs = [build_iface(I, d) for d in case['known']]
        for k in known_objs:
            I.DBusInterface.knownInterfaces[k.name] = k
        h = X.IntrospectionHandler(bool(case['replace']))
        try:
            for e in case['events']:
                if e[0] == 'S':
                    h.startElement(e[1], dict((k, v) for k, v in e[2]))
                else:
                    h.endElement(e[1])
        except Exception as ex:     # noqa
            return 'err ' + exc_kind(ex)
        try:
            return show_result(known_objs, h.interfaces, I.DBusInterface.knownInterfaces)
        except AttributeError:
            return 'dump-failed'

    return with_clean_cache(body)


# ------------------------------------------------------------------------------------------------ run
def doc_stats(ctx, case):
    for p, ifs in case['objs']:
        if p == case['path']:
            ctx.stat('interfaces=%d' % len(ifs))
            for d in ifs:
                fm = final_members(d)
                ctx.stat('methods=%d' % len(fm['m']))
                ctx.stat('signals=%d' % len(fm['s']))
                ctx.stat('properties=%d' % len(fm['p']))
                for op in fm['m'].values():
                    if op[4] is not None:
                        ctx.stat('nargs=%d' % min(op[4], 6))
                        if any(c in op[2] + op[3] for c in '({'):
                            ctx.stat('method-with-container-signature')
                for op in fm['p'].values():
                    ctx.stat('access r=%d w=%d' % (op[3], op[4]))
                    ctx.stat('emitsOnChange=' + op[5])
    for p, ifs in case['objs']:
        if p == case['path']:
            for d in ifs:
                seen, read = {}, False
                for op in d['ops']:
                    if op[0] == 'x':
                        read = True
                    elif op[0] in ('m', 's', 'p'):
                        key = (op[0], op[1])
                        if key in seen and read:
                            same_sig = op[2:3 if op[0] != 'm' else 4] == seen[key][2:3 if op[0] != 'm' else 4]
                            ctx.stat('redeclared-after-read kind=%s %s' % (op[0], 'same-signature' if same_sig else 'other-signature'))
                            if op[0] == 'p' and same_sig and op[3:5] != seen[key][3:5]:
                                ctx.stat('redeclared-after-read property same type, other access')
                        seen[key] = op
    for p, ifs in case['objs']:
        if p == case['path']:
            for d in ifs:
                ops = [o for o in d['ops']]
                tail = [o[0] for o in ops[-3:]]
                for k in ('dm', 'ds', 'dp'):
                    if tail[-2:] == ['x', k] or tail[-3:] == ['x', k, 'x']:
                        ctx.stat('history ends: read XML, %s, no later mutator' % k)
        elif ifs:
            ctx.stat('another exported object carries interfaces')
    if case.get('dup'):
        ctx.stat('same interface name twice on the object: %s' % case['dup'])
    if case.get('shares'):
        ctx.stat('member objects shared between DBusInterface instances')
        for p, ifs in case['objs']:
            if p == case['path']:
                for d in ifs:
                    seen_x = False
                    for op in d['ops']:
                        if op[0] == 'x':
                            seen_x = True
                        elif share_mark(op) is not None and seen_x:
                            ctx.stat('shared %s object added after the XML was read' % {'m': 'Method', 's': 'Signal', 'p': 'Property'}[op[0]])
    if case.get('prelude'):
        ctx.stat('failed-parse prelude naming known interfaces: ' + case['prelude']['kind'])
    if case.get('failed'):
        declared_here = [d['name'] for p, ifs in case['objs'] if p == case['path'] for d in ifs]
        knownn = [d['name'] for d in case['known']]
        for a in case['failed']:
            pos = [j for j, o in enumerate(a['args']) if o[0] == 'o' or o[-1] is None]
            bad = a['args'][pos[0]] if pos else None
            ctx.stat('raising declaration: %s, %s the parse, %s, name %s' % (
                'no bad argument' if bad is None else ('non-member argument' if bad[0] == 'o' else
                                                       {'m': 'Method', 's': 'Signal'}[bad[0]] + ' with a raising signature'),
                a.get('when', 'before') if a.get('when', 'before') == 'before' else 'between the parses of',
                'registering' if a['register'] else 'noRegister',
                ('declared by the object' + (' and known' if a['name'] in knownn else '')) if a['name'] in declared_here
                else ('known' if a['name'] in knownn else 'unrelated')))
            if pos:
                ctx.stat('raising declaration: bad argument %s' % (
                    'first' if pos[0] == 0 else 'last' if pos[0] == len(a['args']) - 1 else 'in the middle'))
    if case['path'] != '/' and case['path'].endswith('/'):
        ctx.stat('query path with trailing slash')
    ctx.stat('replace=%d known=%d' % (case['replace'], len(case['known'])))
    ctx.stat('objkind=' + case['objkind'])
    if any(d.get('same_object') for d in case['known']):
        ctx.stat('exporter-registered-in-cache')
    for p, ifs in case['objs']:
        if p == case['path']:
            for d in ifs:
                ctx.stat('built-by=' + ('constructor' if d.get('ctor') and all(o[0] in 'msp' and len(o[0]) == 1 for o in d['ops']) else 'add-calls'))


def nontrivial_doc(case):
    for p, ifs in case['objs']:
        if p == case['path'] and any(d['ops'] for d in ifs):
            return True
    return bool(case['known'])


def run_docs(ctx, cases, malformed=False):
    out = ctx.model([enc_doc(c) for c in cases])
    for c, m in zip(cases, out or [None] * len(cases)):
        obs = observe_doc(c)
        ctx.impl_trace()
        if obs.get('prelude'):
            ctx.stat('prelude outcome ' + obs['prelude'])
        if malformed:
            ctx.case('malformed-defs', sample=c, nontrivial=True)
            ctx.stat('malformed-outcome=' + obs['line'].split(' ')[0 if not obs['line'].startswith('err') else 1][:14])
            if m is not None and m != obs['line']:
                ctx.disagree('malformed-defs', c, m, obs['line'])
            continue
        doc_stats(ctx, c)
        nt = nontrivial_doc(c)
        ctx.case('gen-events', sample=c, nontrivial=nt)
        ctx.case('parse-result', nontrivial=nt)
        ctx.case('proxy-calls', nontrivial=nt)
        if c.get('failed') is not None:
            ctx.case('failed-declarations', sample=c, nontrivial=bool(c['failed']))
            for o in (obs.get('failed') or [[], []]):
                for x in (o or []):
                    ctx.stat('declaration attempt outcome ' + x)
        if m is not None:
            m, mfailed = split_failed(m)
            if 'failed_line' in obs and mfailed != obs['failed_line']:
                ctx.disagree('failed-declarations', c, mfailed, obs['failed_line'],
                             detail='outcomes of the DBusInterface(...) attempts')
            mev, mres, mcalls, mres2 = split_model_doc(m)
            if 'events' not in obs:
                if m != obs['line']:
                    ctx.disagree('gen-events', c, m, obs['line'])
            else:
                if mev != obs['events']:
                    ctx.disagree('gen-events', c, mev, obs['events'])
                if mres != obs.get('result'):
                    ctx.disagree('parse-result', c, mres, obs.get('result'))
                if mcalls != obs.get('calls'):
                    ctx.disagree('proxy-calls', c, mcalls, obs.get('calls'))
                if mres2 != obs.get('result2'):
                    ctx.disagree('parse-result', c, mres2, obs.get('result2'), detail='second parse (other flag)')
        judge_doc(ctx, c, obs)


def run_evs(ctx, cases):
    out = ctx.model([enc_evs(c) for c in cases])
    for c, m in zip(cases, out or [None] * len(cases)):
        impl = observe_evs(c)
        ctx.impl_trace()
        ctx.case('handler-events', sample=c, nontrivial=True)
        ctx.stat('handler-outcome=' + (impl if impl.startswith('err') or impl == 'dump-failed' else 'ok'))
        if m is None:
            continue
        if m == 'err unmodelled':
            ctx.stat('handler-unmodelled (aliased member / wrong-kind member; not compared)')
            continue
        if m != impl:
            ctx.disagree('handler-events', c, m, impl)


def fixed_cases():
    """hand-written boundary documents, run on every tier"""
    def doc(ifs, known=(), replace=0, objkind='stub', queries=()):
        return {'kind': 'doc', 'replace': replace, 'path': '/a', 'known': list(known), 'objs': [['/a', list(ifs)]],
                'objkind': objkind, 'queries': [list(q) for q in queries], 'dup': False, 'malformed': False}
    a = {'name': 'org.a.B', 'ops': [['m', 'Foo', 'a{sv}i(ii)', 's', 3, 1], ['m', 'Z', '', '', 0, 0],
                                    ['m', 'a_1', 'aai', 'a(ii)a{s(iv)}', 1, 2], ['s', 'Sig', 'sa{sv}as', 3],
                                    ['s', 'E', '', 0], ['p', 'P', 'a{sv}', 1, 1, 't'], ['p', 'Q', 's', 0, 1, 'f'],
                                    ['p', 'R', 'i', 1, 0, 'i'], ['p', 'S', 'i', 0, 0, 't']]}
    stale = {'name': 'org.a.B', 'ops': [['m', 'Foo', 'i', '', 1, 0]]}
    same_name = {'name': 'org.a.C', 'ops': [['m', 'M', 'i', '', 1, 0], ['m', 'M', 'ii', 's', 2, 1],
                                            ['s', 'M', 's', 1], ['p', 'M', 's', 1, 0, 't']]}
    cached = {'name': 'org.a.D', 'ops': [['m', 'A', 'i', '', 1, 0], ['x'], ['m', 'B', 's', '', 1, 0], ['x'],
                                         ['p', 'P', 'i', 1, 0, 't'], ['x'], ['dm', 'A'], ['x'], ['s', 'S', 'i', 1],
                                         ['x'], ['ds', 'S'], ['x'], ['dp', 'P']]}
    redecl = {'name': 'org.a.E', 'ops': [['p', 'P', 'i', 1, 0, 't'], ['m', 'M', 'i', 's', 1, 1], ['s', 'S', 'i', 1],
                                         ['x'], ['p', 'P', 'i', 1, 1, 't'], ['x'], ['p', 'P', 'i', 1, 1, 'f'],
                                         ['m', 'M', 'i', '', 1, 0], ['x'], ['s', 'S', 's', 1], ['x'],
                                         ['p', 'P', 'i', 0, 1, 'f']]}
    enddm = {'name': 'org.a.F', 'ops': [['m', 'A', 'i', '', 1, 0], ['m', 'B', 's', 's', 1, 1], ['x'], ['dm', 'A']]}
    endds = {'name': 'org.a.G', 'ops': [['s', 'A', 'i', 1], ['s', 'B', 's', 1], ['x'], ['ds', 'B'], ['x']]}
    enddp = {'name': 'org.a.H', 'ops': [['p', 'A', 'i', 1, 0, 't'], ['p', 'B', 's', 1, 1, 'f'], ['x'], ['dp', 'A']]}
    peer = {'name': 'org.freedesktop.DBus.Peer', 'ops': [['m', 'Ping', 'i', '', 1, 0]]}
    qs = [[None, 'Foo', 3], [None, 'Foo', 2], ['org.a.B', 'Z', 0], ['', 'Z', 1], [None, 'Ping', 0], ['org.a.B', 'Ping', 0],
          [None, 'M', 2], [None, 'M', 1], [None, 'A', 1], [None, 'B', 1]]
    return [doc([a], queries=qs), doc([a], replace=1, queries=qs), doc([a], known=[stale], queries=qs),
            doc([a], known=[stale], replace=1, queries=qs), doc([a, same_name, cached], queries=qs),
            doc([a, same_name, cached], objkind='dbusobject', queries=qs + [[None, 'GetAll', 1], [None, 'Set', 3]]),
            doc([enddm, endds, enddp], queries=qs), doc([enddm, endds, enddp], replace=1, queries=qs),
            doc([redecl], queries=qs + [[None, 'M', 1]]), doc([redecl, a], replace=1, queries=qs),
            doc([], queries=qs), doc([a], known=[peer], queries=qs), doc([a], known=[peer], replace=1, queries=qs),
            doc([{'name': 'x.y', 'ops': []}], queries=qs)]


def failed_declaration_cases():
    """bounded-exhaustive: one declaration that raises - every kind of fault at EVERY position of the member
    list - then the round trip of the complete definition under the same name; both flag values; the name unknown
    before / known with another (successfully declared) definition; the fault before the round trip / between the
    two parses; with and without noRegister"""
    members = [['m', 'Echo', 's', 's', 1, 1], ['m', 'Query', 'a{sv}(i(ss))', 'a(ii)u', 2, 2], ['s', 'Tick', 'ut', 2],
               ['p', 'Level', 'i', 1, 1, 't'], ['p', 'Tags', 'as', 1, 0, 'f']]
    full = {'name': 'org.a.P', 'ops': [list(o) for o in members]}
    older = {'name': 'org.a.P', 'ops': [['m', 'Echo', 'i', '', 1, 0], ['s', 'Old', 's', 1]], 'ctor': True}
    bads = [['o', 'tuple'], ['o', 'none'], ['m', 'Broken', '(is', '', None, None], ['m', 'Broken', 'a', 's', None, None],
            ['m', 'Broken', 'is', 'a{s', None, None], ['s', 'Broken', '(is', None], ['s', 'Broken', 'sa', None]]
    qs = [[None, 'Echo', 1], [None, 'Query', 2], [None, 'Query', 1], ['org.a.P', 'Echo', 1], [None, 'Broken', 0]]
    out = []
    for pos in range(len(members) + 1):
        for bi, bad in enumerate(bads):
            args = [list(o) for o in members]
            args.insert(pos, list(bad))
            for replace in (0, 1):
                # vary the rest deterministically so that every combination occurs for some (pos, bad)
                k = pos * len(bads) + bi
                when = 'between' if k % 4 == 3 else 'before'
                known = [dict(older, ops=[list(o) for o in older['ops']])] if k % 3 == 1 else []
                reg = 0 if k % 10 == 9 else 1
                out.append({'kind': 'doc', 'replace': replace, 'path': '/a', 'known': known,
                            'objs': [['/a', [{'name': full['name'], 'ops': [list(o) for o in members]}]]],
                            'objkind': 'stub', 'queries': [list(q) for q in qs], 'dup': False, 'malformed': False,
                            'failed': [{'name': full['name'], 'register': reg, 'args': args, 'when': when}]})
    # several attempts under several names, the object declaring two interfaces
    other = {'name': 'org.a.Q', 'ops': [['m', 'Ping', '', '', 0, 0], ['p', 'P', 'i', 1, 0, 't']]}
    for replace in (0, 1):
        out.append({'kind': 'doc', 'replace': replace, 'path': '/a', 'known': [],
                    'objs': [['/a', [{'name': full['name'], 'ops': [list(o) for o in members]},
                                     {'name': other['name'], 'ops': [list(o) for o in other['ops']]}]]],
                    'objkind': 'dbusobject', 'queries': [list(q) for q in qs] + [[None, 'Ping', 0]], 'dup': False,
                    'malformed': False,
                    'failed': [{'name': 'org.a.Q', 'register': 1, 'args': [['o', 'str']], 'when': 'before'},
                               {'name': 'org.a.P', 'register': 1, 'when': 'before',
                                'args': [list(members[0]), list(members[2]), ['m', 'Broken', '(is', '', None, None]]},
                               {'name': 'org.a.Q', 'register': 1, 'when': 'between',
                                'args': [list(other['ops'][0]), ['s', 'Broken', 'a', None]]},
                               {'name': 'org.b.Unrelated', 'register': 1, 'when': 'before', 'args': [['o', 'int']]}]})
    return out


def run(ctx):
    refresh_std()
    for name, data in ctx.corpus():
        c = data.get('input', data)
        if c.get('kind') == 'evs':
            run_evs(ctx, [c])
        else:
            run_docs(ctx, [c], malformed=bool(c.get('malformed')))
    run_docs(ctx, fixed_cases())
    run_docs(ctx, failed_declaration_cases())
    n = ctx.scale(quick=1500, thorough=50000)
    run_docs(ctx, [gen_doc(ctx.rng) for _ in range(n)])
    run_evs(ctx, [gen_evs(ctx.rng) for _ in range(ctx.scale(quick=1500, thorough=50000))])
    run_docs(ctx, [gen_doc(ctx.rng, malformed=True) for _ in range(ctx.scale(quick=300, thorough=8000))],
             malformed=True)


def replay(ctx, data):
    refresh_std()
    c = data.get('input', data)
    if c.get('kind') == 'evs':
        run_evs(ctx, [c])
    else:
        run_docs(ctx, [c], malformed=bool(c.get('malformed')))
