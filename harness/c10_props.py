"""C10 x C17 - stream `dispatch-properties` (extension 2026-09-30).

Calls to org.freedesktop.DBus.Properties (Get / Set / GetAll), to the three interfaces the handler answers itself
and calls that fail the lookup, on objects that carry DBusProperty attributes, in histories in which objects are
exported, unexported and assigned to.  Every call is a real METHOD_CALL (bytes, parsed back, own serial / sender /
NO_REPLY flag) handed to the real `DBusObjectHandler.handleMethodCallMessage`; every message the handler sends is
re-parsed from its bytes.

  S3  the composed Lean model (drv_c10 `p...` commands: `Obj/Dispatch.lean` dispatching into C17's `Obj/Props.lean`
      through `Obj/DispatchProps.lean`) prints the same signals and replies - reply kind, serial, destination,
      signature, the variant / dictionary a peer decodes, error name and text where the code decides them (`errv`
      where Python does: name and text of those replies are NOT compared with the model, their classes are counted in
      the evidence); user methods that take a Properties member away from the library (`hijack`) and which instance ran;
  S4  the monitor, from the property text only: at most one reply per call; exactly one when a reply is expected; none
      for a NO_REPLY_EXPECTED call that is dispatched to its implementation; REPLY_SERIAL = the call's serial and
      DESTINATION = the call's sender; UnknownObject / UnknownMethod / InvalidArgs for the failed lookups.

Declarations, histories and the value codec are C17's (harness/c17.py, imported read-only); what this stream adds to
them: `unexport` operations, per-call serial / sender / flags, Properties calls with a wrong signature, an unknown
member, no interface, the built-in calls, calls to paths that are not (or no longer) exported.
"""
import inspect

from harness import c10_locate as L

PROPS = 'org.freedesktop.DBus.Properties'
PEER = ('org.freedesktop.DBus.Peer', 'Ping')
INTRO = ('org.freedesktop.DBus.Introspectable', 'Introspect')
MANAGED = ('org.freedesktop.DBus.ObjectManager', 'GetManagedObjects')
PROP_SIGS = {'Get': 'ss', 'Set': 'ssv', 'GetAll': 's'}
PY_PREFIX = 'org.txdbus.PythonException.'
LOOKUP = {'unknown-object': 'org.freedesktop.DBus.Error.UnknownObject',
          'unknown-method': 'org.freedesktop.DBus.Error.UnknownMethod',
          'invalid-args': 'org.freedesktop.DBus.Error.InvalidArgs'}


def H17():
    from harness import c17
    return c17


def hx(s):
    return ''.join('%06x' % ord(c) for c in s) or '-'


def opt_hex(s):
    return '~' if s is None else hx(s)


# ----------------------------------------------------------------------------- generation
SENDERS = [':1.9', ':1.9', ':1.42', 'org.caller', None]


def call_of(rng, o, member, body, sig, iface=PROPS, path=None, wt=None):
    return {'op': 'call', 'o': o, 'path': path, 'iface': iface, 'member': member, 'sig': sig, 'body': body, 'wt': wt,
            'sender': rng.choice(SENDERS), 'serial': rng.choice([1, 7, 2 ** 32 - 1, rng.randrange(1, 2 ** 32)]),
            'expectReply': rng.random() < 0.8}


def extra_call(rng, nobj, ifnames, pnames):
    """Calls C17's generator does not make."""
    o = rng.randrange(nobj)
    r = rng.random()
    s = lambda x: ['S', x]      # noqa: E731
    if r < 0.30:
        iface, member = rng.choice([PEER, INTRO, MANAGED])
        path = rng.choice([None, None, '/', '/o0/x', '/zz', '/o'])
        if rng.random() < 0.3:
            return call_of(rng, o, member, [s('x')], 's', iface=iface, path=path)
        return call_of(rng, o, member, [], rng.choice([None, '']), iface=iface, path=path)
    i, p = rng.choice(ifnames + ['org.zzz']), rng.choice(pnames + ['nope'])
    if r < 0.50:        # a Properties member with another signature: InvalidArgs
        member = rng.choice(['Get', 'Set', 'GetAll'])
        sig, body = rng.choice([('s', [s(i)]), ('ss', [s(i), s(p)]), ('sss', [s(i), s(p), s('x')]), (None, []),
                                ('ssi', [s(i), s(p), ['I', 5]]), ('sv', [s(i), s(p)])])
        if sig == PROP_SIGS[member]:
            sig, body = 'as', [['L', [i]]]
        return call_of(rng, o, member, body, sig)
    if r < 0.62:        # unknown member / unknown interface: UnknownMethod
        if rng.random() < 0.5:
            return call_of(rng, o, rng.choice(['Nope', 'get', 'GetAl']), [s(i), s(p)], 'ss')
        return call_of(rng, o, 'Get', [s(i), s(p)], 'ss', iface=rng.choice(['org.zzz', 'org.freedesktop.DBus', i]))
    if r < 0.80:        # no interface in the call: the first interface that has the member
        member = rng.choice(['Get', 'GetAll'])
        body = [s(i), s(p)] if member == 'Get' else [s(i)]
        return call_of(rng, o, member, body, PROP_SIGS[member], iface=None)
    # a path nothing is exported at
    return call_of(rng, o, 'Get', [s(i), s(p)], 'ss', path=rng.choice(['/zz', '/o0/x', '/']))


def gen_case(rng):
    h = H17()
    classes = h.gen_decl_random(rng) if rng.random() < 0.75 else h.gen_decl_collision(rng)
    nobj = rng.choice([1, 2, 2])
    ops = h.gen_ops(rng, classes, nobj, rng.randrange(4, 22))
    ifnames = sorted({f['name'] for c in classes for f in c['ifaces']}) or ['org.a']
    pnames = sorted({p[0] for c in classes for f in c['ifaces'] for p in f['props']}) or ['bc']
    out = []
    inited = []
    s = lambda x: ['S', x]      # noqa: E731
    for op in ops:
        k = op[0]
        if k == 'init':
            inited.append(op[1])
        if k == 'get':
            out.append(call_of(rng, op[1], 'Get', [s(op[2]), s(op[3])], 'ss'))
        elif k == 'set':
            out.append(call_of(rng, op[1], 'Set', [s(op[2]), s(op[3]), op[4]], 'ssv', wt=op[5]))
        elif k == 'getall':
            out.append(call_of(rng, op[1], 'GetAll', [s(op[2])], 's'))
        else:
            out.append(op)
        if k == 'init':
            continue
        r = rng.random()
        if r < 0.045:
            out.append(['unexport', rng.randrange(nobj)])
        elif r < 0.10 and inited:
            out.append(['export', rng.choice(inited)])
        elif r < 0.24:
            out.append(extra_call(rng, nobj, ifnames, pnames))
    case = {'classes': classes, 'nobj': nobj, 'ctor': True, 'ops': out}
    # WHO serves the Properties interface: in some scenarios the most derived class takes a member away from the
    # library - `dbus_Get` / `dbus_Set` (a `dbus_<member>` method serves the member on EVERY interface), an undecorated
    # method under the NAME of the library's Get function (the decorator table takes functions by name from the
    # instance) - or a class redeclares the interface (without methods: its members are then unknown)
    r = rng.random()
    if r < 0.12:
        kinds = rng.sample(['dbus_Get', 'dbus_Set', 'libget-by-name'], rng.randrange(1, 3))
        case['hijack'] = [{'kind': kd, 'fid': 50 + n, 'ret': None if kd == 'dbus_Set' else
                           rng.choice([['S', 'hijacked'], ['I', 7], ['B', True], ['L', ['a', 'b']]])}
                          for n, kd in enumerate(kinds)]
    elif r < 0.17:
        classes[rng.randrange(len(classes))]['ifaces'].insert(0, {'name': PROPS, 'props': []})
    return case


# ----------------------------------------------------------------------------- the implementation side
def canon_sent(m, op, objidx):
    """One message the handler sent, as the driver prints it; read from its bytes."""
    from txdbus import message
    h = H17()
    try:
        ob = h.Obs(m)
    except Exception as e:      # noqa
        return 'unparseable:' + type(e).__name__, None
    if ob.kind == 'SignalMessage':
        return h.show_obs(ob, objidx), ob
    if ob.kind == 'ErrorMessage':
        n = ob.error_name or ''
        if n.startswith(PY_PREFIX) and n != PY_PREFIX + 'Exception':
            return 'errv %d %s' % (ob.reply_serial, opt_hex(ob.destination)), ob
        return 'err %s %d %s %s' % (hx(n), ob.reply_serial, opt_hex(ob.destination), hx(ob.text or '')), ob
    if ob.kind == 'MethodReturnMessage':
        w = message.parseMessage(m.rawMessage, [])
        pair = (op['iface'], op['member'])
        if w.signature is None and w.body is None:
            b = 'empty'
        elif pair == INTRO and w.signature == 's':
            b = 'xml'
        elif pair == MANAGED and w.signature == 'a{oa{sa{sv}}}':
            b = 'managed'
        elif w.signature == '':
            b = 'nobody'
        elif ob.value and ob.value[0] == 'V':
            b = 'v %s %s' % (hx(ob.value[1]), h.tok(ob.value[2]))
        elif ob.value and ob.value[0] == 'M':
            b = 'd %d' % len(ob.value[1]) + ''.join(' %s %s %s' % (hx(k), hx(e[1]), h.tok(e[2])) for k, e in ob.value[1])
        else:
            b = 'body?'
        return 'ret %d %s %s %s' % (ob.reply_serial, opt_hex(ob.destination), opt_hex(w.signature), b), ob
    return 'other:' + ob.kind, ob


def arg_tok(a, is_set_value):
    h = H17()
    if is_set_value:
        return 'v' + h.tok(h.plain(a))      # what the object receives (a tuple arrives as a list)
    if a[0] == 'S':
        return 's' + hx(a[1])
    return 'v' + h.tok(a)


def class_lines(case):
    h = H17()
    lines, nd = h.enc_case(dict(case, ops=[]))
    return ['p' + ln for ln in lines[:nd]]


class Run:
    """One case on the real code: implementation lines, model lines, monitor verdicts."""

    def __init__(self, case):
        self.case = case
        self.impl_lines, self.model_lines, self.problems = [], [], []
        self.stats = {}
        self.skipped = None

    def stat(self, k):
        self.stats[k] = self.stats.get(k, 0) + 1

    def make_user(self, fid, name, value):
        """A user method that records (function, instance) and returns `value`."""
        run = self

        def f(self, *args):
            run.invs.append((fid, len(args), self))
            return value
        f.__name__ = f.__qualname__ = name
        f._fid = fid
        return f

    def problem(self, key, what, k, observed=None, expected=None):
        self.problems.append((key, what, k, observed, expected))

    def run(self):
        from txdbus import marshal, message, objects
        from harness import c10 as C
        h = H17()
        case = self.case
        impl = h.Impl(case)
        if impl.failed is not None:
            self.skipped = impl.failed      # a declaration the library refuses: C17's subject
            return
        self.invs = []
        self.hijacked = {}
        for hj in case.get('hijack', []):
            name = hj['kind']
            if name == 'libget-by-name':
                lib = [n for n, f in vars(objects.DBusObject).items() if inspect.isfunction(f)
                       and L.deco_of_library(objects, f, C.LOC_NOTES) == (PROPS, 'Get')]
                if not lib:
                    continue
                name = lib[0]
            setattr(impl.cls, name, self.make_user(hj['fid'], name, h.to_py(hj['ret']) if hj['ret'] else None))
            self.hijacked[hj['fid']] = hj
        self.model_lines = class_lines(case) + ['pbase']
        self.impl_lines = ['ok'] + impl.decl_lines + [' '.join(C.Built.class_tokens(objects.DBusObject))]
        self.n_prefix = len(self.model_lines)
        exported = {}           # path -> True (exported) | None (an export raised: C16 decides what is visible)
        handler = impl.handler
        for k, op in enumerate(case['ops']):
            kind = op[0] if isinstance(op, list) else op['op']
            if kind == 'init':
                impl.run_op(op)
                self.impl_lines.append(None)
                self.model_lines.append(None)
                continue
            if kind == 'export':
                line, _, gone = impl.run_op(op)
                path = impl.paths[op[1]]
                if line == 'done':
                    exported[path] = True
                elif not gone:
                    exported[path] = None       # the export raised and the object is reachable: C16's question
                mro = [c for c in type(impl.objs[op[1]]).__mro__ if c is not object and c is not objects.DBusObject]
                toks = ['pexport', str(op[1]), hx(path), str(len(mro))]
                for c in mro:
                    toks += C.Built.class_tokens(c)
                self.model_lines.append(' '.join(toks))
                self.impl_lines.append(line)
                self.stat('op=export:' + line)
                continue
            if kind == 'unexport':
                path = impl.paths[op[1]]
                try:
                    handler.unexportObject(path)
                except KeyError:
                    pass
                exported.pop(path, None)
                self.model_lines.append('punexport ' + hx(path))
                self.impl_lines.append('none')
                self.stat('op=unexport')
                continue
            if kind == 'assign':
                line, _, _ = impl.run_op(op)
                self.model_lines.append('passign %d %s %s' % (op[1], hx(op[2]), h.enc_val(op[3])))
                self.impl_lines.append(line)
                self.stat('op=assign')
                continue
            # ---- a call
            path = op['path'] or impl.paths[op['o']]
            body = []
            for n, a in enumerate(op['body']):
                v = h.to_py(a)
                if op['member'] == 'Set' and op['sig'] == 'ssv' and n == 2 and op.get('wt') and op['wt'] in 'ybnqiuxtog':
                    v = h.wrapper_class(op['wt'])(v)
                body.append(v)
            raw = L.call_bytes(message, marshal, path, op['member'], iface=op['iface'], destination=':1.1',
                               sender=op['sender'], signature=op['sig'], body=body, expect_reply=op['expectReply'],
                               serial=op['serial'], notes=C.LOC_NOTES)
            msg = message.parseMessage(raw, [])
            n0 = len(impl.conn.sent)
            del self.invs[:]
            raised = None
            try:
                handler.handleMethodCallMessage(msg)
            except Exception as e:      # noqa: would escape dataReceived
                raised = e
            sent = impl.conn.sent[n0:]
            canon = [canon_sent(m, op, impl.objidx) for m in sent]
            parts = ['inv %d %d -' % (fid, na) for fid, na, _ in self.invs] + [c[0] for c in canon]
            line = ' | '.join(parts) if parts else 'none'
            for fid, na, inst in self.invs:
                # the method that ran is the one of the object exported at the addressed path
                if exported.get(path) is True and inst is not impl.objs[impl.paths.index(path)]:
                    self.problem('wrong-instance-run', 'a method of ANOTHER object than the one exported at %s ran' % path,
                                 k, line, path)
            if raised is not None:
                line += ' | RAISED ' + type(raised).__name__
            self.impl_lines.append(line)
            menc = None
            if (op['iface'], op['member']) == MANAGED and path in L.exports_of(handler, C.LOC_NOTES):
                menc = C.managed_probe(handler, path)
            is_set = op['member'] == 'Set' and op['sig'] == 'ssv'
            toks = ['pcall', hx(path), opt_hex(op['iface']), hx(op['member']), opt_hex(op['sig']), opt_hex(op['sender']),
                    str(op['serial']), '1' if op['expectReply'] else '0'] + C.enc_tokens(menc) + [str(len(op['body']))]
            toks += [arg_tok(a, is_set and n == 2) for n, a in enumerate(op['body'])]
            toks.append(str(len(self.hijacked)))
            for fid, hj in sorted(self.hijacked.items()):
                toks += [str(fid), 'N' if hj['ret'] is None else 'V' + h.tok(hj['ret'])]
            self.model_lines.append(' '.join(toks))
            self.monitor(k, op, path, exported, canon, raised, line)

    # ---- the monitor: from the property text, implementation only
    def monitor(self, k, op, path, exported, canon, raised, line):
        replies = [c for c in canon if c[1] is not None and c[1].kind in ('MethodReturnMessage', 'ErrorMessage')]
        desc = 'call %s.%s on %s (sig %r, expectReply=%s)' % (op['iface'], op['member'], path, op['sig'], op['expectReply'])
        for c in canon:
            if c[1] is None:
                self.problem('reply-unparseable', 'the bytes of a message sent for %s do not parse' % desc, k, line)
        for _, ob in replies:
            if ob.reply_serial != op['serial']:
                self.problem('reply-wrong-serial', 'REPLY_SERIAL %r on the wire for call serial %r (%s)'
                             % (ob.reply_serial, op['serial'], desc), k, ob.reply_serial, op['serial'])
            if ob.destination != op['sender']:
                self.problem('reply-wrong-destination', 'DESTINATION %r on the wire for call sender %r (%s)'
                             % (ob.destination, op['sender'], desc), k, ob.destination, op['sender'])
        if len(replies) > 1:
            self.problem('duplicate-reply', '%d replies to one %s' % (len(replies), desc), k, len(replies), '<= 1')
        # verdict of the statement for this call, from the scenario alone
        pair = (op['iface'], op['member'])
        state = exported.get(path, False)
        verdict = None
        if pair == PEER:
            verdict = 'builtin'
        elif pair == INTRO:
            below = any(state2 and p.startswith(path if path.endswith('/') else path + '/') for p, state2 in exported.items())
            if state or below:
                verdict = 'builtin'
            elif not any(v is None for v in exported.values()):
                verdict = 'unknown-object'
        elif state is None:
            verdict = None          # an export of this path raised: whether it is visible is C16's question
        elif state is False:
            verdict = 'unknown-object'
        elif pair == MANAGED:
            verdict = 'builtin'
        elif op['iface'] == PROPS and any(f['name'] == PROPS for c in self.case['classes'] for f in c['ifaces']):
            verdict = 'unknown-method'      # the redeclared Properties interface (it has no methods) comes first
        elif op['iface'] in (PROPS, None) and op['member'] in PROP_SIGS:
            verdict = 'run' if (op['sig'] or '') == PROP_SIGS[op['member']] else 'invalid-args'
        elif op['iface'] == PROPS or op['iface'] is None:
            verdict = 'unknown-method'      # (the generated classes declare no methods of their own)
        elif op['iface'] not in {f['name'] for c in self.case['classes'] for f in c['ifaces']}:
            verdict = 'unknown-method'
        else:
            verdict = 'unknown-method'      # an interface of the object without methods
        self.stat('verdict=%s' % verdict)
        if self.invs:
            self.stat('a user method served the Properties member (%s)' % self.hijacked[self.invs[0][0]]['kind'])
        for c in canon:
            if c[0].startswith('errv ') and c[1] is not None:
                # name and text of these replies are Python's: not compared with the model, counted here
                self.stat('errv class=' + (c[1].error_name or '')[len(PY_PREFIX):])
        self.stat('call=%s%s' % (op['member'] if op['iface'] in (PROPS, None) and op['member'] in PROP_SIGS else
                                 'builtin' if pair in (PEER, INTRO, MANAGED) else 'other',
                                 '' if op['expectReply'] else ' (no reply expected)'))
        if replies:
            self.stat('reply=' + replies[0][0].split(' ')[0] + (':' + H17().err_cat(replies[0][1])
                                                                if replies[0][1].kind == 'ErrorMessage' else ''))
        if verdict in LOOKUP and replies:
            ob = replies[0][1]
            if ob.kind != 'ErrorMessage' or ob.error_name != LOOKUP[verdict]:
                self.problem('wrong-lookup-error', 'expected %s, got %s for %s'
                             % (LOOKUP[verdict], ob.error_name or ob.kind, desc), k, ob.error_name or ob.kind, LOOKUP[verdict])
        if raised is not None:
            if op['expectReply']:
                self.problem('dispatcher-raised-no-reply', 'handleMethodCallMessage raised %s (%s) for %s: no reply is sent '
                             'although the call expects one, and the exception escapes into dataReceived'
                             % (type(raised).__name__, raised, desc), k, line, 'exactly one reply')
            return
        if op['expectReply']:
            if len(replies) == 0 and not any(c[1] is None for c in canon):
                self.problem('missing-reply', 'no reply to %s (verdict %s)' % (desc, verdict), k, line, 'exactly one reply')
        elif verdict == 'run' and replies:
            self.problem('reply-to-noreply-call', 'a call flagged NO_REPLY_EXPECTED was dispatched to its implementation '
                         'and answered (%s)' % desc, k, line, 'no reply')


def reduce_case(case, k):
    """The history up to operation k without the other calls (exports, assignments and Set calls stay: they make the state)."""
    ops = []
    for j, op in enumerate(case['ops'][:k + 1]):
        if isinstance(op, list) or j == k or op.get('member') == 'Set':
            ops.append(op)
    return dict(case, ops=ops)


def run_stream(ctx, stream, cases, with_model=True):
    runs, lines, spans = [], [], []
    for case in cases:
        r = Run(case)
        r.run()
        runs.append(r)
        if r.skipped is None:
            ml = [m for m in r.model_lines if m is not None]
            spans.append((len(lines), len(lines) + len(ml)))
            lines.extend(ml)
        else:
            spans.append(None)
    out = ctx.model(lines) if with_model else None
    n_calls = 0
    for r, span in zip(runs, spans):
        case = r.case
        if r.skipped is not None:
            ctx.stat('scenario skipped: declaration refused by the library (%s)' % r.skipped)
            continue
        ctx.impl_trace(len(case['ops']))
        for k, op in enumerate(case['ops']):
            kind = op[0] if isinstance(op, list) else 'call'
            if kind == 'init':
                continue
            ctx.case(stream, sample={'classes': repr(case['classes'])[:40], 'op': op}, nontrivial=kind == 'call')
            n_calls += kind == 'call'
        for key, n in r.stats.items():
            ctx.stat(key, n)
        if out is not None:
            mo = out[span[0]:span[1]]
            il = [x for x in r.impl_lines if x is not None]
            idx = [None] * r.n_prefix + [k for k, x in enumerate(r.impl_lines[r.n_prefix:]) if x is not None]
            for j, (m, i) in enumerate(zip(mo, il)):
                if m != i:
                    k = idx[j] if j < len(idx) else None
                    ctx.disagree(stream, {'case': reduce_case(case, k) if k is not None else case, 'op_index': k,
                                          'model_line': [x for x in r.model_lines if x is not None][j]}, m, i)
                    break
        seen = set()
        for (key, what, k, observed, expected) in r.problems:
            if key in seen:
                continue
            seen.add(key)
            ctx.violation(key, what, inp={'props_case': reduce_case(case, k)}, observed=observed, expected=expected)
    return n_calls
