"""C07 - the client speaks DBus only after the server's OK and never stalls in the handshake.

Correspondence + oracle harness.

The real `DBusClientConnection` (a recording subclass: the authenticator logs every line it is
handed, `connectionAuthenticated` logs itself, received binary data is only collected) sits on a
fake transport that does / does not provide `twisted.internet.interfaces.IUNIXTransport`.  Server
bytes arrive split into arbitrary reads.  The cookie lookup runs in temporary HOME directories
(`~/.dbus-keyrings` with different modes / owners / files); `os.urandom` and `getpass.getuser`
are replaced inside `txdbus.authentication` only.

S3: the canonical trace (N, R:<line>, S:<line>, C, A + final state) is compared with the Lean model
    (driver `run`); full handshakes against the reference server with the driver's `hs`.
S4: monitors written from the property statement, evaluated on the implementation's trace alone.
"""
import binascii
import hashlib
import itertools
import json
import os
import re
import shutil
import stat
import struct
import tempfile
import types

from twisted.internet import interfaces
from twisted.internet.testing import StringTransport
from zope.interface import directlyProvides, implementer, providedBy

STREAMS = ['lines-exhaustive', 'lines-random', 'lines-malformed', 'cookie-env', 'handshake-spec-server',
           'handshake-sequence', 'own-bus-handshake', 'handshake-interleaved', 'kind-flip-sequence', 'history-repeat',
           'non-ascii-user']
THEOREMS = ['begin_only_after_ok', 'begin_only_after_ok_of_current_mechanism', 'authenticated_iff_begin',
            'mechanisms_once_in_order', 'moves_on_after_rejected_or_error', 'no_stall', 'no_stall_run',
            'no_complete_line_buffered', 'framing_independent_of_reads', 'line_delivered_in_pieces',
            'exhaustion_closes', 'unknown_line_closes', 'silent_after_close',
            'completes_against_spec_server', 'completes_against_spec_server_bytes', 'handlerWords_table',
            'own_bus_handshake_completes', 'own_bus_handshake_progress', 'own_bus_handshake_terminates',
            'own_bus_handshake_always_completes', 'own_bus_no_early_binary_partial', 'own_bus_reachable_safe_partial',
            'own_bus_line_mode_binary_empty', 'own_bus_bus_is_c06_run', 'own_bus_bus_authenticated_only_after_accept',
            'own_bus_begin_only_after_bus_ok', 'own_bus_expected_mechanism_unfolded', 'driver_sha1_length',
            'own_bus_cookie_when_shared_keyring',
            'own_bus_cookie_requires']
TRUSTED_BASE = [
    'bytes.split/strip, binascii.hexlify/unhexlify, getattr dispatch on "_auth_"+cmd (mirrored by hand; validated by the streams)',
    'hashlib.sha1 (model: parameter; driver: Lean SHA-1 validated by the cookie streams), os.urandom, getpass, os.stat, open: explicit inputs',
    'Twisted: an exception escaping dataReceived loses the connection (canonicalised as close)',
    'Auth/SpecServerRef.lean: the reference server is a transcription of the DBus specification server states',
    "Auth/Handshake2.lean (own-bus-handshake): `envOf` - how the client's cookie environment is derived from the bus's world "
    '(os.stat of a keyring directory the bus created: 0o40700, chowned to the user when the bus is root; the cookie file as '
    '`_create_cookie` writes it; os.urandom as one shared counted source) is mirrored by hand and validated by the stream; '
    "the bus model itself (Auth/Server*.lean, Mechs.lean) is C06's",
]
ASSUMPTIONS = [
    'any exception escaping dataReceived (e.g. UnicodeDecodeError for a command word that is not UTF-8) makes Twisted '
    'drop the connection: it counts as "closes" in model and oracle; its type is recorded in the distribution',
    'the user name is ASCII and getpass.getuser() succeeds',
    'cookie context names: every kind is generated (absolute, "..", with "/", "\\", ".", non-ASCII); the harness never '
    'opens a path outside its scratch keyrings (txdbus.authentication.open is guarded); files inside are regular files, '
    'so reading them terminates (Env.file is total in the model)',
    'completion for the DBUS_COOKIE_SHA1-only server requires a usable keyring (0700-like directory owned by the user, cookie present)',
    '"valid hexadecimal GUID" = the first argument of OK is a non-empty even number of hex digits; its length is not '
    'demanded (reference servers send 32 digits)',
    'the oracle is silent where the statement is: a last line before closing, skipped mechanisms (order-preserving '
    'selection without repetition), loseConnection called more than once are accepted',
    'own-bus-handshake: client and bus run on one machine (one passwd, one file system, one os.urandom); the bus GUID is 32 hex '
    'digits; every line fits 16384 bytes (hypotheses `Hyp` of the composition theorems); a fall-back to a LATER mechanism than '
    'the environment allows is a violation, an earlier one only a model/implementation disagreement',
]
RULE = ('a case = (transport kind, keyring environment, list of reads); distinct = distinct canonical JSON; '
        'non-trivial = at least one server line reaches handleAuthMessage')

CRLF = b'\r\n'
SERVER_WORDS = (b'REJECTED', b'OK', b'DATA', b'ERROR', b'AGREE_UNIX_FD')
HEXDIGITS = b'0123456789abcdefABCDEF'
RND = bytes([1, 2, 3, 4, 5, 6, 7, 8])
FIRST_K = 400        # the first cases of a run are run again at its end (repeat oracle)


def hx(b):
    return binascii.hexlify(bytes(b)).decode() if b else '-'


def unhx(s):
    return b'' if s == '-' else binascii.unhexlify(s)


# --------------------------------------------------------------------------------------------
# keyring environments
class KeyEnv:
    def __init__(self, name, home, user, files, rnd):
        self.name, self.home, self.user, self.files, self.rnd = name, home, user, files, rnd
        d = os.path.join(home, '.dbus-keyrings')
        try:
            st = os.stat(d)
            self.dir = '%d:%d' % (st.st_mode, 1 if st.st_uid == os.geteuid() else 0)
            self.usable = not (st.st_mode & 0o066) and st.st_uid == os.geteuid()
        except OSError:
            self.dir = 'none'
            self.usable = False

    def urandom(self, n):
        return (self.rnd * n)[:n]

    def driver_tokens(self):
        toks = [hx(self.user.encode('ascii')), self.dir, hx(self.rnd), str(len(self.files))]
        for k in sorted(self.files):
            v = self.files[k]
            toks += [hx(k), '!' if v is None else hx(v)]
        return toks


GOOD_FILES = {
    b'ctxa': b'1 100 aabbcc\n7 200 c00c1e\n',
    # the wanted cookie (id 7) after a blank, a half-written, a four-field and a one-field line
    b'ctxc': b'\n5 1\n6 1 2 3\nx\n7 200 c00c1e\n8 300 dd\n',
    # ... before such lines, last line unterminated; an earlier line with the id as a later field
    b'ctxd': b'3 7 7\n7 200 c00c1e\ngarbage\n\n9 9',
    # ... surrounded by blanks and tabs, CRLF line ends
    b'ctxe': b' \t\r\n\t7\t200  c00c1e \r\n',
    b'ctxb': b'garbage\n7 1 2 3\n\n 9\t123\tfeed \r\n7 9 dead\n7 10 beef',
    b'ctxdir': None,      # a directory: open() raises
}


def build_envs(tmp):
    envs = {}

    def mk(name, mode=None, owner=None, user='root', files=GOOD_FILES, rnd=RND):
        home = os.path.join(tmp, name)
        os.mkdir(home)
        if mode is not None:
            d = os.path.join(home, '.dbus-keyrings')
            os.mkdir(d)
            for k, v in files.items():
                p = os.path.join(d, k.decode('ascii'))
                if v is None:
                    os.mkdir(p)
                else:
                    with open(p, 'wb') as f:
                        f.write(v)
            os.chmod(d, mode)
            if owner is not None:
                os.chown(d, owner, owner)
        envs[name] = KeyEnv(name, home, user, files if mode is not None else {}, rnd)

    mk('good', 0o700)
    mk('good711', 0o711, user='testuser', rnd=b'\xff' * 8)
    mk('nodir')
    mk('perm777', 0o777)
    mk('perm740', 0o740)
    if os.geteuid() == 0:
        mk('notowned', 0o700, owner=4242)
    return envs


# --------------------------------------------------------------------------------------------
# the implementation under observation
class World:
    """Recording subclasses of the real classes of the repository under test + patched module globals."""

    def __init__(self):
        from txdbus import authentication, client, protocol
        self.authentication, self.client, self.protocol = authentication, client, protocol
        world = self

        class ClientAuthenticator(authentication.ClientAuthenticator):   # same name: exception texts mention it
            def beginAuthentication(self, proto):
                proto._vauth = self
                return super().beginAuthentication(proto)

            def handleAuthMessage(self, line):
                self.protocol._vlog.append(('R', bytes(line)))
                return super().handleAuthMessage(line)

        class Conn(client.DBusClientConnection):
            authenticator = ClientAuthenticator

            def connectionAuthenticated(self):
                self._vlog.append(('A',))
                super().connectionAuthenticated()

            def rawDBusMessageReceived(self, raw):
                self._vraw.append(bytes(raw))

        self.Conn = Conn
        self._conn_classes = {}
        self._ClientAuthenticator = ClientAuthenticator
        self.preference = list(authentication.ClientAuthenticator.preference)
        # every `_auth_<WORD>` handler the class has (today the five server words): all of them are put
        # into the line alphabets, so a handler for a word outside the protocol is exercised too
        self.handler_words = sorted(n[6:].encode() for n in dir(authentication.ClientAuthenticator)
                                    if n.startswith('_auth_'))
        self.env = None
        self.current = None          # the Session whose code is running (its environment is `env`)
        self.scenario_inputs = {}    # violation key -> a several-connection scenario in which it was seen
        self.escapes = []

        def guarded_open(path, *a, **kw):
            """`open` as seen by txdbus.authentication: a path that leaves the keyring directory of the
            current environment is recorded and refused - nothing outside the scratch keyrings is ever
            opened (a FIFO or a device there would block the process)."""
            roots = [os.path.realpath(r) for r in
                     (getattr(world.env, 'keyrings', None) or [os.path.join(world.env.home, '.dbus-keyrings')])]
            try:
                real = os.path.realpath(os.fspath(path))
            except (TypeError, ValueError):
                real = None
            if real is None or not any(real == k or real.startswith(k + os.sep) for k in roots):
                cur = getattr(world, 'current', None)
                (cur.escapes if cur is not None else world.escapes).append(
                    os.fsdecode(path) if isinstance(path, (bytes, str)) else repr(path))
                raise PermissionError(13, 'refused by the harness', path)
            return open(path, *a, **kw)

        authentication.open = guarded_open

        class OsProxy:
            def __getattr__(self, name):
                return getattr(os, name)

            def urandom(self, n):
                return world.env.urandom(n)

            def geteuid(self):
                e = world.env
                return e.geteuid() if hasattr(e, 'geteuid') else os.geteuid()

            def mkdir(self, path, *a, **kw):
                os.mkdir(path, *a, **kw)
                if hasattr(world.env, 'after_mkdir'):
                    world.env.after_mkdir(path)

        class GetPass:
            def getuser(self):
                return world.env.user

        # `getpass` is replaced by the test suite the same way (pinned); `os` is an unpinned module global: every
        # global of txdbus.authentication that IS the os module gets the proxy, and os.urandom itself is
        # replaced too, so that a differently imported urandom still yields the environment's bytes
        self._saved_os = [(k, v) for k, v in vars(authentication).items() if v is os]
        for k, _ in self._saved_os:
            setattr(authentication, k, OsProxy())
        self._real_urandom = os.urandom
        os.urandom = lambda n: world.env.urandom(n) if world.env is not None else self._real_urandom(n)
        self._saved = (None, getattr(authentication, 'getpass', None))
        authentication.getpass = GetPass()
        self._home = os.environ.get('HOME')

    def set_env(self, env):
        self.env = env
        self.escapes = []
        os.environ['HOME'] = env.home

    def conn_for(self, pref):
        """The connection class for a preference list (None: the class's own list)."""
        if pref is None:
            return self.Conn
        key = tuple(pref)
        if key not in self._conn_classes:
            auth = type('ClientAuthenticator', (self._ClientAuthenticator,), {'preference': list(pref)})
            self._conn_classes[key] = type('Conn', (self.Conn,), {'authenticator': auth})
        return self._conn_classes[key]

    def restore(self):
        for k, v in self._saved_os:
            setattr(self.authentication, k, v)
        os.urandom = self._real_urandom
        if self._saved[1] is not None:
            self.authentication.getpass = self._saved[1]
        try:
            del self.authentication.open
        except AttributeError:
            pass
        if self._home is None:
            os.environ.pop('HOME', None)
        else:
            os.environ['HOME'] = self._home


class FakeTransport(StringTransport):
    def __init__(self, log):
        StringTransport.__init__(self)
        self._vlog = log

    def write(self, data):
        self._vlog.append(('w', bytes(data)))

    def writeSequence(self, seq):
        self._vlog.append(('ws', tuple(bytes(x) for x in seq)))

    def loseConnection(self):
        self._vlog.append(('C',))
        self.disconnecting = True


@implementer(interfaces.IUNIXTransport)
class FakeUnixTransport(FakeTransport):
    def sendFileDescriptor(self, fd):
        self._vlog.append(('fd', fd))


ERR_KINDS = [
    ('Odd-length string', 'oddLength'),
    ('Non-hexadecimal digit found', 'nonHex'),
    ('Invalid cookie context name', 'badContext'),
    ('not enough values to unpack', 'arity'),
    ('too many values to unpack', 'arity'),
    ('writeable by other users', 'perms'),
    ('not owned by the current user', 'owner'),
    ("codec can't decode", 'ctxAscii'),
    ('NoneType found', 'noCookie'),
    ('embedded null byte', 'openFile'),
]


def error_kind(text):
    t = text.decode('ascii', 'replace')
    for frag, kind in ERR_KINDS:
        if frag in t:
            return kind
    if '[Errno' in t:
        return 'stat' if re.search(r"\.dbus-keyrings'$", t) else 'openFile'
    return 'other(' + t[:80] + ')'


class Session:
    """One client connection of the real code on a fake transport."""

    def __init__(self, world, unix, env, pref=None, ukind='class', tclass=None):
        self.world = world
        self.env = env                 # the environment of THIS connection (activated around every entry into its code)
        self.escapes = []              # paths outside the keyring this connection tried to open
        self.activate()
        self.log = []
        if tclass is not None:
            # `fresh`: a transport class of the scenario's own; whether an instance provides IUNIXTransport is decided
            # per instance (two connections of one scenario use the same class with different answers)
            self.t = tclass(self.log)
            if unix:
                self.t.sendFileDescriptor = lambda fd, log=self.log: log.append(('fd', fd))
                directlyProvides(self.t, interfaces.IUNIXTransport, providedBy(self.t))
        elif unix and ukind == 'instance':
            # a UNIX transport that provides the interface on the INSTANCE (zope directlyProvides - what
            # twisted.protocols.policies.ProtocolWrapper does for a wrapped UNIX transport), not on its class
            self.t = FakeTransport(self.log)
            self.t.sendFileDescriptor = lambda fd, log=self.log: log.append(('fd', fd))
            directlyProvides(self.t, interfaces.IUNIXTransport, providedBy(self.t))
        else:
            self.t = (FakeUnixTransport if unix else FakeTransport)(self.log)
        self.p = world.conn_for(pref)()
        self.p._vlog = self.log
        self.p._vraw = []
        self.p._vauth = None
        self.crash = None
        self.connect_crash = None
        self.delivered = b''
        self.undispatched = None     # (read index, complete lines delivered, lines handed over) at the first lag
        self.reads = 0
        try:
            self.p.makeConnection(self.t)
        except Exception as e:
            # an exception out of connectionMade: Twisted drops the connection.  Recorded as "closes" (the monitors then
            # judge a connection that offered no mechanism); never a harness traceback that hides the case
            self.connect_crash = self.crash = type(e).__name__
            self.log.append(('C',))
            self.t.disconnecting = True

    def activate(self):
        """Make this connection's environment the one `txdbus.authentication` sees (HOME, getpass, os.urandom, open)."""
        self.world.current = self
        if self.world.env is not self.env:
            self.world.set_env(self.env)

    def feed(self, data):
        was_line_mode = not self.p._authenticated
        self._feed(data)
        self.reads += 1
        if was_line_mode:
            self.delivered += data
        # every complete line delivered so far (whatever the reads were) must have reached the
        # authenticator, unless the connection was closed or the handshake is over
        if self.undispatched is None and not self.p._authenticated and not self.t.disconnecting:
            complete = self.delivered.count(CRLF)
            handed = sum(1 for e in self.log if e[0] == 'R')
            if handed < complete:
                self.undispatched = (self.reads, complete, handed)

    def _feed(self, data):
        self.activate()
        try:
            self.p.dataReceived(data)
        except Exception as e:
            # Twisted: an exception escaping dataReceived loses the connection - whatever its type, the
            # outcome for the statement is "the connection is closed" (the type is recorded in the evidence)
            self.crash = type(e).__name__
            self.log.append(('C',))
            self.t.disconnecting = True

    def events(self, raw=False):
        """Canonical events.  What the client wrote is rebuilt as one byte stream (write and writeSequence
        alike): an optional leading NUL, then lines up to and including BEGIN, then binary data.  Returns
        (events, binary data seen before any BEGIN).  raw=True keeps the text of the client's ERROR lines
        (otherwise reduced to the failure kind)."""
        evs = []
        pending = b''
        begun = False
        started = False
        for e in self.log:
            if e[0] == 'A':
                evs.append('A')
            elif e[0] == 'C':
                evs.append('C')
            elif e[0] == 'R':
                evs.append('R:' + hx(e[1]))
            elif e[0] in ('w', 'ws'):
                data = e[1] if e[0] == 'w' else b''.join(e[1])
                if begun:
                    continue                       # binary phase (Hello ...)
                if not started:
                    started = True
                    if data[:1] == b'\0':
                        evs.append('N')
                        data = data[1:]
                pending += data
                while CRLF in pending and not begun:
                    line, pending = pending.split(CRLF, 1)
                    if line == b'BEGIN':
                        begun = True
                    if line.startswith(b'ERROR ') and not raw:   # only the cookie step writes ERROR: keep the kind
                        line = b'ERROR ' + error_kind(line[6:]).encode()
                    evs.append('S:' + hx(line))
        # bytes written in line mode that never became a line (e.g. a message sent before BEGIN)
        return evs, (pending if not begun else b'')

    def final(self):
        p, a = self.p, self.p._vauth
        authed = bool(p._authenticated)
        if authed:
            buf, binary = b'', b''.join(p._vraw) + p._buffer
        else:
            buf, binary = p._buffer, b''
        guid = a.getGUID() if a is not None else None
        return ('auth=%d disc=%d buffer=%s binary=%s guid=%s'
                % (authed, bool(self.t.disconnecting), hx(buf), hx(binary),
                   'none' if guid is None else hx(guid)))

    def canonical(self):
        evs, _ = self.events()
        return ' '.join(evs) + ' | ' + self.final()


def case_pref(case):
    return [unhx(m) for m in case['pref']] if case.get('pref') is not None else None


def run_impl(world, case, envs):
    s = Session(world, case['unix'], envs[case['env']], case_pref(case), ukind=case.get('ukind', 'class'))
    for c in case['chunks']:
        s.feed(unhx(c))
    return s


def driver_line(case, envs):
    env = envs[case['env']]
    head = ['run']
    if case.get('pref') is not None:
        head = ['runp', str(len(case['pref']))] + list(case['pref'])
    return ' '.join(head + ['1' if case['unix'] else '0'] + env.driver_tokens()
                    + [str(len(case['chunks']))] + list(case['chunks']))


# --------------------------------------------------------------------------------------------
# property oracle (implementation only)
def split_cmd(line):
    if b' ' not in line:
        return line, b''
    return tuple(line.split(b' ', 1))


def valid_guid(args):
    """`OK <guid>`: the argument (blanks around it removed, as `bytes.strip()` does) is a non-empty string of
    even length that consists solely of hexadecimal digits.  White space INSIDE the argument (`OK 12 34`,
    `OK 12\\t34`), an odd number of digits, any other character, or no argument at all is not a GUID.
    (This is inside what the unchanged code accepts: `binascii.unhexlify(line.strip())`.)"""
    a = args.strip()
    return len(a) > 0 and len(a) % 2 == 0 and all(c in HEXDIGITS for c in a)


def is_subsequence_without_repetition(xs, ys):
    if len(set(xs)) != len(xs):
        return False
    it = iter(ys)
    return all(any(x == y for y in it) for x in xs)


def monitor(world, unix, evs, early_binary, pref=None):
    """Returns a list of (key, what) for every part of the statement that the trace breaks.  Written from
    the statement only; where the statement is silent the monitor is silent (a client may write a last
    line before closing, may skip mechanisms, may close where it could have gone on only if nothing is left)."""
    out = []
    pref = list(world.preference if pref is None else pref)
    ev = [(e[:1], unhx(e[2:]) if e[:2] in ('R:', 'S:') else None) for e in evs]
    ok_seen = neg_after_ok = fd_answer = False
    ok_ever = False
    bad_ok = None        # an OK line whose argument is not a GUID, received for the mechanism in progress
    auth_sent = []
    begins = 0
    a_seen = False
    last_r = None
    for i, (k, line) in enumerate(ev):
        if k == 'R':
            cmd, args = split_cmd(line)
            if cmd == b'OK' and valid_guid(args):
                ok_seen = ok_ever = True
            elif cmd == b'OK' and args.strip():
                bad_ok = line             # an argument is there, but it is not a GUID (no argument at all: begin-without-ok)
            pending_fd = unix and neg_after_ok and not fd_answer
            if cmd in (b'AGREE_UNIX_FD', b'ERROR') and neg_after_ok:
                fd_answer = True
            last_r = (cmd, args)
            # reaction to this line: everything up to the next R
            j = i + 1
            react = []
            while j < len(ev) and ev[j][0] != 'R':
                react.append(ev[j])
                j += 1
            kinds = [r[0] for r in react]
            if not any(x in ('S', 'C', 'A') for x in kinds):
                mech = auth_sent[-1] if auth_sent else b'?'
                if cmd == b'DATA':
                    key = ('data-during-anonymous-stalls' if mech == b'ANONYMOUS'
                           else 'data-unanswered-' + mech.decode('ascii', 'replace').lower())
                else:
                    key = 'stall-after-' + cmd.decode('ascii', 'replace')[:20]
                out.append((key, 'server line %r (current mechanism %r) is neither answered nor closes the '
                                 'connection: the handshake stalls' % (line[:60], mech)))
            if cmd not in SERVER_WORDS and 'C' not in kinds:
                out.append(('unknown-line-does-not-close',
                            'a line outside the protocol (%r) does not close the connection' % (line[:60],)))
            moving = cmd == b'REJECTED' or (cmd == b'ERROR' and not pending_fd)
            exhausted = set(pref) <= set(auth_sent)
            if moving and exhausted and 'C' not in kinds:
                out.append(('exhausted-does-not-close',
                            '%r after every mechanism was offered does not close the connection' % (cmd,)))
            # "moves on after REJECTED or ERROR": only demanded when the client followed the list so far
            # (no mechanism skipped) and the server did not exclude everything that is left
            if moving and not exhausted and auth_sent == pref[:len(auth_sent)]:
                left = pref[len(auth_sent):]
                offered_by_server = args.split() if cmd == b'REJECTED' else []
                may_skip = bool(offered_by_server) and not any(m in offered_by_server for m in left)
                nxt = [split_cmd(r[1])[1].split(b' ')[0] for r in react
                       if r[0] == 'S' and split_cmd(r[1])[0] == b'AUTH']
                if not may_skip and not any(m in left for m in nxt):
                    out.append(('does-not-move-on-after-' + cmd.decode().lower(),
                                '%r while %r have not been tried: the client does not offer another mechanism (%s)'
                                % (cmd, left, 'it closes' if 'C' in kinds else 'no AUTH line')))
        elif k == 'S':
            if a_seen:
                out.append(('auth-line-after-begin', 'the client writes the line %r after BEGIN' % (line[:40],)))
            cmd, args = split_cmd(line)
            if cmd == b'AUTH':
                auth_sent.append(args.split(b' ')[0] if args else b'')
                # a new mechanism is offered: an earlier OK (and negotiation) no longer counts
                ok_seen = neg_after_ok = fd_answer = False
                bad_ok = None
            if cmd == b'NEGOTIATE_UNIX_FD' and ok_seen:
                neg_after_ok = True
            if line == b'BEGIN':
                begins += 1
                if not ok_seen:
                    if bad_ok is not None:
                        out.append(('begin-after-ok-with-invalid-guid',
                                    'BEGIN is sent on the strength of %r: its argument is not a hexadecimal GUID '
                                    '(a GUID is a non-empty, even number of hex digits and nothing else)'
                                    % (bad_ok[:60],)))
                    elif ok_ever:
                        out.append(('begin-after-ok-of-abandoned-mechanism',
                                    'BEGIN is sent on the strength of an OK that was followed by another AUTH '
                                    '(the server has not accepted the mechanism in progress)'))
                    elif last_r and last_r[0] == b'AGREE_UNIX_FD':
                        out.append(('agree-unix-fd-before-ok-begins',
                                    'AGREE_UNIX_FD without a preceding OK makes the client send BEGIN'))
                    else:
                        out.append(('begin-without-ok', 'BEGIN is sent although the server never sent OK <hex guid>'))
                elif unix and not (neg_after_ok and fd_answer):
                    out.append(('begin-without-fd-answer',
                                'on a UNIX transport BEGIN is sent before the descriptor negotiation was answered'))
        elif k == 'A':
            a_seen = True
            if begins == 0:
                out.append(('authenticated-without-begin', 'connectionAuthenticated() runs although BEGIN was not sent'))
    # what the client does by itself at connect time: its first line offers the first mechanism of its list (nothing
    # the server said can have excluded it yet); a connection that offers nothing cannot complete any handshake
    if pref:
        first_s = next((line for k, line in ev if k == 'S'), None)
        if first_s is None:
            out.append(('no-auth-offered-at-connect',
                        'the client wrote no AUTH line at all on this connection (preference list %r): it offers no '
                        'mechanism and the handshake cannot start' % (pref,)))
        else:
            cmd, args = split_cmd(first_s)
            if cmd != b'AUTH' or args.split(b' ')[0] != pref[0]:
                out.append(('first-auth-not-preferred-mechanism',
                            'the first line of the connection is %r; the preference list %r starts with %r'
                            % (first_s[:60], pref, pref[0])))
    if not is_subsequence_without_repetition(auth_sent, pref):
        out.append(('mechanisms-not-in-preference-order',
                    'mechanisms offered %r are not an order-preserving, repetition-free selection from the '
                    'preference list %r' % (auth_sent, pref)))
    if a_seen != (begins > 0):
        out.append(('authenticated-flag-differs-from-begin',
                    'BEGIN sent %d times but connectionAuthenticated %s: the client does not switch to binary '
                    'messages after BEGIN' % (begins, 'ran' if a_seen else 'never ran')))
    if early_binary:
        out.append(('binary-before-begin', 'data that is not a handshake line is written before BEGIN: %r'
                    % (early_binary[:40],)))
    return out


def judge(ctx, world, stream, case, envs, model_out):
    s = run_impl(world, case, envs)
    impl = s.canonical()
    evs, early = s.events()
    ctx.impl_trace()
    fc = getattr(world, 'first_canon', None)
    if fc is not None and len(fc) < FIRST_K:
        fc.setdefault(json.dumps(case, sort_keys=True), (case, impl))
    if s.crash:
        ctx.stat('exception-out-of-dataReceived:' + s.crash)
    nlines = sum(1 for e in evs if e.startswith('R:'))
    ctx.case(stream, sample=case, nontrivial=nlines > 0)
    if model_out is not None and model_out != impl:
        ctx.disagree(stream, case, model_out, impl)
    for key, what in monitor(world, case['unix'], evs, early, case_pref(case)):
        ctx.violation(key, what, inp=dict(case, kind='run'), observed=impl,
                      expected='see the property statement of C07')
    if s.escapes:
        ctx.violation('cookie-context-escapes-keyring',
                      'a cookie context name sent by the server makes the client open %r, outside its keyring '
                      'directory (a FIFO or a device there blocks dataReceived forever: the handshake stalls)'
                      % (s.escapes[0],),
                      inp=dict(case, kind='run'), observed=impl,
                      expected='ERROR for a context name that is not a plain file name; no file opened')
    judge_splitting(ctx, world, case, envs, s, impl)
    return s, evs


def collapse_closes(canon_text):
    """loseConnection may be called once per read once the limit is exceeded: keep the first."""
    evs, _, final = canon_text.partition(' | ')
    out, closed = [], False
    for e in evs.split(' '):
        if e == 'C':
            if closed:
                continue
            closed = True
        out.append(e)
    return ' '.join(out) + ' | ' + final


def judge_splitting(ctx, world, case, envs, s, impl):
    """Implementation only: (a) after every read, each complete line delivered so far has been handed to
    the authenticator (else the client sits on a line the server is waiting to be answered: a stall);
    (b) the same bytes in one read give the same outcome."""
    if s.undispatched is not None:
        rd, complete, handed = s.undispatched
        ctx.violation('complete-line-not-dispatched',
                      'after read %d the client has received %d complete server lines but handled only %d: '
                      'a line sits in the buffer unanswered (the handshake stalls under this splitting)'
                      % (rd, complete, handed),
                      inp=dict(case, kind='run'), observed=impl,
                      expected='every complete line is answered, whatever the splitting into reads')
    if len(case['chunks']) > 1:
        whole = dict(case, chunks=[hx(b''.join(unhx(c) for c in case['chunks']))])
        w = run_impl(world, whole, envs).canonical()
        if collapse_closes(w) != collapse_closes(impl):
            ctx.violation('outcome-depends-on-read-splitting',
                          'the same server bytes give a different outcome when split into %d reads'
                          % len(case['chunks']),
                          inp=dict(case, kind='run'), observed=impl, expected=w)


# --------------------------------------------------------------------------------------------
# generators
def cookie_payload(ctxname=b'ctxa', cid=b'7', chal=b'feedface'):
    return binascii.hexlify(ctxname + b' ' + cid + b' ' + chal)


BASE_ALPHABET = [
    b'REJECTED',
    b'OK 1234deadbeef',
    b'OK',
    b'OK zz',
    b'OK  ',                      # the argument is one blank: no GUID
    b'OK 12 34',                  # hex pairs with white space inside: not a GUID
    b'AGREE_UNIX_FD',
    b'ERROR',
    b'DATA',
    b'DATA ' + cookie_payload(),
    b'BOGUS',
    b'',
]

RICH_ALPHABET = BASE_ALPHABET + [
    b'REJECTED EXTERNAL DBUS_COOKIE_SHA1 ANONYMOUS',
    b'ERROR "Unknown command"',
    b'OK  1234DEADBEEF ',
    b'OK\t1234',
    b'OK 123',
    b'OK 12\t34',
    b'OK 1234 deadbeef',
    b'OK ab cd ef 01',
    b'OK 12\n34',
    b'OK 12\x0b34',
    b'OK 12\x0c34 ',
    b'OK 12\r34',
    b'OK 1234 5',
    b'OK 6abbe624c672777b d87ab46e00027706',
    b'OK 1 2',
    b'OK 0x12',
    b'OK 12,34',
    b'OK ',
    b'OK   ',
    b'OK \t',
    b'OK \t \x0b\x0c ',
    b'OK  \r',
    b'OK \n',
    b'OK \x00',
    b'OK\t',
    b'ok 1234',
    b'AGREE_UNIX_FD extra',
    b' OK 1234',
    b'DATA 12',
    b'DATA zz',
    b'DATA 123',
    b'DATA ' + cookie_payload(b'ctxb', b'7'),
    b'DATA ' + cookie_payload(b'ctxb', b'9'),
    b'DATA ' + cookie_payload(b'ctxa', b'99'),
    b'DATA ' + cookie_payload(b'ctxc', b'7'),
    b'DATA ' + cookie_payload(b'ctxc', b'8'),
    b'DATA ' + cookie_payload(b'ctxc', b'6'),
    b'DATA ' + cookie_payload(b'ctxd', b'7'),
    b'DATA ' + cookie_payload(b'ctxd', b'9'),
    b'DATA ' + cookie_payload(b'ctxd', b'3'),
    b'DATA ' + cookie_payload(b'ctxe', b'7'),
    b'DATA ' + cookie_payload(b'missing', b'7'),
    b'DATA ' + cookie_payload(b'ctxdir', b'7'),
    b'DATA ' + cookie_payload(b'ct\xffx', b'7'),
    b'DATA ' + binascii.hexlify(b'ctxa 7'),
    b'DATA ' + binascii.hexlify(b'ctxa 7 aa bb'),
    b'DATA ' + binascii.hexlify(b' ctxa\t7\n aa '),
    b'DATA  ' + cookie_payload().upper() + b' ',
    b'BEGIN',
    b'CANCEL',
    b'AUTH EXTERNAL',
    b'NEGOTIATE_UNIX_FD',
    b'OKAY 1234',
    b'REJECTEDX',
    b'_auth_OK 1234',
    b'GetDBusCookie',
    b'\r',
    b'OK 1234\r',
    b'\nOK 1234',
    # cookie context names that are not plain file names (never opened: see World.guarded_open)
    b'DATA ' + cookie_payload(b'/etc/hostname', b'7'),
    b'DATA ' + cookie_payload(b'..', b'7'),
    b'DATA ' + cookie_payload(b'.', b'7'),
    b'DATA ' + cookie_payload(b'../good/.dbus-keyrings/ctxa', b'7'),
    b'DATA ' + cookie_payload(b'sub/ctxa', b'7'),
    b'DATA ' + cookie_payload(b'ctx.a', b'7'),
    b'DATA ' + cookie_payload(b'.ctxa', b'7'),
    b'DATA ' + cookie_payload(b'ct\\xa', b'7'),
    # GUIDs of the real size and beyond, upper case
    b'OK 6abbe624c672777bd87ab46e00027706',
    b'OK 6ABBE624C672777BD87AB46E00027706',
    b'OK 6abbe624c672777bd87ab46e0002770',
    b'OK ' + b'6abbe624c672777bd87ab46e00027706' * 2,
    b'OK 6abbe624c672777bd87ab46e00027706 extra',
    # words that are valid UTF-8 but not ASCII
    'OK\u00e9 1234'.encode('utf-8'),
    '\u00d6K 1234'.encode('utf-8'),
    'REJECTED\u2028'.encode('utf-8'),
    'D\u0410TA'.encode('utf-8'),
]

# forms that keep the conversation going (drawn with a higher weight in the random stream)
NONCLOSING = [
    b'REJECTED', b'ERROR', b'DATA', b'DATA ' + cookie_payload(), b'OK 6abbe624c672777bd87ab46e00027706',
    b'REJECTED EXTERNAL DBUS_COOKIE_SHA1 ANONYMOUS', b'ERROR "Unknown command"', b'DATA zz',
    b'DATA ' + cookie_payload(b'ctxb', b'9'), b'DATA ' + cookie_payload(b'/etc/hostname', b'7'),
    b'OK  1234DEADBEEF ', b'AGREE_UNIX_FD',
]

NON_UTF8 = [b'\xff\xfe', b'OK\xff 1234', b'\xc3\x28 x']


def chunkings(rng, data, n):
    """n random splittings of data into reads (including the whole and byte-by-byte around CRLF)."""
    outs = []
    for _ in range(n):
        mode = rng.randrange(5)
        if mode == 0 or len(data) < 2:
            outs.append([data])
        elif mode == 1:
            cuts = sorted(set(rng.randrange(1, len(data)) for _ in range(rng.randrange(1, 6))))
            outs.append([data[a:b] for a, b in zip([0] + cuts, cuts + [len(data)])])
        elif mode == 2:
            # cut inside every delimiter
            parts, cur = [], b''
            for i in range(len(data)):
                cur += data[i:i + 1]
                if data[i:i + 1] == b'\r':
                    parts.append(cur)
                    cur = b''
            if cur:
                parts.append(cur)
            outs.append(parts)
        elif mode == 3:
            lines = data.split(CRLF)
            parts = [l + CRLF for l in lines[:-1]] + ([lines[-1]] if lines[-1] else [])
            outs.append(parts or [b''])
        else:
            k = rng.randrange(1, 4)
            outs.append([data[i:i + k] for i in range(0, len(data), k)])
    return outs


def mk_case(unix, env, chunks, pref=None):
    c = {'unix': bool(unix), 'env': env, 'chunks': [hx(c) for c in chunks]}
    if unix:
        # half of the UNIX cases (chosen by content, so that a replay uses the same kind) use a transport that
        # provides IUNIXTransport per instance instead of per class
        c['ukind'] = 'instance' if sum(len(x) for x in chunks) % 2 else 'class'

    if pref is not None:
        c['pref'] = [hx(m) for m in pref]
    return c


def exhaustive_cases(world, envs, depth, alphabet, env='good', kinds=(False, True), pref=None):
    """All sequences over `alphabet` up to `depth` lines, for the transport kinds given; a sequence is not
    extended once the implementation closed or authenticated (one probe line is still appended)."""
    cases = []
    for unix in kinds:
        frontier = [[]]
        for d in range(depth):
            nxt = []
            for seq in frontier:
                for sym in alphabet:
                    s2 = seq + [sym]
                    case = mk_case(unix, env, [b''.join(l + CRLF for l in s2)], pref)
                    cases.append(case)
                    sess = run_impl(world, case, envs)
                    if not sess.t.disconnecting and not sess.p._authenticated:
                        nxt.append(s2)
                    elif d + 1 < depth:
                        cases.append(mk_case(unix, env, [b''.join(l + CRLF for l in s2 + [b'REJECTED'])], pref))
            frontier = nxt
    return cases


# --------------------------------------------------------------------------------------------
# reference server of the harness (Python; written from the DBus specification)
class RefServer:
    def __init__(self, accepts, fd_agree, guid_hex, ctxname, cid, cookie, challenge, twist=None):
        self.twist = twist
        self.took_back = False
        self.accepts = [m for m in (b'EXTERNAL', b'DBUS_COOKIE_SHA1', b'ANONYMOUS') if m in accepts]
        self.fd_agree, self.guid_hex = fd_agree, guid_hex
        self.ctxname, self.cid, self.cookie, self.challenge = ctxname, cid, cookie, challenge
        self.state = 'WaitingForAuth'
        self.mech = None

    def rejected(self):
        self.state, self.mech = 'WaitingForAuth', None
        return [b'REJECTED ' + b' '.join(self.accepts)]

    def ok(self):
        self.state = 'WaitingForBegin'
        return [b'OK ' + self.guid_hex]

    def line(self, line):
        cmd, args = split_cmd(line)
        st = self.state
        if st in ('Authenticated', 'Closed'):
            return []
        if st == 'WaitingForAuth':
            if cmd == b'AUTH':
                toks = args.split()
                if not toks or toks[0] not in self.accepts:
                    if self.twist == 'error-for-unsupported' and toks:
                        return [b'ERROR "mechanism not supported"']
                    return self.rejected()
                resp = None
                if len(toks) > 1:
                    try:
                        resp = binascii.unhexlify(toks[1])
                    except binascii.Error:
                        return [b'ERROR']
                self.mech = toks[0]
                if self.mech == b'ANONYMOUS':
                    return self.ok()
                if self.mech == b'EXTERNAL':
                    if resp is not None:
                        return self.ok()
                    self.state = 'WaitingForData'
                    return [b'DATA']
                if resp is None:
                    return self.rejected()
                self.state = 'WaitingForData'
                return [b'DATA ' + binascii.hexlify(b' '.join([self.ctxname, self.cid, self.challenge]))]
            if cmd == b'BEGIN':
                self.state = 'Closed'
                return []
            if cmd == b'ERROR':
                return self.rejected()
            return [b'ERROR']
        if st == 'WaitingForData':
            if cmd == b'DATA':
                try:
                    resp = binascii.unhexlify(args.strip())
                except binascii.Error:
                    return [b'ERROR']
                if self.mech == b'EXTERNAL':
                    return self.ok()
                toks = resp.split()
                if len(toks) == 2:
                    want = hashlib.sha1(b':'.join([self.challenge, toks[0], self.cookie])).hexdigest().encode()
                    if toks[1] == want:
                        return self.ok()
                return self.rejected()
            if cmd == b'BEGIN':
                self.state = 'Closed'
                return []
            if cmd in (b'CANCEL', b'ERROR'):
                return self.rejected()
            return [b'ERROR']
        # WaitingForBegin
        if cmd == b'BEGIN':
            self.state = 'Authenticated'
            return []
        if cmd == b'NEGOTIATE_UNIX_FD':
            if self.twist == 'takes-first-ok-back' and not self.took_back:
                self.took_back = True
                return self.rejected()
            return [b'AGREE_UNIX_FD' if self.fd_agree else b'ERROR']
        if cmd in (b'CANCEL', b'ERROR'):
            return self.rejected()
        return [b'ERROR']


# contexts of the scratch keyrings that hold the reference server's cookie (id 7, c00c1e) - known by
# construction of GOOD_FILES, not by parsing
COOKIE_CONTEXTS = (b'ctxa', b'ctxc', b'ctxd', b'ctxe')
SRV = dict(guid_hex=b'6abbe624c672777bd87ab46e00027706', ctxname=b'ctxa', cid=b'7', cookie=b'c00c1e', challenge=b'feedface')
MECHS = (b'EXTERNAL', b'DBUS_COOKIE_SHA1', b'ANONYMOUS')


def deliveries(maxlen):
    """Ways of cutting one server answer (line + CRLF) into reads: whole, every single cut position
    from the front and from the back, byte by byte."""
    ds = [('whole', lambda x: [x])]
    for k in range(1, maxlen):
        ds.append(('cut@%d' % k, (lambda k: lambda x: [x[:k], x[k:]] if k < len(x) else [x])(k)))
    for k in range(1, 4):
        ds.append(('cut@-%d' % k, (lambda k: lambda x: [x[:-k], x[-k:]] if k < len(x) else [x])(k)))
    ds.append(('bytewise', lambda x: [x[i:i + 1] for i in range(len(x))]))
    return ds


def spec_handshake(world, envs, cfg, deliver=None, twist=None):
    """Real client against the Python reference server.  Returns (transcript, session, server).
    deliver: how one server answer (with its CRLF) is cut into reads; None = one read per round."""
    srv = RefServer(set(cfg['accepts']), cfg['fd_agree'], twist=twist,
                    **dict(SRV, ctxname=cfg.get('ctx', 'ctxa').encode()))
    ukind = cfg.get('ukind') or ('instance' if (len(cfg['accepts']) + int(bool(cfg['fd_agree']))) % 2 else 'class')
    s = Session(world, cfg['unix'], envs[cfg['env']], ukind=ukind)
    transcript = []
    done = 0   # client lines already delivered
    for _ in range(32):
        evs, _ = s.events(raw=True)
        sent = [unhx(e[2:]) for e in evs if e.startswith('S:')]
        new = sent[done:]
        done = len(sent)
        if not new:
            break
        replies = []
        for l in new:
            transcript.append('C:' + hx(l))
            replies += srv.line(l)
        for r in replies:
            transcript.append('S:' + hx(r))
        # the model feeds the replies of one round as one batch of lines
        if replies and deliver is None:
            s.feed(b''.join(r + CRLF for r in replies))
        else:
            for r in replies:
                for piece in deliver(r + CRLF):
                    s.feed(piece)
    return transcript, s, srv


def run_handshake_sequences(ctx, world, tmp, rng):
    """Several client connections one after the other IN ONE PROCESS against a spec-conforming server that accepts
    DBUS_COOKIE_SHA1 only and keeps its keyring the way conforming servers may: every connection gets a new
    secret; the cookie id is either never re-used or re-issued (txdbus's own bus restarts at id 1 once its keyring
    file is empty).  Every handshake must complete (property: the handshake against a conforming server
    completes) - whatever earlier connections of the process looked up.  Implementation only."""
    home = os.path.join(tmp, 'reissue')
    os.mkdir(home)
    kd = os.path.join(home, '.dbus-keyrings')
    os.mkdir(kd)
    os.chmod(kd, 0o700)
    env = KeyEnv('reissue', home, 'root', {}, RND)
    plans = []
    for policy in ('reuse', 'fresh', 'alternate'):
        for unix in (False, True):
            plans.append((policy, unix, 4))
    for _ in range(ctx.scale(quick=6, thorough=60)):
        plans.append((rng.choice(['reuse', 'fresh', 'alternate', 'random']), rng.random() < 0.5, rng.randint(2, 6)))
    for pi, (policy, unix, n) in enumerate(plans):
        ctxname = b'ctxr%d' % pi                       # a keyring file of its own per plan
        path = os.path.join(kd, ctxname.decode())
        outcomes = []
        for k in range(n):
            if policy == 'reuse':
                cid = b'1'
            elif policy == 'fresh':
                cid = b'%d' % (k + 1)
            elif policy == 'alternate':
                cid = b'%d' % (1 + k % 2)
            else:
                cid = b'%d' % rng.randint(1, 3)
            secret = binascii.hexlify(bytes([16 * pi % 256, k + 1]) * 6)
            # the file holds this connection's cookie (the previous one was deleted by the server), sometimes
            # together with an unrelated older entry
            with open(path, 'wb') as f:
                if k % 3 == 2:
                    f.write(b'9 50 0badc0de\n')
                f.write(b'%s %d %s\n' % (cid, 100 + k, secret))
            srv = RefServer({b'DBUS_COOKIE_SHA1'}, False, SRV['guid_hex'], ctxname, cid, secret, b'ch%02d' % k)
            sess = Session(world, unix, env, ukind='instance' if (k % 2) else 'class')
            done = 0
            for _round in range(32):
                evs, _ = sess.events(raw=True)
                sent = [unhx(e[2:]) for e in evs if e.startswith('S:')]
                new = sent[done:]
                done = len(sent)
                if not new:
                    break
                replies = []
                for l in new:
                    replies += srv.line(l)
                if replies:
                    sess.feed(b''.join(r + CRLF for r in replies))
            ok = bool(sess.p._authenticated) and srv.state == 'Authenticated'
            outcomes.append((cid.decode(), ok))
            ctx.impl_trace()
            if not ok:
                evs, _ = sess.events(raw=True)
                ctx.violation('handshake-incomplete-on-later-connection',
                              'connection %d of %d in one process (cookie id %s, policy %s, new secret per connection) '
                              'does not complete against a cookie-only spec server' % (k + 1, n, cid.decode(), policy),
                              inp={'kind': 'sequence', 'policy': policy, 'unix': unix, 'n': n, 'plan': pi},
                              observed=' '.join(evs)[:600], expected='OK ... BEGIN, authenticated')
                break
        ctx.case('handshake-sequence', sample={'policy': policy, 'unix': unix, 'n': n})
        ctx.stat('sequence:%s:%s' % (policy, 'all-ok' if all(o for _, o in outcomes) else 'failed'))


def hs_driver_line(cfg, envs):
    env = envs[cfg['env']]
    acc = set(cfg['accepts'])
    return ' '.join(['hs', '1' if cfg['unix'] else '0'] + ['1' if m in acc else '0' for m in MECHS]
                    + ['1' if cfg['fd_agree'] else '0', hx(SRV['guid_hex'])] + env.driver_tokens()
                    + [hx(cfg.get('ctx', 'ctxa').encode()), hx(SRV['cid']), hx(SRV['cookie']), hx(SRV['challenge'])])


def hs_key(transcript):
    t = [(x[:1], unhx(x[2:])) for x in transcript]
    for i in range(len(t) - 1):
        if t[i] == ('C', b'NEGOTIATE_UNIX_FD') and t[i + 1][0] == 'S' and t[i + 1][1].startswith(b'ERROR') \
                and (i + 2 >= len(t) or t[i + 2] != ('C', b'BEGIN')):
            return ('error-after-negotiate-tries-next-mech',
                    'after NEGOTIATE_UNIX_FD a server ERROR (no descriptor passing) makes the client try the next '
                    'mechanism instead of sending BEGIN: the handshake cannot complete')
    for k, l in t:
        if k == 'C' and l.startswith(b'ERROR ') and b'cookie_dir' in l:
            return ('cookie-dir-attribute-typo',
                    "every DBUS_COOKIE_SHA1 challenge is answered with ERROR %r" % (l[6:70],))
    for k, l in t:
        if k == 'C' and l.startswith(b'ERROR ') and b'NoneType' in l:
            return ('cookie-in-keyring-not-found',
                    'the keyring file holds the wanted cookie, yet the client answers the challenge with %r'
                    % (l[:60],))
    for i in range(len(t)):
        if t[i][0] == 'S' and t[i][1].startswith(b'DATA') and (i + 1 >= len(t) or t[i + 1][0] != 'C'):
            return ('data-during-anonymous-stalls', 'a DATA line of the server is left unanswered; the handshake stalls')
    return ('handshake-incomplete', 'the handshake against the reference server does not complete')


def expected_complete(cfg, envs):
    acc = set(cfg['accepts'])
    return (b'EXTERNAL' in acc or b'ANONYMOUS' in acc
            or (b'DBUS_COOKIE_SHA1' in acc and envs[cfg['env']].usable
                and cfg.get('ctx', 'ctxa').encode() in COOKIE_CONTEXTS
                and cfg.get('ctx', 'ctxa').encode() in envs[cfg['env']].files))


def run_partner_handshakes(ctx, world, envs):
    """The reference server with two twists a server is free to show: (a) a mechanism it does not accept is
    answered with ERROR instead of REJECTED; (b) on a UNIX transport the first OK is taken back (REJECTED in
    answer to NEGOTIATE_UNIX_FD) and the next accepted mechanism goes through.  Judged by the monitors
    ("moves on after REJECTED or ERROR" above all); completion is recorded."""
    for r in range(1, 4):
        for acc in itertools.combinations(MECHS, r):
            for unix in (False, True):
                for fd in (False, True):
                    for twist in ('error-for-unsupported', 'takes-first-ok-back'):
                        cfg = {'accepts': list(acc), 'unix': unix, 'fd_agree': fd, 'env': 'good'}
                        shown = {'accepts': [a.decode() for a in acc], 'unix': unix, 'fd_agree': fd, 'env': 'good',
                                 'twist': twist}
                        transcript, s, srv = spec_handshake(world, envs, cfg, twist=twist)
                        evs, early = s.events()
                        done = bool(s.p._authenticated) and srv.state == 'Authenticated'
                        ctx.case('handshake-partners', sample=shown)
                        ctx.impl_trace()
                        ctx.stat('hs-%s:%s' % (twist, 'complete' if done else 'incomplete'))
                        for key, what in monitor(world, unix, evs, early):
                            ctx.violation(key, what + ' (partner: reference server, %s)' % twist,
                                          inp=dict(shown, kind='partner'), observed=' '.join(transcript),
                                          expected='see the property statement of C07')


def run_spec_handshakes(ctx, world, envs):
    cfgs = []
    for r in range(1, 4):
        for acc in itertools.combinations(MECHS, r):
            for unix in (False, True):
                for fd in (False, True):
                    for env in sorted(envs):
                        # keyring layouts: the server's cookie stands in differently written files
                        for cx in (COOKIE_CONTEXTS if b'DBUS_COOKIE_SHA1' in acc and env in ('good', 'good711')
                                   else COOKIE_CONTEXTS[:1]):
                            cfgs.append({'accepts': [a.decode() for a in acc], 'unix': unix, 'fd_agree': fd,
                                         'env': env, 'ctx': cx.decode()})
    out = ctx.model([hs_driver_line(dict(c, accepts=[a.encode() for a in c['accepts']]), envs) for c in cfgs])
    for c, m in zip(cfgs, out or [None] * len(cfgs)):
        cfg = dict(c, accepts=[a.encode() for a in c['accepts']])
        base = judge_handshake(ctx, world, envs, cfg, c, m)
        if c['env'] in ('good', 'nodir') and c['ctx'] == 'ctxa':
            # the same handshake with every server answer cut at every single position / byte by byte
            for name, deliver in deliveries(base[1]):
                if name != 'whole':
                    judge_handshake(ctx, world, envs, cfg, dict(c, delivery=name), None, deliver=deliver, base=base[0])
    return len(cfgs)


def delivery_by_name(name):
    for n, d in deliveries(400):
        if n == name:
            return d
    return None


def judge_handshake(ctx, world, envs, cfg, shown, m, deliver=None, base=None):
    """deliver/base: a split delivery of the server answers, judged against the unsplit outcome `base`
    (implementation only).  Returns (canonical outcome, longest server answer + 2)."""
    stream = 'handshake-spec-server' if deliver is None else 'handshake-splittings'
    transcript, s, srv = spec_handshake(world, envs, cfg, deliver)
    canon_t = []
    for x in transcript:
        l = unhx(x[2:])
        if x[:1] == 'C' and l.startswith(b'ERROR '):
            l = b'ERROR ' + error_kind(l[6:]).encode()
        canon_t.append(x[:2] + hx(l))
    state = {'Authenticated': 'Authenticated', 'Closed': 'Closed'}.get(srv.state, srv.state)
    impl = ' '.join(canon_t) + ' | client=%d server=%s disc=%d' % (bool(s.p._authenticated), state,
                                                                 bool(s.t.disconnecting))
    ctx.impl_trace()
    ctx.case(stream, sample=shown)
    done = bool(s.p._authenticated) and srv.state == 'Authenticated'
    ctx.stat('%s:%s' % ('hs' if deliver is None else 'hs-split', 'complete' if done else 'incomplete'))
    if m is not None and m != impl:
        ctx.disagree('handshake-spec-server', dict(shown, kind='hs'), m, impl)
    if s.undispatched is not None:
        ctx.violation('complete-line-not-dispatched',
                      'a complete server answer sits in the client buffer unanswered (%s): the handshake stalls; '
                      'buffer %r' % (shown.get('delivery', 'one read per answer'), bytes(s.p._buffer[:60])),
                      inp=dict(shown, kind='hs'), observed=impl,
                      expected='every complete line is answered, whatever the splitting into reads')
    if base is not None and base != impl:
        ctx.violation('outcome-depends-on-read-splitting',
                      'the handshake against the reference server runs differently when its answers are '
                      'delivered %s' % shown.get('delivery'),
                      inp=dict(shown, kind='hs'), observed=impl, expected=base)
    evs, early = s.events()
    for key, what in monitor(world, cfg['unix'], evs, early):
        ctx.violation(key, what, inp=dict(shown, kind='hs'), observed=impl, expected='see the property statement of C07')
    if expected_complete(cfg, envs) and not done:
        key, what = hs_key(transcript)
        if s.undispatched is not None:
            key, what = ('handshake-stalls-under-read-splitting',
                         'the handshake against the reference server stalls when its answers are delivered %s: a '
                         'complete answer stays in the client buffer' % shown.get('delivery', 'one read per answer'))
        ctx.violation(key, what + ' (server accepts %s, %s transport, descriptor negotiation answered with %s)'
                      % ('+'.join(shown['accepts']), 'UNIX' if cfg['unix'] else 'non-UNIX',
                         'AGREE_UNIX_FD' if cfg['fd_agree'] else 'ERROR'),
                      inp=dict(shown, kind='hs'), observed=impl,
                      expected='both sides authenticated: the server accepts a mechanism the client offers')
    longest = max([len(unhx(x[2:])) for x in transcript if x[:1] == 'S'] or [0]) + 2
    return impl, longest


# --------------------------------------------------------------------------------------------
# the real bus authenticator as the partner (implementation only)
def run_real_bus(ctx, world, envs, tmp):
    from txdbus import authentication, bus

    keyring = os.path.join(envs['good'].home, '.dbus-keyrings')

    class TmpCookie(authentication.BusCookieAuthenticator):
        def _step_one(self, username, keyring_dir=None):
            return authentication.BusCookieAuthenticator._step_one(self, username, keyring_dir or keyring)

    table = {b'EXTERNAL': authentication.BusExternalAuthenticator, b'DBUS_COOKIE_SHA1': TmpCookie,
             b'ANONYMOUS': authentication.BusAnonymousAuthenticator}

    class FakeSocket:
        def getsockopt(self, *a):
            return struct.pack('3i', os.getpid(), os.geteuid(), os.getegid())

    class FakeBus:
        uuid = b'6abbe624c672777bd87ab46e00027706'

        def clientConnected(self, p):
            pass

        def clientDisconnected(self, p):
            pass

    class FakeFactory:
        bus = FakeBus()

    for r in range(1, 4):
        for acc in itertools.combinations(MECHS, r):
            for unix in (False, True):
                class Auth(authentication.BusAuthenticator):
                    authenticators = {m: table[m] for m in acc}

                class Srv(bus.BusProtocol):
                    authenticator = Auth

                    def rawDBusMessageReceived(self, raw):
                        pass

                base_done, longest = one_real_bus(ctx, world, envs, Srv, FakeSocket, FakeFactory, acc, unix,
                                                  'whole', None, None)
                # (the bus's cookie challenge contains its pid: a fixed bound keeps the case count deterministic)
                for dname, deliver in deliveries(max(160, longest) if longest <= 160 else longest):
                    if dname != 'whole':
                        one_real_bus(ctx, world, envs, Srv, FakeSocket, FakeFactory, acc, unix, dname, deliver,
                                     base_done)


def one_real_bus(ctx, world, envs, Srv, FakeSocket, FakeFactory, acc, unix, dname, deliver, base_done):
    """One handshake real client <-> real bus; the client's reads are the server's writes cut by `deliver`."""
    slog = []
    st = FakeTransport(slog)
    st.socket = FakeSocket()
    sp = Srv()
    sp.factory = FakeFactory()
    sp.makeConnection(st)
    s = Session(world, unix, envs['good'])
    srv_exc = None
    srv_ok = False
    longest = 0
    cpos = spos = 0
    for _ in range(40):
        moved = False
        # client -> server
        cw = [e for e in s.log if e[0] in ('w', 'ws')]
        for e in cw[cpos:]:
            data = e[1] if e[0] == 'w' else b''.join(e[1])
            moved = True
            if srv_exc is None and not st.disconnecting:
                try:
                    sp.dataReceived(data)
                except Exception as ex:
                    srv_exc = type(ex).__name__
        cpos = len(cw)
        sw = [e for e in slog if e[0] in ('w', 'ws')]
        for e in sw[spos:]:
            data = e[1] if e[0] == 'w' else b''.join(e[1])
            if data.startswith(b'OK '):
                srv_ok = True
            longest = max(longest, len(data))
            moved = True
            for piece in ([data] if deliver is None else deliver(data)):
                s.feed(piece)
        spos = len(sw)
        if not moved:
            break
    done = bool(s.p._authenticated) and bool(sp._authenticated)
    name = '+'.join(m.decode() for m in acc)
    outcome = 'complete' if done else ('server-exception-' + srv_exc if srv_exc else
                                       ('server-closed' if st.disconnecting else 'incomplete'))
    if deliver is None:
        ctx.stat('realbus:%s:%s:%s' % (name, 'unix' if unix else 'tcp', outcome))
    else:
        ctx.stat('realbus-split:%s' % outcome)
    ctx.case('handshake-real-bus', sample={'accepts': name, 'unix': unix, 'delivery': dname})
    ctx.impl_trace()
    evs, early = s.events()
    inp = {'kind': 'realbus', 'accepts': [m.decode() for m in acc], 'unix': unix, 'delivery': dname}
    for key, what in monitor(world, unix, evs, early):
        ctx.violation(key, what, inp=inp, observed=' '.join(evs), expected='see the property statement of C07')
    if s.undispatched is not None:
        ctx.violation('complete-line-not-dispatched',
                      'a complete answer of the real bus sits in the client buffer unanswered (delivered %s): '
                      'the handshake stalls; buffer %r' % (dname, bytes(s.p._buffer[:60])),
                      inp=inp, observed=' '.join(evs),
                      expected='every complete line is answered, whatever the splitting into reads')
    if base_done is not None and base_done != done and srv_exc is None:
        ctx.violation('outcome-depends-on-read-splitting',
                      'the handshake against the real bus (accepting %s) %s when the answers arrive in one read '
                      'each but %s when delivered %s' % (name, 'completes' if base_done else 'fails',
                                                         'completes' if done else 'fails', dname),
                      inp=inp, observed=' '.join(evs), expected='the same outcome for every splitting')
    if srv_ok and not done and srv_exc is None:
        key, what = hs_key(sorted_exchange(evs))
        if s.undispatched is not None:
            key, what = ('handshake-stalls-under-read-splitting',
                         'the handshake stalls when the answers are delivered %s: a complete answer stays in the '
                         'client buffer' % dname)
        ctx.violation(key, what + ' (real BusAuthenticator accepting %s, %s transport)'
                      % (name, 'UNIX' if unix else 'non-UNIX'), inp=inp, observed=' '.join(evs),
                      expected='the bus sent OK: the handshake completes')
    elif not done and deliver is None:
        ctx.note('real bus, accepts %s, %s: handshake %s (server side: see C06)'
                 % (name, 'unix' if unix else 'tcp', outcome))
    return done, longest


def sorted_exchange(evs):
    out = []
    for e in evs:
        if e.startswith('S:'):
            out.append('C:' + e[2:])
        elif e.startswith('R:'):
            out.append('S:' + e[2:])
    return out


# --------------------------------------------------------------------------------------------
# the composition: the REAL client and the REAL bus joined by in-memory byte pipes (stream 'own-bus-handshake')
#
# A real DBusClientConnection (Session above) and a real BusProtocol/BusAuthenticator with the three real
# mechanisms sit on fake transports; what one side writes is queued and handed to the other side's
# dataReceived in pieces chosen from ctx.rng (direction and cut: whole, byte by byte, random cuts, a cut
# between CR and LF, moves on an empty queue).  One machine: a fake passwd (sys.modules['pwd']), fake peer
# credentials (SO_PEERCRED of a fake socket), scratch home directories with keyrings in every state, a
# patched clock, a counted os.urandom shared by both sides.  The same schedule is run on the composed Lean
# model (driver `hs2`, Auth/Handshake2.lean) and everything observable is compared; the oracle
# (`own_oracle_*`) looks at the implementation only.
OWN_HOMES = ('hR', 'hA', 'hX')
OWN_NOW = 1700000000
OWN_GUID = b'6abbe624c672777bd87ab46e00027706'
OWN_DIR_STATES = ('absent', 'good', 'good711', 'notowned', 'bad777', 'bad740', 'file')
OWN_USER_NAMES = ('root', 'alice', '1000', '0', 'nobody', '-5', '')
OWN_HELLO_DEFAULT = b'l\x01\x00\x01'


def own_users():
    users = [('root', 0, 0, 'hR'), ('alice', 1000, 1000, 'hA')]
    eu = os.geteuid()
    if eu not in (0, 1000):
        users.append(('me', eu, os.getegid(), 'hX'))
    return users


def own_rnd(k, n):
    return bytes((k * 131 + j * 17 + 7) % 256 for j in range(n))


class OwnFakePwd(types.ModuleType):
    def __init__(self, users):
        types.ModuleType.__init__(self, 'pwd')
        self._users = users      # (name, uid, gid, real home path)

    @staticmethod
    def _mk(u):
        return types.SimpleNamespace(pw_name=u[0], pw_uid=u[1], pw_gid=u[2], pw_dir=u[3], pw_passwd='x',
                                     pw_gecos='', pw_shell='/bin/sh')

    def getpwnam(self, name):
        if not isinstance(name, str):
            raise TypeError('getpwnam() argument must be str')
        if '\0' in name:
            raise ValueError('embedded null character')
        for u in self._users:
            if u[0] == name:
                return self._mk(u)
        raise KeyError('getpwnam(): name not found: %r' % name)

    def getpwuid(self, uid):
        if not isinstance(uid, int):
            raise TypeError('uid should be integer')
        if uid < 0 or uid >= 2 ** 32:
            raise KeyError('getpwuid(): uid not found')
        for u in self._users:
            if u[1] == uid:
                return self._mk(u)
        raise KeyError('getpwuid(): uid not found: %d' % uid)


def own_patch_time(auth, tf):
    """`time.time` as the cookie code sees it (default arguments of the cookie methods and the module's `time`)."""
    import time as _time
    undo = []
    for klass in auth.BusCookieAuthenticator.__mro__:
        for name, fn in list(vars(klass).items()):
            f = getattr(fn, '__func__', fn)
            d = getattr(f, '__defaults__', None)
            if d and any(x is _time.time for x in d):
                undo.append(lambda f=f, d=d: setattr(f, '__defaults__', d))
                f.__defaults__ = tuple(tf if x is _time.time else x for x in d)
    for name, val in list(vars(auth).items()):
        if val is _time:
            undo.append(lambda name=name, val=val: setattr(auth, name, val))
            setattr(auth, name, types.SimpleNamespace(time=tf, sleep=lambda s: None))
        elif val is _time.time:
            undo.append(lambda name=name, val=val: setattr(auth, name, val))
            setattr(auth, name, tf)
    return undo


class OwnEnv:
    """One machine for one connection: scratch homes, keyrings, fake passwd, clock, counted randomness."""
    name = 'own'

    def __init__(self, root, spec, ctxname):
        self.root, self.spec, self.ctxname = root, spec, ctxname
        self.user = spec['user']
        self.home = os.path.join(root, spec['chome'])
        self.keyrings = [os.path.join(root, h, '.dbus-keyrings') for h in OWN_HOMES]
        self.calls = 0
        self.calls_bus = 0
        self.side = 'client'
        real = os.geteuid()
        # the two processes' effective uids (faked only when the harness itself is root; both in the fake passwd)
        self.bus_euid = spec.get('beuid', real) if real == 0 else real
        self.client_euid = spec.get('ceuid', real) if real == 0 else real
        self.users = [(u[0], u[1], u[2], os.path.join(root, u[3])) for u in own_users()]
        os.mkdir(root)
        for h in OWN_HOMES:
            os.mkdir(os.path.join(root, h))
            st = spec['dirs'].get(h, 'absent')
            dk = os.path.join(root, h, '.dbus-keyrings')
            if st == 'absent':
                continue
            if st == 'file':
                with open(dk, 'w') as f:
                    f.write('x')
                os.chmod(dk, 0o600)
                continue
            os.mkdir(dk)
            if h in spec['files']:              # an empty list is an empty cookie file
                with open(os.path.join(dk, ctxname), 'wb') as f:
                    for cid, age, cookie in spec['files'][h]:
                        f.write(b'%d %d %s\n' % (cid, OWN_NOW - age, cookie.encode('ascii')))
            os.chmod(dk, {'good': 0o700, 'good711': 0o711, 'notowned': 0o700, 'bad777': 0o777, 'bad740': 0o740}[st])
            if st == 'notowned' and os.geteuid() == 0:
                os.chown(dk, 4242, 4242)
        # what the model is told about the client's keyring directory before the connection
        try:
            st = os.stat(os.path.join(self.home, '.dbus-keyrings'))
            self.init_stat = '%d:%d' % (st.st_mode, 1 if st.st_uid == self.client_euid else 0)
        except OSError:
            self.init_stat = '0:0'
        self.dir_before = {h: self.dir_state(h) for h in OWN_HOMES}
        self.owner_before = {}
        for h in OWN_HOMES:
            try:
                self.owner_before[h] = os.stat(os.path.join(root, h, '.dbus-keyrings')).st_uid
            except OSError:
                self.owner_before[h] = None

    def urandom(self, n):
        r = own_rnd(self.calls, n)
        self.calls += 1
        if self.side == 'bus':
            self.calls_bus += 1
        return r

    def geteuid(self):
        return self.bus_euid if self.side == 'bus' else self.client_euid

    def after_mkdir(self, path):
        # a directory belongs to the process that created it: the bus's (faked) euid
        if self.side == 'bus' and self.bus_euid != os.geteuid():
            os.chown(path, self.bus_euid, self.bus_euid)

    def created_owned(self):
        """'-' when the bus created no keyring directory in this run; otherwise does the client's euid own it?"""
        for h in OWN_HOMES:
            if self.dir_before[h] == 'a':
                try:
                    st = os.stat(os.path.join(self.root, h, '.dbus-keyrings'))
                except OSError:
                    continue
                return '1' if st.st_uid == self.client_euid else '0'
        return '-'

    def dir_state(self, h):
        dk = os.path.join(self.root, h, '.dbus-keyrings')
        try:
            st = os.lstat(dk)
        except OSError:
            return 'a'
        if not os.path.isdir(dk) or st.st_mode & 0o066:
            return 'b'
        return 'g'

    def file_entries(self, h):
        p = os.path.join(self.root, h, '.dbus-keyrings', self.ctxname)
        try:
            with open(p, 'rb') as f:
                return [ln.split() for ln in f.read().split(b'\n') if ln.strip()]
        except OSError:
            return None

    def fs_obs(self):
        fs, ds = [], []
        for h in OWN_HOMES:
            e = self.file_entries(h)
            if e is not None:
                fs.append(hx(h.encode()) + ':' + '/'.join('%d.%d.%s' % (int(x[0]), int(x[1]), hx(x[2])) for x in e))
            d = self.dir_state(h)
            if d != 'a':
                ds.append(hx(h.encode()) + ':' + d)
        return (','.join(sorted(fs)) or '-', ','.join(sorted(ds)) or '-')

    def model_world(self):
        s = self.spec
        creds = '-' if s['creds'] is None else str(s['creds'])
        passwd = ','.join('%s:%d:%d:%s' % (hx(u[0].encode()), u[1], u[2], hx(u[3].encode())) for u in own_users())
        dirs = ','.join('%s:%s' % (hx(h.encode()), self.dir_before[h]) for h in OWN_HOMES
                        if self.dir_before[h] != 'a') or '-'
        files = []
        for h in OWN_HOMES:
            if h in s['files'] and s['dirs'].get(h, 'absent') not in ('absent', 'file'):
                files.append('%s:%s' % (hx(h.encode()), '/'.join('%d.%d.%s' % (cid, OWN_NOW - age, hx(cookie.encode()))
                                                                  for cid, age, cookie in s['files'][h])))
        return ';'.join([creds, passwd, dirs, ','.join(files) or '-', str(OWN_NOW) + ('+' if s['frac'] else ''),
                         hx(self.ctxname.encode())])


class OwnBus:
    """A real BusProtocol (real BusAuthenticator, real mechanisms) on a fake transport with fake peer credentials."""

    def __init__(self, world, creds):
        from txdbus import bus
        authentication, protocol = world.authentication, world.protocol
        self.handed = handed = []
        me = self

        class HAuth(authentication.BusAuthenticator):
            def __init__(self, *a, **kw):
                authentication.BusAuthenticator.__init__(self, *a, **kw)
                me.auth = self

            def handleAuthMessage(self, line):
                handed.append(bytes(line))
                return authentication.BusAuthenticator.handleAuthMessage(self, line)

        class Srv(bus.BusProtocol):
            authenticator = HAuth

            def rawDBusMessageReceived(self, raw):
                me.raw += bytes(raw)

        class FakeSock:
            def getsockopt(self, level, opt, size=0):
                return struct.pack('3i', 4242, creds if creds is not None else -1, 77)

            def fileno(self):
                return -1

        class FakeBus:
            uuid = OWN_GUID

            def clientConnected(self, p):
                pass

            def clientDisconnected(self, p):
                pass

        class FakeFactory:
            bus = FakeBus()

        self.raw = b''
        self.auth = None
        self.log = []
        self.t = FakeTransport(self.log)
        self.t.socket = FakeSock()
        # the switch of the SO_PEERCRED lookup (a private module global; when it is gone the lookup runs against
        # the fake socket, whose uid -1 has no passwd entry: the same outcome as "no credentials")
        self._gate = None
        if isinstance(getattr(protocol, '_is_linux', None), bool):
            self._gate = protocol._is_linux
            protocol._is_linux = creds is not None
        self.protocol_mod = protocol
        self.p = Srv()
        self.p.factory = FakeFactory()
        self.p.makeConnection(self.t)
        self.crash = None
        self.fed = b''

    def restore(self):
        if self._gate is not None:
            self.protocol_mod._is_linux = self._gate

    def feed(self, data):
        self.fed += data
        if self.crash is not None:
            return
        try:
            self.p.dataReceived(data)
        except Exception as e:
            self.crash = type(e).__name__ + ': ' + str(e)[:80]

    def written(self):
        return b''.join(e[1] if e[0] == 'w' else b''.join(e[1]) for e in self.log if e[0] in ('w', 'ws'))

    def sent_lines(self):
        v = self.written()
        parts = v.split(CRLF)
        if parts and parts[-1] == b'':
            parts.pop()
        return parts if v else []

    def obs(self, env):
        a, p = self.auth, self.p
        authed = bool(p._authenticated)
        g = p.guid
        if isinstance(g, str):
            g = g.encode('utf-8', 'surrogatepass')
        cur = getattr(a, 'current_mech', '?')
        if cur not in (None, '?'):
            n = cur.getMechanismName()
            cur = hx(n.encode() if isinstance(n, str) else bytes(n))
        fs = env.fs_obs()
        return ('sent=%s closed=%d auth=%d crashed=%d guid=%s bin=%s first=%d buf=%s handed=%s state=%s rejects=%s cur=%s '
                'files=%s dirs=%s rnd=%d owned=%s'
                % (hxs_(self.sent_lines()), bool(self.t.disconnecting), authed, self.crash is not None,
                   'none' if g is None else hx(g), hx(self.raw + (p._buffer if authed else b'')),
                   bool(p._firstByte), '-' if authed else hx(p._buffer),
                   hxs_(self.handed), getattr(a, 'state', '?'), getattr(a, 'reject_count', '?'),
                   'none' if cur is None else cur, fs[0], fs[1], env.calls_bus, env.created_owned()))


def hxs_(lst):
    return ','.join(hx(x) for x in lst) if lst else '-'


def client_written(s):
    return b''.join(e[1] if e[0] == 'w' else b''.join(e[1]) for e in s.log if e[0] in ('w', 'ws'))


def own_gen_spec(rng):
    user = rng.choice(OWN_USER_NAMES if rng.random() < 0.8 else ('root', 'alice'))
    home_of = {'root': 'hR', '0': 'hR', 'alice': 'hA', '1000': 'hA'}
    chome = home_of.get(user, 'hX') if rng.random() < 0.75 else rng.choice(OWN_HOMES)
    spec = {'unix': rng.random() < 0.5, 'ukind': rng.choice(['class', 'instance']),
            'creds': rng.choice([None, None, None, 0, 1000, 5555, -1]),
            'user': user, 'chome': chome, 'dirs': {}, 'files': {}, 'frac': rng.random() < 0.5,
            'beuid': rng.choice([0, 0, 1000]), 'ceuid': rng.choice([0, 0, 1000])}
    for h in OWN_HOMES:
        st = rng.choice(['absent', 'absent', 'good', 'good', 'good', 'good711', 'notowned', 'bad777', 'bad740', 'file'])
        spec['dirs'][h] = st
        if st in ('good', 'good711', 'notowned') and rng.random() < 0.6:
            ents = []
            for _ in range(rng.randint(0, 3)):
                ents.append([rng.choice([1, 1, 2, 3, 7, 9, 41]), rng.choice([3, 10, 29, 31, 500, -5, -31, 0]),
                             rng.choice(['aabbcc', 'c00c1e', '0badc0de', 'feed'])])
            spec['files'][h] = ents
    return spec


def own_gen_schedule_policy(rng):
    return rng.choice(['whole', 'whole', 'bytewise', 'random', 'random', 'random', 'crlf', 'tiny', 'mixed', 'mixed'])


def own_next_move(rng, policy, c2s, s2c):
    """One move of the adversary: ('S'|'C', n) hands the first n+1 queued bytes (all, when fewer) of that
    direction to the bus ('S') / the client ('C') as one read."""
    dirs = [d for d, q in (('S', c2s), ('C', s2c)) if q]
    if not dirs or rng.random() < 0.03:
        d = rng.choice(['S', 'C'])             # also a move on an empty queue: nothing happens
    else:
        d = rng.choice(dirs)
    q = c2s if d == 'S' else s2c
    p = policy if policy != 'mixed' else rng.choice(['whole', 'bytewise', 'random', 'crlf', 'tiny'])
    if not q or p == 'whole':
        n = len(q) + rng.choice([0, 0, 5, 100000])
    elif p == 'bytewise':
        n = 0
    elif p == 'tiny':
        n = rng.randrange(0, 3)
    elif p == 'crlf':
        i = bytes(q).find(b'\r')
        n = i if i >= 0 and rng.random() < 0.8 else rng.randrange(0, len(q))
    else:
        n = rng.randrange(0, len(q) + 2)
    return d, n


def own_expected_mechanism(spec, env):
    """Which mechanism the handshake must end with, from the environment alone (see the theorem
    own_bus_handshake_completes): EXTERNAL when the peer credentials carry a uid with a passwd entry; otherwise
    DBUS_COOKIE_SHA1 when the keyring is usable by both sides; otherwise ANONYMOUS."""
    users = own_users()
    if spec['creds'] is not None and any(u[1] == spec['creds'] for u in users):
        return b'EXTERNAL'
    user = spec['user']
    if user == '':
        return b'ANONYMOUS'
    name = user
    try:
        uid = int(user)
        name = None
        for u in users:
            if u[1] == uid:
                name = u[0]
                break
    except ValueError:
        pass
    ent = [u for u in users if u[0] == name]
    if not ent:
        return b'ANONYMOUS'
    ent = ent[0]
    before = env.dir_before[ent[3]]
    if before == 'b':
        return b'ANONYMOUS'                         # the bus refuses the keyring directory
    if spec['chome'] != ent[3]:
        return b'ANONYMOUS'                         # the client reads another keyring: it cannot know the cookie
    if before == 'a':
        owner = ent[1] if env.bus_euid == 0 else env.bus_euid      # created by the bus (root: chowned to the user)
    else:
        owner = env.owner_before[ent[3]]
    return b'DBUS_COOKIE_SHA1' if owner == env.client_euid else b'ANONYMOUS'


def own_run(world, tmp, spec, rng=None, schedule=None, ctxname=None):
    """Runs one composed handshake of the real code.  Either draws the schedule from rng (until both queues are
    empty or 6000 moves) or replays `schedule`.  Returns a dict with everything observed."""
    import sys as _sys
    import types as _types
    authentication = world.authentication
    own_run.counter = getattr(own_run, 'counter', 0) + 1
    root = os.path.join(tmp, 'own-%d' % own_run.counter)
    env = OwnEnv(root, spec, ctxname)
    old_pwd = _sys.modules.get('pwd')
    import pwd as _real_pwd
    fake = OwnFakePwd(env.users)
    saved_funcs = (_real_pwd.getpwnam, _real_pwd.getpwuid)
    tf = (lambda: OWN_NOW + 0.5) if spec['frac'] else (lambda: float(OWN_NOW))
    undo = own_patch_time(authentication, tf)
    busd = None
    try:
        _sys.modules['pwd'] = fake
        try:
            _real_pwd.getpwnam, _real_pwd.getpwuid = fake.getpwnam, fake.getpwuid
        except (AttributeError, TypeError):
            saved_funcs = None
        world.set_env(env)
        world.current = None
        env.side = 'bus'
        busd = OwnBus(world, spec['creds'])
        env.side = 'client'
        s = Session(world, spec['unix'], env, ukind=spec.get('ukind', 'class'))
        c2s, s2c = bytearray(), bytearray()
        cpos = [0]
        spos = [0]
        violations = []

        def pump():
            cw = client_written(s)
            c2s.extend(cw[cpos[0]:])
            cpos[0] = len(cw)
            sw = busd.written()
            s2c.extend(sw[spos[0]:])
            spos[0] = len(sw)

        def check_step():
            """the safety clauses, after every read (implementation only)"""
            cw = client_written(s)
            i = cw.find(b'BEGIN\r\n')
            ok_sent = any(l.startswith(b'OK ') for l in busd.sent_lines())
            if i >= 0 and not ok_sent and not any(v[0] == 'own-bus-begin-before-bus-ok' for v in violations):
                violations.append(('own-bus-begin-before-bus-ok',
                                   'the client has written BEGIN%s although the bus has not written an OK line yet'
                                   % (' and %d bytes after it' % (len(cw) - i - 7) if len(cw) > i + 7 else '')))
            if i >= 0 and busd.crash is None:
                line_part = i + 7
                authed = bool(busd.p._authenticated)
                if not authed and not busd.t.disconnecting and len(busd.fed) > line_part \
                        and not any(v[0] == 'own-bus-binary-in-line-mode' for v in violations):
                    violations.append(('own-bus-binary-in-line-mode',
                                       'the bus has been handed %d bytes that follow BEGIN but is still in line mode'
                                       % (len(busd.fed) - line_part)))
                if authed and busd.raw + busd.p._buffer != busd.fed[line_part:] \
                        and not any(v[0] == 'own-bus-binary-lost-at-handoff' for v in violations):
                    violations.append(('own-bus-binary-lost-at-handoff',
                                       'the bytes the client wrote after BEGIN did not reach the binary branch of the '
                                       'bus unchanged: fed %r, binary branch holds %r'
                                       % (busd.fed[line_part:][:40], (busd.raw + busd.p._buffer)[:40])))

        pump()
        check_step()
        used = []
        policy = own_gen_schedule_policy(rng) if rng is not None else None
        # a quarter of the random schedules stop somewhere in the middle: the model is compared on intermediate states too
        stop_after = rng.randrange(0, 60) if rng is not None and rng.random() < 0.25 else None
        k = 0
        while True:
            if schedule is not None:
                if k >= len(schedule):
                    break
                d, n = schedule[k]
            else:
                if stop_after is not None and k >= stop_after:
                    break
                if (not c2s and not s2c) or k >= 6000:
                    if not c2s and not s2c and rng.random() < 0.3:
                        used.append((rng.choice(['S', 'C']), rng.randrange(0, 9)))   # a move when nothing is queued
                    break
                d, n = own_next_move(rng, policy, c2s, s2c)
            k += 1
            used.append((d, n))
            q = c2s if d == 'S' else s2c
            if not q:
                continue
            data = bytes(q[:n + 1])
            del q[:n + 1]
            if d == 'S':
                env.side = 'bus'
                busd.feed(data)
                env.side = 'client'
            else:
                s.feed(data)
            pump()
            check_step()
        evs, early = s.events(raw=True)
        cw = client_written(s)
        i = cw.find(b'BEGIN\r\n')
        hello = cw[i + 7:] if i >= 0 else b''
        errtexts = {}
        for e in evs:
            if e.startswith('S:'):
                l = unhx(e[2:])
                if l.startswith(b'ERROR '):
                    errtexts[error_kind(l[6:])] = l[6:]
        out = {
            'spec': spec, 'schedule': used, 'policy': policy, 'env': env, 'session': s, 'bus': busd,
            'client': ' '.join(evs) + ' | ' + s.final(), 'busobs': busd.obs(env),
            'queues': 'c2s=%s s2c=%s' % (hx(bytes(c2s)), hx(bytes(s2c))),
            'quiescent': not c2s and not s2c, 'hello': hello, 'errtexts': errtexts, 'early': early,
            'violations': violations, 'events': s.events()[0], 'begins': cw.count(b'BEGIN\r\n') if i >= 0 else 0,
            'world': env.model_world(), 'init_stat': env.init_stat,
        }
        return out
    finally:
        if busd is not None:
            busd.restore()
        for f in undo:
            f()
        if old_pwd is not None:
            _sys.modules['pwd'] = old_pwd
        else:
            _sys.modules.pop('pwd', None)
        if saved_funcs is not None:
            _real_pwd.getpwnam, _real_pwd.getpwuid = saved_funcs
        shutil.rmtree(root, ignore_errors=True)


def own_driver_line(r):
    spec = r['spec']
    errs = ','.join('%s:%s' % (k, hx(v)) for k, v in sorted(r['errtexts'].items()) if re.match(r'^[A-Za-z]+$', k)) or '-'
    sched = ','.join('%s%d' % (d, n) for d, n in r['schedule']) or '-'
    return ' '.join(['hs2', '1' if spec['unix'] else '0', hx(OWN_GUID), hx(r['hello'] or OWN_HELLO_DEFAULT),
                     hx(spec['user'].encode('ascii')), hx(spec['chome'].encode()), r['init_stat'],
                     str(r['env'].bus_euid), str(r['env'].client_euid), r['world'], errs, sched])


def own_strip_rnd(model_out):
    return model_out           # the bus's os.urandom calls are compared now


def own_judge(ctx, world, r, m, stream='own-bus-handshake'):
    spec = r['spec']
    shown = {'kind': 'ownbus', 'spec': spec, 'schedule': [[d, n] for d, n in r['schedule']]}
    impl = r['client'] + ' || ' + r['busobs'] + ' || ' + r['queues']
    ctx.impl_trace()
    ctx.case(stream, sample=shown if len(r['schedule']) <= 40 else {'kind': 'ownbus', 'spec': spec, 'moves': len(r['schedule'])})
    m = own_strip_rnd(m)
    if m is not None and m != impl:
        ctx.disagree(stream, shown, m, impl)
    s, busd = r['session'], r['bus']
    # C07's own monitors on the client's trace
    for key, what in monitor(world, spec['unix'], r['events'], r['early']):
        ctx.violation(key, what + ' (partner: the real bus, own-bus-handshake)', inp=shown, observed=impl,
                      expected='see the property statement of C07')
    for key, what in r['violations']:
        ctx.violation(key, what, inp=shown, observed=impl,
                      expected='BEGIN and binary data only after the bus accepted a mechanism; binary data never in line mode')
    mech = None
    for l in busd.handed:
        if l.startswith(b'AUTH '):
            toks = l.split()
            mech = toks[1] if len(toks) > 1 else b''
    ctx.stat('own:policy=%s' % r['policy'])
    ctx.stat('own:euids=bus%d/client%d:%s' % (r['env'].bus_euid, r['env'].client_euid, r['busobs'].rsplit('owned=', 1)[1]))
    if not r['quiescent']:
        ctx.stat('own:truncated-schedule')
    path = []
    for e in r['events']:
        if e.startswith('S:'):
            l = unhx(e[2:])
            w = l.split(b' ')
            path.append((w[0] + (b'-' + w[1] if w[0] in (b'AUTH', b'ERROR') and len(w) > 1 else b'')).decode('ascii', 'replace'))
    ctx.stat('own:path=' + '/'.join(path).replace('DBUS_COOKIE_SHA1', 'COOKIE').replace('NEGOTIATE_UNIX_FD', 'NEG'))
    ctx.stat('own:moves=%s' % (len(r['schedule']) if len(r['schedule']) < 10 else '%d+' % (len(r['schedule']) // 10 * 10)
                               if len(r['schedule']) < 100 else '100+'))
    want = own_expected_mechanism(spec, r['env'])
    offered = set(world.authentication.BusAuthenticator.authenticators)
    if r['quiescent'] and want not in offered:
        # a bus configured without the mechanism the environment would end with (e.g. no ANONYMOUS): C07 promises
        # completion only against a server that accepts one of the client's mechanisms - nothing is demanded
        ctx.stat('own:expected-mechanism-not-offered-by-bus')
    elif r['quiescent']:
        done = bool(s.p._authenticated) and bool(busd.p._authenticated)
        closed = bool(s.t.disconnecting) or bool(busd.t.disconnecting)
        ctx.stat('own:%s:%s:%s' % ('unix' if spec['unix'] else 'tcp', (mech or b'?').decode('ascii', 'replace'),
                                    'complete' if done else 'incomplete'))
        if busd.crash is not None or s.crash is not None:
            ctx.violation('own-bus-exception', 'an exception escapes dataReceived during the handshake of txdbus\'s client '
                          'with txdbus\'s own bus: %s' % (busd.crash or s.crash,), inp=shown, observed=impl,
                          expected='the handshake completes')
        elif not done:
            ctx.violation('own-bus-handshake-incomplete',
                          'every queued byte was delivered, yet the handshake of txdbus\'s client with txdbus\'s own bus '
                          'is not complete (client authenticated=%d, bus authenticated=%d, closed=%d)'
                          % (bool(s.p._authenticated), bool(busd.p._authenticated), closed),
                          inp=shown, observed=impl, expected='both sides authenticated, the connection open')
        else:
            if closed:
                ctx.violation('own-bus-connection-closed', 'the handshake completed but a side called loseConnection',
                              inp=shown, observed=impl, expected='the connection stays open')
            if r['begins'] != 1:
                ctx.violation('own-bus-begin-not-once', 'the client wrote BEGIN %d times' % r['begins'], inp=shown,
                              observed=impl, expected='exactly one BEGIN')
            order = list(world.preference)
            ctx.stat('own:mechanism-%s' % ('as-expected' if mech == want else 'differs'))
            # only the clear direction is a violation: a mechanism the client prefers was available to both sides,
            # yet the handshake fell back to a later one (a better outcome than computed here is left to the
            # comparison with the model)
            if mech in order and want in order and order.index(mech) > order.index(want):
                ctx.violation('own-bus-unexpected-mechanism',
                              'the handshake ends with mechanism %r; the environment (credentials %r, user %r, keyring of '
                              'the user %s, client home %s) allows %r, which the client prefers'
                              % (mech, spec['creds'], spec['user'], spec['dirs'], spec['chome'], want),
                              inp=shown, observed=impl, expected=want.decode())
    else:
        ctx.stat('own:schedule-ended-before-quiescence')


def own_context_name(world):
    v = getattr(world.authentication.BusCookieAuthenticator, 'cookieContext', None)
    return v if isinstance(v, str) else None


def run_own_bus(ctx, world, tmp, rng):
    ctxname = own_context_name(world)
    if ctxname is None:
        ctx.note('own-bus-handshake: BusCookieAuthenticator.cookieContext not found; stream skipped')
        return
    results = []
    # every user / credential / transport combination once with whole deliveries and once byte by byte ...
    import random as _random
    base = []
    for user in OWN_USER_NAMES:
        for creds in (None, 0, 5555):
            for unix in (False, True):
                for dstate in ('absent', 'good', 'notowned', 'bad777'):
                    home_of = {'root': 'hR', '0': 'hR', 'alice': 'hA', '1000': 'hA'}
                    chome = home_of.get(user, 'hX')
                    base.append({'unix': unix, 'ukind': 'class' if creds is None else 'instance', 'creds': creds,
                                 'beuid': 1000 if dstate == 'absent' and unix else 0, 'ceuid': 1000 if user == 'alice' else 0,
                                 'user': user, 'chome': chome, 'dirs': {h: dstate for h in OWN_HOMES},
                                 'files': {h: [[1, 3, 'aabbcc'], [2, 500, 'feed']] for h in OWN_HOMES} if dstate == 'good' else {},
                                 'frac': unix})
    try:
        phase = int(ctx.seed) % 3
    except (TypeError, ValueError):
        phase = 0
    pick = base if ctx.tier != 'quick' or ctx.widen else [b for k, b in enumerate(base) if k % 3 == phase]
    for k, spec in enumerate(pick):
        sub = _random.Random('%d-%d' % (ctx.seed, k))
        results.append(own_run(world, tmp, spec, rng=sub, ctxname=ctxname))
    # ... then random environments under random schedules
    n = ctx.scale(quick=600, thorough=12000)
    for _ in range(n):
        results.append(own_run(world, tmp, own_gen_spec(rng), rng=rng, ctxname=ctxname))
    out = ctx.model([own_driver_line(r) for r in results])
    for r, m in zip(results, out or [None] * len(results)):
        own_judge(ctx, world, r, m)


def own_replay(ctx, world, tmp, inp):
    ctxname = own_context_name(world)
    if ctxname is None:
        return
    r = own_run(world, tmp, inp['spec'], schedule=[(d, int(n)) for d, n in inp['schedule']], ctxname=ctxname)
    m = ctx.model([own_driver_line(r)])
    own_judge(ctx, world, r, m[0] if m else None)


# --------------------------------------------------------------------------------------------
# several connections alive in one scenario (state-leak round: streams 'handshake-interleaved', 'kind-flip-sequence',
# 'history-repeat').  Every connection has its OWN environment (Session.activate), its own transport kind and its own
# conversation; the reads of the connections are interleaved.  Each connection is judged exactly like a single one
# (model of ITS reads, monitors on ITS trace): what another connection of the same process did must not matter.
# The input of a finding is the whole scenario, so a replay reproduces it from its own input.
def run_multi(world, envs, scen):
    tclass = type('FlipTransport', (FakeTransport,), {})      # the scenario's own transport class ('fresh' kind)
    sess = [None] * len(scen['sessions'])
    for act in scen['actions']:
        i = act[1]
        d = scen['sessions'][i]
        if act[0] == 'open':
            pref = [unhx(m) for m in d['pref']] if d.get('pref') is not None else None
            sess[i] = Session(world, d['unix'], envs[d['env']], pref,
                              ukind='instance' if d['tkind'] == 'instance' else 'class',
                              tclass=tclass if d['tkind'] == 'fresh' else None)
        elif sess[i] is not None:
            sess[i].feed(unhx(act[2]))
    return sess


def multi_session_case(scen, i):
    d = scen['sessions'][i]
    c = {'unix': bool(d['unix']), 'env': d['env'], 'chunks': [a[2] for a in scen['actions'] if a[0] == 'feed' and a[1] == i]}
    if d.get('pref') is not None:
        c['pref'] = d['pref']
    return c


def judge_multi(ctx, world, stream, scens, envs):
    lines, idx = [], []
    for k, scen in enumerate(scens):
        for i in range(len(scen['sessions'])):
            if any(a[0] == 'open' and a[1] == i for a in scen['actions']):
                lines.append(driver_line(multi_session_case(scen, i), envs))
                idx.append((k, i))
    out = ctx.model(lines)
    mod = dict(zip(idx, out)) if out is not None else {}
    for k, scen in enumerate(scens):
        sess = run_multi(world, envs, scen)
        inp = dict(scen, kind='multi')
        ctx.case(stream, sample=inp if len(scen['actions']) <= 12 else {'kind': 'multi', 'sessions': scen['sessions'],
                                                                        'actions': len(scen['actions'])})
        ctx.stat('%s:connections=%d' % (stream, len(scen['sessions'])))
        for i, s in enumerate(sess):
            if s is None:
                continue
            ctx.impl_trace()
            impl = s.canonical()
            evs, early = s.events()
            d = scen['sessions'][i]
            who = 'connection %d of %d (%s, %s)' % (i + 1, len(sess), 'UNIX' if d['unix'] else 'non-UNIX', d['tkind'])
            m = mod.get((k, i))
            if m is not None and m != impl:
                ctx.disagree(stream, dict(inp, connection=i), m, impl)
            if s.connect_crash:
                ctx.stat('exception-out-of-connectionMade:' + s.connect_crash)
            pref = [unhx(x) for x in d['pref']] if d.get('pref') is not None else None
            for key, what in monitor(world, d['unix'], evs, early, pref):
                cands = world.scenario_inputs.setdefault(key, [])
                if len(cands) < 40:
                    cands.append(inp)
                ctx.violation(key, what + ' [%s; other connections of the same process are alive in this scenario]' % who,
                              inp=inp, observed=impl, expected='see the property statement of C07')
            if s.escapes:
                ctx.violation('cookie-context-escapes-keyring', 'the client opens %r, outside its keyring directory [%s]'
                              % (s.escapes[0], who), inp=inp, observed=impl, expected='no file outside the keyring opened')
            if s.undispatched is not None:
                ctx.violation('complete-line-not-dispatched', 'a complete server line sits in the buffer unanswered [%s]' % who,
                              inp=inp, observed=impl, expected='every complete line is answered')
            end = 'auth' if s.p._authenticated else ('closed' if s.t.disconnecting else 'open')
            ctx.stat('%s:%s:end=%s' % (stream, d['tkind'] + ('-unix' if d['unix'] else '-plain'), end))


GUID_LINE = b'OK 6abbe624c672777bd87ab46e00027706'


def interleave(rng, per_session_feeds, opens_first=False):
    """actions: every session is opened before its first read; reads keep their order per session."""
    n = len(per_session_feeds)
    pos = [-1] * n           # -1: not opened
    acts = []
    if opens_first:
        for i in range(n):
            acts.append(['open', i])
            pos[i] = 0
    while True:
        todo = [i for i in range(n) if pos[i] < len(per_session_feeds[i])]
        if not todo:
            break
        i = rng.choice(todo) if rng is not None else todo[0]
        if pos[i] == -1:
            acts.append(['open', i])
            pos[i] = 0
            if not per_session_feeds[i]:
                pos[i] = 0
            continue
        acts.append(['feed', i, hx(per_session_feeds[i][pos[i]])])
        pos[i] += 1
    # sessions without reads still have to be opened
    for i in range(n):
        if pos[i] == -1:
            acts.append(['open', i])
    return acts


def round_robin(per_session_feeds):
    n = len(per_session_feeds)
    acts = [['open', i] for i in range(n)]
    k = 0
    while any(k < len(f) for f in per_session_feeds):
        for i in range(n):
            if k < len(per_session_feeds[i]):
                acts.append(['feed', i, hx(per_session_feeds[i][k])])
        k += 1
    return acts


def sequential(per_session_feeds):
    acts = []
    for i, f in enumerate(per_session_feeds):
        acts.append(['open', i])
        acts += [['feed', i, hx(x)] for x in f]
    return acts


def gen_interleaved_fixed():
    """The pairs of the audit: A is rejected once (now at DBUS_COOKIE_SHA1); B connects; A is rejected again and
    accepted; B is accepted - for every pair of transport kinds, with the descriptor negotiation answered both ways."""
    scens = []
    kinds = [(False, 'class'), (True, 'class'), (True, 'instance'), (False, 'fresh'), (True, 'fresh')]
    for ua, ka in kinds:
        for ub, kb in kinds:
            for fd in (b'ERROR', b'AGREE_UNIX_FD'):
                a_lines = [b'REJECTED', b'REJECTED', GUID_LINE] + ([fd] if ua else [])
                b_lines = [GUID_LINE] + ([fd] if ub else [])
                acts = [['open', 0], ['feed', 0, hx(a_lines[0] + CRLF)], ['open', 1], ['feed', 0, hx(a_lines[1] + CRLF)],
                        ['feed', 0, hx(a_lines[2] + CRLF)], ['feed', 1, hx(b_lines[0] + CRLF)]]
                if ua:
                    acts.append(['feed', 0, hx(fd + CRLF)])
                if ub:
                    acts.append(['feed', 1, hx(fd + CRLF)])
                scens.append({'sessions': [{'unix': ua, 'tkind': ka, 'env': 'good'}, {'unix': ub, 'tkind': kb, 'env': 'good711'}],
                              'actions': acts})
    return scens


def gen_interleaved_random(rng, env_names, alphabet):
    n = rng.choice([2, 2, 3])
    sessions, feeds = [], []
    for _ in range(n):
        unix = rng.random() < 0.5
        sessions.append({'unix': unix, 'tkind': rng.choice(['class', 'instance', 'fresh'] if unix else ['class', 'fresh']),
                         'env': rng.choice(env_names)})
        k = rng.randrange(1, 7)
        seq = [rng.choice(NONCLOSING) if rng.random() < 0.75 else rng.choice(alphabet) for _ in range(k)]
        data = b''.join(l + CRLF for l in seq)
        feeds.append(chunkings(rng, data, 1)[0] if rng.random() < 0.4 else [l + CRLF for l in seq])
    return {'sessions': sessions, 'actions': interleave(rng, feeds, opens_first=rng.random() < 0.3)}


def gen_kind_flips():
    """Connections whose transports are instances of ONE class but differ per instance in providing IUNIXTransport, in
    both directions, one after the other and alive at the same time."""
    scens = []
    orders = ['UP', 'PU', 'UPU', 'PUP', 'UUP', 'PPU', 'UPPU']
    for order in orders:
        for tk in ('fresh', 'shared'):
            for fd in (b'ERROR', b'AGREE_UNIX_FD'):
                for pre in ([], [b'REJECTED'], [b'REJECTED', b'REJECTED']):
                    sessions, feeds = [], []
                    for ch in order:
                        unix = ch == 'U'
                        # 'shared': FakeTransport itself - UNIX by directlyProvides on the instance, plain otherwise
                        sessions.append({'unix': unix, 'tkind': 'fresh' if tk == 'fresh' else ('instance' if unix else 'class'),
                                         'env': 'good'})
                        feeds.append([l + CRLF for l in pre + [GUID_LINE, fd]])
                    for layout in (sequential(feeds), round_robin(feeds)):
                        scens.append({'sessions': sessions, 'actions': layout})
    return scens


def run_state_streams(ctx, world, envs, rng, alphabet):
    env_names = sorted(envs)
    judge_multi(ctx, world, 'handshake-interleaved', gen_interleaved_fixed(), envs)
    n = ctx.scale(quick=400, thorough=6000)
    judge_multi(ctx, world, 'handshake-interleaved',
                [gen_interleaved_random(rng, env_names, alphabet) for _ in range(n)], envs)
    judge_multi(ctx, world, 'kind-flip-sequence', gen_kind_flips(), envs)


# a fixed history of single connections, run twice: the second pass must behave like the first (and like the model)
def history_cases(rng, alphabet):
    cases = []
    seqs = [[b'OK 1234'], [b'REJECTED', b'REJECTED', b'REJECTED'], [b'REJECTED', b'DATA ' + cookie_payload(), GUID_LINE],
            [b'BOGUS'], [GUID_LINE, b'ERROR'], [GUID_LINE, b'AGREE_UNIX_FD'], [b'ERROR', b'ERROR', GUID_LINE],
            [b'REJECTED', b'DATA ' + cookie_payload(b'missing', b'7'), b'REJECTED', GUID_LINE], [b'DATA', GUID_LINE],
            [b'OK zz'], [b'REJECTED', b'REJECTED', b'DATA', b'REJECTED']]
    for seq in seqs:
        for unix in (False, True):
            for env in ('good', 'nodir'):
                cases.append(mk_case(unix, env, [l + CRLF for l in seq]))
    for pref in ([b'ANONYMOUS'], [b'DBUS_COOKIE_SHA1', b'X-TEST', b'EXTERNAL', b'ANONYMOUS']):
        cases.append(mk_case(False, 'good', [b'REJECTED\r\n', GUID_LINE + CRLF], pref))
    for _ in range(12):
        cases.append(random_lines_case(rng, None, alphabet, 6, ['good', 'good711', 'nodir']))
    return cases


def judge_history(ctx, world, envs, cases, stream='history-repeat'):
    out = ctx.model([driver_line(c, envs) for c in cases])
    first = []
    for c, m in zip(cases, out or [None] * len(cases)):
        s, evs = judge(ctx, world, stream, c, envs, m)
        first.append(s.canonical())
    for k, c in enumerate(cases):
        s = run_impl(world, c, envs)
        again = s.canonical()
        ctx.impl_trace()
        ctx.case(stream, sample=None)
        if again != first[k]:
            ctx.violation('outcome-depends-on-process-history',
                          'connection %d of a history of %d connections behaves differently when the same history is run a '
                          'second time in the same process' % (k + 1, len(cases)),
                          inp={'kind': 'history', 'cases': cases, 'index': k}, observed=again, expected=first[k])
            break



# --------------------------------------------------------------------------------------------
# replays must reproduce from their own input (state-leak round, G7): a finding whose exemplar is a single connection is
# replayed in a FRESH process at the end of the run; when it does not reproduce there (the failure depended on what the
# process did before), the exemplar is replaced by a scenario that carries its history - a several-connection scenario
# in which the same key was seen, or the whole run.
def fresh_process_keys(repo, inp):
    import subprocess
    import sys as _sys
    code = (
        'import sys, json\n'
        'sys.path.insert(0, %r)\n'
        'from vlib import ctx as C\n'
        'C.use_repo(%r)\n'
        'from harness import c07\n'
        'c = C.Ctx("C07", "quick", 0, %r)\n'
        'c07.replay(c, {"input": json.loads(sys.stdin.read())})\n'
        'print("KEYS=" + json.dumps(sorted(v["key"] for v in c.violations)))\n'
    ) % (os.path.dirname(os.path.dirname(os.path.abspath(__file__))), repo, repo)
    try:
        p = subprocess.run([_sys.executable, '-c', code], input=json.dumps(inp).encode(), stdout=subprocess.PIPE,
                           stderr=subprocess.PIPE, timeout=120)
    except Exception:
        return None
    for ln in p.stdout.decode('utf-8', 'replace').splitlines():
        if ln.startswith('KEYS='):
            return set(json.loads(ln[5:]))
    return None


def confirm_replays(ctx, world):
    scen = getattr(world, 'scenario_inputs', {})
    budget = 14
    for v in ctx.violations:
        inp = v.get('input')
        if not isinstance(inp, dict) or inp.get('kind', 'run') in ('multi', 'history', 'process-history'):
            continue
        if budget <= 0:
            break
        budget -= 1
        keys = fresh_process_keys(ctx.repo, inp)
        if keys is None or v['key'] in keys:
            continue                      # reproduces by itself (or could not be tried: left as it is)
        ctx.stat('replay-needs-history')
        # scenarios whose transports all have a class of the scenario's own first (nothing outside them can matter), small first
        cands = sorted(scen.get(v['key'], []),
                       key=lambda c: (any(d['tkind'] != 'fresh' for d in c['sessions']), len(json.dumps(c))))
        done = False
        for cand in cands[:3]:
            budget -= 1
            k2 = fresh_process_keys(ctx.repo, cand)
            if k2 is not None and v['key'] in k2:
                v['input'] = cand
                v['what'] += ' [history-dependent: the single connection alone does not show it; replay input = a scenario of several connections]'
                done = True
                break
        if done:
            continue
        v['input'] = {'kind': 'process-history', 'seed': ctx.seed, 'tier': ctx.tier, 'case': inp}
        v['what'] += ' [history-dependent: shows only after other cases ran in the same process; replay runs the whole sequence again]'


# --------------------------------------------------------------------------------------------
# a login name that is not ASCII (implementation only; the model assumes `getpass.getuser().encode('ascii')` succeeds).
# PROPOSED FINDING non-ascii-user-does-not-move-on, repair fixes/C07-06-non-ascii-login-name-skips-cookie.patch: until the owner
# has applied it to /repo the stream only RECORDS the behaviour (distribution key `proposed-finding:...`, a note); set
# JUDGE_NON_ASCII_USER = True with the repair and the unrepaired behaviour is reported as a violation with a replay.
JUDGE_NON_ASCII_USER = True
NON_ASCII_USERS = ('m\u00fcller', '\u0418\u0432\u0430\u043d')


def run_non_ascii_user(ctx, world, tmp, only=None):
    home = os.path.join(tmp, 'nonascii-home')
    if not os.path.isdir(home):
        os.mkdir(home)
    for user in NON_ASCII_USERS:
        env = KeyEnv('nonascii', home, user, {}, RND)
        envs1 = {'nonascii': env}
        for acc in ([b'ANONYMOUS'], [b'DBUS_COOKIE_SHA1', b'ANONYMOUS'], [b'EXTERNAL']):
            for unix in (False, True):
                cfg = {'accepts': acc, 'unix': unix, 'fd_agree': unix, 'env': 'nonascii'}
                shown = {'kind': 'nonascii', 'user': user, 'accepts': [a.decode() for a in acc], 'unix': unix}
                if only is not None and only != shown:
                    continue
                transcript, s, srv = spec_handshake(world, envs1, cfg)
                done = bool(s.p._authenticated) and srv.state == 'Authenticated'
                ctx.case('non-ascii-user', sample=shown)
                ctx.impl_trace()
                ctx.stat('non-ascii-user:%s' % ('complete' if done else 'incomplete:' + (s.crash or 'no-exception')))
                if not done:
                    what = ('login name %r (not ASCII): against a reference server accepting %s the handshake does not '
                            'complete - %s escapes dataReceived when the client should move on to the next mechanism'
                            % (user, '+'.join(shown['accepts']), s.crash or 'nothing'))
                    if JUDGE_NON_ASCII_USER:
                        ctx.violation('non-ascii-user-does-not-move-on', what, inp=shown, observed=' '.join(transcript),
                                      expected='the client skips DBUS_COOKIE_SHA1 or closes in order; with ANONYMOUS or '
                                               'EXTERNAL accepted the handshake completes')
                    else:
                        ctx.stat('proposed-finding:non-ascii-user-does-not-move-on')
    if not JUDGE_NON_ASCII_USER and ctx.stats.get('proposed-finding:non-ascii-user-does-not-move-on'):
        ctx.note('PROPOSED FINDING (not judged until fixes/C07-06 is applied and JUDGE_NON_ASCII_USER is set): a login name '
                 'that is not ASCII makes UnicodeEncodeError escape dataReceived after REJECTED; the client never offers ANONYMOUS')

# --------------------------------------------------------------------------------------------
def random_lines_case(rng, envs, alphabet, maxlen, env_names):
    n = rng.randrange(1, maxlen + 1)
    # half of the conversations draw 4 of 5 lines from the forms that keep the connection open, so that
    # the rich forms are met in every state (second and third mechanism, pending negotiation), not only first
    if rng.random() < 0.5:
        seq = [rng.choice(NONCLOSING) if rng.random() < 0.8 else rng.choice(alphabet) for _ in range(n)]
    else:
        seq = [rng.choice(alphabet) for _ in range(n)]
    # bias towards conversations that stay open: start with a plausible prefix sometimes
    if rng.random() < 0.4:
        seq = [rng.choice([b'REJECTED', b'ERROR', b'DATA'])] * rng.randrange(0, 3) + seq
    data = b''.join(l + CRLF for l in seq)
    if rng.random() < 0.3:
        data += rng.choice([b'', b'OK 12', b'\r', b'l\x01\x00\x01' + bytes(12)])
    chunks = chunkings(rng, data, 1)[0]
    return mk_case(rng.random() < 0.5, rng.choice(env_names), chunks)


def run(ctx):
    tmp = tempfile.mkdtemp(prefix='verif-c07-')
    world = None
    try:
        envs = build_envs(tmp)
        world = World()
        _run(ctx, world, envs, tmp)
    finally:
        if world is not None:
            world.restore()
        shutil.rmtree(tmp, ignore_errors=True)


def batch(ctx, world, stream, cases, envs):
    out = ctx.model([driver_line(c, envs) for c in cases])
    for c, m in zip(cases, out or [None] * len(cases)):
        s, evs = judge(ctx, world, stream, c, envs, m)
        ctx.stat('%s:reads=%d' % (stream, min(len(c['chunks']), 8)))
        ctx.stat('%s:lines=%d' % (stream, sum(1 for e in evs if e.startswith('R:'))))
        end = 'auth' if s.p._authenticated else ('closed' if s.t.disconnecting else 'open')
        ctx.stat('%s:%s:end=%s' % (stream, 'unix' if c['unix'] else 'tcp', end))


def _run(ctx, world, envs, tmp):
    rng = ctx.rng
    env_names = sorted(envs)

    # corpus first
    corpus_cases = []
    for name, data in ctx.corpus():
        inp = data.get('input', data)
        if inp.get('kind', 'run') == 'run' and inp.get('env') in envs:
            corpus_cases.append({k: inp[k] for k in ('unix', 'env', 'chunks', 'pref', 'ukind') if k in inp})
        elif inp.get('kind') == 'hs' and inp.get('env') in envs:
            cfg = dict(inp, accepts=[a.encode() for a in inp['accepts']])
            shown = {k: inp[k] for k in ('accepts', 'unix', 'fd_agree', 'env', 'ctx', 'ukind') if k in inp}
            m = ctx.model([hs_driver_line(cfg, envs)])
            base = judge_handshake(ctx, world, envs, cfg, shown, m[0] if m else None)
            if inp.get('delivery'):
                judge_handshake(ctx, world, envs, cfg, dict(shown, delivery=inp['delivery']), None,
                                deliver=delivery_by_name(inp['delivery']), base=base[0])
        elif inp.get('kind') == 'ownbus':
            own_replay(ctx, world, tmp, inp)
        elif inp.get('kind') == 'multi':
            judge_multi(ctx, world, 'handshake-interleaved', [{'sessions': inp['sessions'], 'actions': inp['actions']}], envs)
        elif inp.get('kind') == 'history':
            judge_history(ctx, world, envs, inp['cases'])
        elif inp.get('kind') == 'nonascii':
            run_non_ascii_user(ctx, world, tmp, only={k: inp[k] for k in ('kind', 'user', 'accepts', 'unix')})
    if corpus_cases:
        batch(ctx, world, 'lines-exhaustive', corpus_cases, envs)

    # a fixed history of connections, twice (drawn from a generator of its own: the other streams keep their cases)
    import random as _random
    judge_history(ctx, world, envs, history_cases(_random.Random('history-%s' % (ctx.seed,)), RICH_ALPHABET))
    world.first_canon = {}

    # 1. bounded-exhaustive line sequences, one read
    depth = ctx.scale(quick=5, thorough=6)
    if ctx.widen:
        depth = 6 if ctx.tier == 'quick' else 7
    cases = exhaustive_cases(world, envs, depth, BASE_ALPHABET)
    batch(ctx, world, 'lines-exhaustive', cases, envs)
    ctx.exhaustive = True
    # 1b. the same in an environment without keyring (the cookie step fails differently), one level less
    batch(ctx, world, 'lines-exhaustive', exhaustive_cases(world, envs, depth - 1, BASE_ALPHABET, env='nodir'), envs)
    # 1c. long conversations over the forms that keep the connection open: reaches the negotiation of the
    #     second and third mechanism (OK, REJECTED, OK, REJECTED, OK, ERROR|AGREE ...)
    deep = [b'REJECTED', b'ERROR', b'DATA', b'OK 6abbe624c672777bd87ab46e00027706', b'AGREE_UNIX_FD']
    batch(ctx, world, 'lines-exhaustive', exhaustive_cases(world, envs, depth + 2, deep), envs)
    # 1d. other preference lists (`preference` is a documented extension point), incl. unknown mechanism names
    for pref in ([b'ANONYMOUS'], [b'X-TEST', b'ANONYMOUS'],
                 [b'DBUS_COOKIE_SHA1', b'X-TEST', b'EXTERNAL', b'ANONYMOUS']):
        batch(ctx, world, 'lines-exhaustive',
              exhaustive_cases(world, envs, depth - 1, BASE_ALPHABET, pref=pref), envs)
    ctx.note('lines-exhaustive: every sequence of up to %d lines over %d line classes, both transport kinds '
             '(not extended after close/authentication)' % (depth, len(BASE_ALPHABET)))
    # the same sequences under random splittings (a sample)
    k = ctx.scale(quick=6000, thorough=60000)
    sample = [cases[rng.randrange(len(cases))] for _ in range(k)]
    resplit = []
    for c in sample:
        data = b''.join(unhx(x) for x in c['chunks'])
        resplit.append(mk_case(c['unix'], c['env'], chunkings(rng, data, 1)[0], case_pref(c)))
    batch(ctx, world, 'lines-random', resplit, envs)

    # 2. random longer conversations over the rich alphabet, random environments, random reads
    n = ctx.scale(quick=16000, thorough=200000)
    # every `_auth_<WORD>` handler of the class is a word of the alphabet (a sixth handler would be found)
    extra = []
    for w in world.handler_words:
        for form in (w, w + b' 1234', w + b' ' + cookie_payload()):
            if form not in RICH_ALPHABET:
                extra.append(form)
    alphabet = RICH_ALPHABET + extra
    ctx.note('handler words found in the class: %s' % b' '.join(world.handler_words).decode('ascii', 'replace'))
    batch(ctx, world, 'lines-random',
          [random_lines_case(rng, envs, alphabet, 12, env_names) for _ in range(n)], envs)
    # each word of the alphabet in every state of a short conversation (first, second, third mechanism,
    # pending negotiation), both transports: the rich forms do not depend on luck
    states = [[], [b'REJECTED'], [b'ERROR', b'REJECTED'], [b'OK 6abbe624c672777bd87ab46e00027706'],
              [b'REJECTED', b'OK 1234'], [b'OK 1234', b'REJECTED'], [b'REJECTED', b'REJECTED', b'DATA']]
    each = []
    for pre in states:
        for w in alphabet:
            for unix in (False, True):
                each.append(mk_case(unix, 'good', [b''.join(l + CRLF for l in pre + [w, b'REJECTED'])]))
    batch(ctx, world, 'lines-random', each, envs)

    # 3. malformed: bytes outside UTF-8, lines around the 16 KiB limit, lone CR / LF, garbage
    n = ctx.scale(quick=1200, thorough=10000)
    mal = []
    for _ in range(n):
        kind = rng.randrange(4)
        if kind == 0:
            seq = [rng.choice(RICH_ALPHABET) for _ in range(rng.randrange(0, 3))] + [rng.choice(NON_UTF8)] \
                  + [rng.choice(RICH_ALPHABET) for _ in range(rng.randrange(0, 2))]
            data = b''.join(l + CRLF for l in seq)
        elif kind == 1:
            ln = rng.choice([16383, 16384, 16385, 16386, 16387, 20000])
            body = (b'ERROR ' + b'x' * ln)[:ln]
            seq = [rng.choice([b'REJECTED', b'DATA'])] * rng.randrange(0, 2) + [body]
            data = b''.join(l + CRLF for l in seq)
            if rng.random() < 0.5:
                data = data[:-rng.randrange(1, 4)]
            data += rng.choice([b'', b'REJECTED\r\n'])
        elif kind == 2:
            data = bytes(rng.choice(b'OK 12\r\n\n\r DATAREJECTED') for _ in range(rng.randrange(1, 60)))
        else:
            data = bytes(rng.randrange(0, 128) for _ in range(rng.randrange(1, 40))) + CRLF
        chunks = chunkings(rng, data, 1)[0]
        if kind == 1 and len(chunks) > 12:
            chunks = [data[:len(data) // 2], data[len(data) // 2:]]
        mal.append(mk_case(rng.random() < 0.5, 'good', chunks))
    batch(ctx, world, 'lines-malformed', mal, envs)

    # 4. the cookie step in every environment
    cookie_cases = []
    datas = [l for l in RICH_ALPHABET if l.startswith(b'DATA')]
    for env in env_names:
        for unix in (False, True):
            for d in datas:
                for pre in ([b'REJECTED'], [b'ERROR'], [], [b'REJECTED', b'REJECTED']):
                    data = b''.join(l + CRLF for l in pre + [d, b'OK 1234', b'ERROR'])
                    cookie_cases.append(mk_case(unix, env, [data]))
    batch(ctx, world, 'cookie-env', cookie_cases, envs)

    # 5. full handshakes: real client against the reference server, every configuration
    run_spec_handshakes(ctx, world, envs)

    # 6. full handshakes against the real bus authenticator (implementation only)
    run_real_bus(ctx, world, envs, tmp)

    # 7. partners that answer ERROR instead of REJECTED, or take an OK back (implementation only)
    run_partner_handshakes(ctx, world, envs)

    # several connections in one process against a keyring whose cookies change between connections
    run_handshake_sequences(ctx, world, tmp, rng)

    # txdbus's client against txdbus's own bus over byte pipes, every delivery chosen by the adversary; compared
    # with the composed model (Auth/Handshake2.lean)
    run_own_bus(ctx, world, tmp, rng)

    # a login name outside ASCII (implementation only; proposed finding, see JUDGE_NON_ASCII_USER)
    run_non_ascii_user(ctx, world, tmp)

    # several connections alive at once, each with its own environment and transport kind; kind flips within one
    # transport class (state that leaks between connections, instances, classes)
    run_state_streams(ctx, world, envs, rng, alphabet)

    # repeat oracle: the first cases of this run again, after everything else ran in the same process
    fc, world.first_canon = world.first_canon, None
    for key in list(fc):
        case, first = fc[key]
        again = run_impl(world, case, envs).canonical()
        ctx.impl_trace()
        ctx.case('history-repeat', sample=None)
        if again != first:
            ctx.violation('outcome-depends-on-process-history',
                          'a connection that behaved one way at the start of the run behaves differently at its end (the same '
                          'process ran %d cases in between); replay runs the whole sequence again' % ctx.cases,
                          inp={'kind': 'process-history', 'seed': ctx.seed, 'tier': ctx.tier, 'case': case},
                          observed=again, expected=first)
            break
    if getattr(ctx, 'c07_confirm_replays', True):
        confirm_replays(ctx, world)


def replay(ctx, data):
    ctx.c07_confirm_replays = False
    tmp = tempfile.mkdtemp(prefix='verif-c07-')
    world = None
    try:
        envs = build_envs(tmp)
        world = World()
        inp = data.get('input', data)
        kind = inp.get('kind', 'run')
        if kind == 'run':
            case = {k: inp[k] for k in ('unix', 'env', 'chunks', 'pref', 'ukind') if k in inp}
            m = ctx.model([driver_line(case, envs)])
            judge(ctx, world, 'replay', case, envs, m[0] if m else None)
        elif kind == 'hs':
            cfg = dict(inp, accepts=[a.encode() for a in inp['accepts']])
            shown = {k: inp[k] for k in ('accepts', 'unix', 'fd_agree', 'env', 'ctx', 'ukind') if k in inp}
            m = ctx.model([hs_driver_line(cfg, envs)])
            base = judge_handshake(ctx, world, envs, cfg, shown, m[0] if m else None)
            if inp.get('delivery'):
                judge_handshake(ctx, world, envs, cfg, dict(shown, delivery=inp['delivery']), None,
                                deliver=delivery_by_name(inp['delivery']), base=base[0])
        elif kind == 'ownbus':
            own_replay(ctx, world, tmp, inp)
        elif kind == 'nonascii':
            run_non_ascii_user(ctx, world, tmp, only={k: inp[k] for k in ('kind', 'user', 'accepts', 'unix')})
        elif kind == 'multi':
            judge_multi(ctx, world, 'replay', [{'sessions': inp['sessions'], 'actions': inp['actions']}], envs)
        elif kind == 'history':
            judge_history(ctx, world, envs, inp['cases'], stream='replay')
        elif kind == 'process-history':
            # the finding depends on everything the process did before: run the whole sequence of that run again
            import random as _random
            ctx.seed, ctx.tier = inp['seed'], inp['tier']
            ctx.rng = _random.Random((inp['seed'], 'C07', 'base').__repr__())
            _run(ctx, world, envs, tmp)
        else:
            run_real_bus(ctx, world, envs, tmp)
    finally:
        if world is not None:
            world.restore()
        shutil.rmtree(tmp, ignore_errors=True)
