"""C03 - Every constructible message serialises well-formed and parses back intact.
Correspondence + oracle harness.

Streams (S3, model vs implementation)
  build              the four constructors on generated arguments: rawMessage / rawHeader / rawPadding /
                     rawBody / serial / the counter afterwards / the exception class, against
                     Txdbus.Msg.construct (the body travels as the bytes marshal.marshal produced - the
                     body codec is C01/C02's model; the message model is parameterised by it)
  wire-codec         the same constructor calls with the model marshalling the body ITSELF (`buildw`: the body codec is
                     `wireCodec`, the instance `parse_marshal_c01*` are about - C01's code model at the offsets message.py uses),
                     bodies from C01's value space (harness/gen_values.py) and the local generator, top level as list / tuple /
                     dbusOrder object; rawMessage, rawBody, the descriptors collected, and the body parseMessage returns
                     (model parse with `wireCodec`) against the real code.  Every case is CERTIFIED by the driver to satisfy
                     the executable premises of `parse_marshal_c01_checked` / `_checked_none` / `parse_marshal_no_body`
                     (`cert=`; stat `certified-inside-theorem-hypotheses`), and the theorem's conclusion is re-checked on it
  construct-malformed  invalid names per constructor, reserved path, reply serials outside uint32,
                     _maxMsgLen lowered around the actual size (subclass, as tests/test_message.py does)
  parse-own          parseMessage(txdbus's own bytes) against Txdbus.Msg.parseMessage (view: type, serial,
                     both flags, nine header attributes, raw header / padding / body split)
  spec-bytes         Lean `Spec.encodeMsg` against the independent Python reference serializer
                     (harness/c03_ref.py), both byte orders, shuffled fields, unknown field codes
  parse-foreign      parseMessage(reference bytes) against the model
  parse-foreign-containers  the same with unknown header fields whose variants hold containers (arrays, structs,
                     dicts, variants): outside the header fragment that the theorems cover - the driver decodes the
                     header with the general code model of the wire codec (Wire/Code.lean) and runs the same
                     `parseAfterHeader` on it
  parse-wrongtype    reference bytes in which known header fields carry a variant of another basic type
                     (a signature sent as STRING of 300 characters or as UINT32, a path as STRING, ...), unknown
                     message types, truncated messages: outside the statement (no oracle), model vs implementation only
  remarshal-parsed   what the bus does when it forwards: parseMessage(bytes), `sender` set, `endian = raw[0]`,
                     `_marshal(False, rawBody=rawBody)` - own bytes and reference bytes (both byte orders); S3 ONLY, against
                     Txdbus.Msg.remarshal (a revert of 9fa03fd shows as a disagreement; the oracle for forwarded bytes is C14's)
  fragment-vs-general  model against model, inside the driver: the header fragment of Msg/HeaderCode.lean against the
                     general code model of the wire codec (Wire/Code.lean, C01/C02) on the signature yyyyuua(yv),
                     for every header built and every message parsed above (`gen=` in the driver's answers)
  general-build / general-parse / general-forward   (extension 2026-09-30) the message model whose header goes through the
                     GENERAL code model of the wire codec (`Code.marshal` / `Code.unmarshal` on `_headerFormat`: what
                     message.py really calls; Msg/General.lean: `constructG`, `parseMessageG`, `forwardG`; driver ops
                     `buildg` / `parseg` / `forwardg`) against the real code - on every case of build / construct-malformed,
                     of parse-own / parse-foreign / parse-foreign-containers / parse-wrongtype, and of the forwarding step
                     (own bytes, reference bytes incl. the ones with container-typed unknown fields).  No fragment for the
                     header CODEC: a variant of any type is decoded / encoded, a case the specialised model calls "outside" is
                     compared like any other (`parseg`: no skip at all).  One limit remains in the FORWARDING call, shared with
                     the specialised model (`wrapAttr`): `ObjectPath(x)` / `Signature(x)` / `UInt32(x)` are modelled for str / int
                     values; a model answer `Exception` is skipped ONLY when the real parsed object holds a non-str path /
                     signature or a non-int reply_serial / unix_fds (`forward_outside_model`), else it is a disagreement.
                     The forwarding step is bus.py's own `BusProtocol.rawDBusMessageReceived` with `bus` / `transport` stubbed
                     (`bus_forwarder`; stat `via=bus.py`), so a change of that seam is seen here.  A failing real parse is
                     tolerated only when it fails inside the BODY decode (stage `parse`); a failure of the forwarding call
                     itself is always compared.  `forwardg` certifies each case inside the hypotheses of `forward_parse`
                     (`cert=`) and re-checks the theorem's conclusion on it (`thm=`)
  history-omitted-fds / history-marshal-again / history-parse-again   (state-leak round 2026-09-30, STATE_AUDIT G2 / G11)
                     HISTORIES: several uses inside ONE scenario, nothing rebuilt, the serial counter never touched by the
                     harness, every step judged.  omitted-fds: constructions of all four classes WITHOUT the `oobFDs`
                     keyword (bodies with and without 'h', twice in a row, then explicit `[]` / None, mixed classes);
                     marshal-again: `m._marshal(False)` twice, `_marshal(True)`, a failing re-marshal in between, other
                     constructions of the same class before and after (driver op `again` = Msg/Again.lean `marshalAgain`,
                     `same=`: the conclusions of `marshal_again_same` / `marshal_again_new` re-checked on every step);
                     parse-again: parse(raw, fds1), parse of another message of the same class with fewer fields, re-inspection
                     of the earlier results, mutation of a result and of its descriptor list, a truncated parse, then
                     parse(raw, fds2) - own bytes and reference bytes.  The ORACLE is the one below applied to every later
                     use; a violation's replay input is the whole history up to the failing step
Oracle (S4, implementation only; nothing from the model) - only what C03's statement says:
  * wf_parse (strict structural parser written from the specification, incl. its header-field type table and required
    fields) accepts rawMessage; type code, flag bits, version, body length word; the serial in the bytes is the object's
    serial, non-zero, < 2^32; the header fields are exactly the non-None arguments each once; zero padding < 8;
    rawMessage = rawHeader + rawPadding + rawBody
  * parse(build(x)) == x and parse(reference(x)) == x on type, serial, both flags, the nine attributes, signature and
    (decoded) body - in both tiers also for body signatures of exactly 253, 254 and 255 characters, own and foreign, both
    byte orders (the SIGNATURE limit; 256 characters must not construct)
  * FRESH serial: over runs of constructions of all four classes (parse / forward in between, the counter never touched
    by the harness) no serial is given twice, all >= 1 and < 2^32.  HOW the counter advances is S3 only
  * a constructor given a name outside the DBus grammar or the reserved path (method call) must raise; so must one given
    a body with more or fewer values than its signature has complete types (the bytes could not carry that body)
  * a message longer than the limit must not be constructed: 2^27 always; the class's lower `_maxMsgLen` only while a probe
    (the suite's own test_too_long) shows that the code honours a subclass value.  Never: "exactly the limit must construct"
  * (histories) the same clauses, nothing more, on every LATER use inside one scenario: a message constructed after others
    without a descriptor list carries exactly its own descriptors (UNIX_FDS = their number, indices from 0, no UNIX_FDS when it
    has none); an object marshalled again is well-formed again with every field once and parses back to its arguments, and
    a new serial asked for (`newSerial=True`) that differs from the old one was not given before; bytes parsed again - after
    other parses, after the receiver changed the earlier result, with another descriptor list - give the message again,
    with THAT list's descriptors; an object parseMessage returned is not changed by later parses (inspected only while
    nobody has mutated anything).  "The same bytes / the same outcome as the first time" is model correspondence (S3) only
  NOT judged here (model correspondence only): the bus's forwarding call `_marshal(False, rawBody=...)` (C14's statement),
  UNIX_FDS for a pre-filled descriptor list, messages outside the statement (parse-wrongtype)
"""
import json
import struct

from harness import c03_ref as R
from harness import c03_probe as P
from harness import valcodec as vc
try:                                    # the shared type-directed generator of C01/C02 (second source of bodies)
    from harness import gen_values as gv
except Exception:                       # pragma: no cover - the local generator below is always available
    gv = None

STREAMS = ['build', 'wire-codec', 'construct-malformed', 'parse-own', 'spec-bytes', 'parse-foreign', 'parse-foreign-containers',
           'parse-wrongtype', 'fragment-vs-general', 'remarshal-parsed', 'tables-immutable',
           'general-build', 'general-parse', 'general-forward',
           'history-omitted-fds', 'history-marshal-again', 'history-parse-again']
THEOREMS = ['marshal_wellformed', 'serial_fresh', 'parse_marshal', 'parse_foreign', 'cannot_construct',
            'constructed_from_arguments', 'parse_foreign_of_constructed',
            'parse_marshal_c01', 'parse_marshal_c01_checked', 'parse_marshal_c01_checked_none', 'parse_marshal_no_body',
            'parse_foreign_with_C02', 'parse_foreign_of_constructed_c01', 'body_in_place',
            'headerCode_eq_general_decode', 'headerCode_eq_general_encode', 'headerCode_encode_fragment', 'pad_agree',
            'construct_general_eq', 'parse_general_eq', 'parse_general_of_ok', 'marshal_wellformed_general',
            'parse_marshal_general', 'parse_foreign_general', 'parse_foreign_containers',
            'remarshal_parse', 'forward_parse', 'remarshal_general_eq', 'forward_drops_field_outside_table',
            'headerCode_outside_fragment', 'general_result_shape', 'forward_foreign',
            'headerCode_outside_fragment_anchored', 'forward_parse_general', 'parse_general_calls', 'sender_in_every_table',
            'forward_succeeds',
            'marshal_again_same', 'marshal_again_new', 'shared_descriptor_list_leaks']
TRUSTED_BASE = [
    'message body bytes: the model takes the bytes marshal.marshal produced as an input (opaque body codec; '
    'C01/C02 own the codec model), and the theorems take the codec round trip as a named hypothesis',
    'Python struct.pack/unpack_from for B and I, codecs utf-8/ascii strict, getattr/setattr on instances, '
    'class attribute defaults (mirrored; validated by the streams)',
    'harness/c03_ref.py: the reference serializer and the well-formedness parser (written from the DBus '
    'specification) are the judge of "well-formed" and of "bytes another implementation would produce"',
]
ASSUMPTIONS = [
    'the class tables of message.py (_headerAttrs of the four classes, _hcode, _mtype, _headerFormat) are constants: '
    'the model and Gen/Message.lean read them once; the harness re-reads them after every construction and reports a '
    'change as the broken obligation `tables-immutable`',
    'expectReply / autoStart are bools (any truthy value is accepted by the code; not generated)',
    'constructor arguments have their documented Python types (str / int / None); a str may hold any code '
    'points except lone surrogates',
    'fewer than 2^32 messages are constructed by one process (the serial counter is not wrapped; beyond it '
    'struct.pack refuses and no message is constructed)',
    'sender is not validated (not in the statement\'s list)',
]
RULE = ('a case is one constructor call (class x subset of optional arguments x flags x body signature and '
        'values x counter value x limit) or one foreign message (byte order x field order x unknown fields); '
        'distinct = distinct canonical JSON; non-trivial = at least one optional header field or a body')

CLASSES = ['call', 'ret', 'err', 'sig']
MTYPE = {'call': 1, 'ret': 2, 'err': 3, 'sig': 4}
CLSNAME = {'call': 'MethodCallMessage', 'ret': 'MethodReturnMessage', 'err': 'ErrorMessage', 'sig': 'SignalMessage'}
ATTRS = ['path', 'interface', 'member', 'error_name', 'reply_serial', 'destination', 'sender', 'signature', 'unix_fds']
CODE = {'path': 1, 'interface': 2, 'member': 3, 'error_name': 4, 'reply_serial': 5, 'destination': 6,
        'sender': 7, 'signature': 8, 'unix_fds': 9}
ARGS = {'call': ['path', 'member', 'interface', 'destination', 'signature'],
        'ret': ['reply_serial', 'destination', 'signature'],
        'err': ['error_name', 'reply_serial', 'destination', 'signature', 'sender'],
        'sig': ['path', 'member', 'interface', 'destination', 'signature']}
DEFAULT_MAX = 2 ** 27


# ---------------------------------------------------------------------------------- reporting (exemplar choice)
# vlib keeps, per key, the SMALLEST input as the exemplar that goes into the replay file.  A leak between uses is often hit
# by a single case too - by luck, because earlier cases of the same process left something behind - and that case, replayed
# alone in a fresh process, reports "property holds" (STATE_AUDIT M6).  The same is true of the first steps of a history that
# runs late in the process.  So violations are collected here and handed to ctx at the end of run() / replay(); per key the
# exemplar is the smallest candidate that REPRODUCES the key in a fresh interpreter (harness.c03.replay on it, no model):
# prefixes of histories up to the failing step first, then whole histories (a history repeats its uses, so the whole of it
# shows in a clean process what its first step showed in a polluted one), then the smallest single case.  When nothing
# reproduces, the smallest candidate is stored and the text says so.  (Subprocesses only when there IS a violation.)
PENDING = {}
CURRENT_HISTORY = [None]
KEEP = 3


def _size(inp):
    return len(json.dumps(inp, sort_keys=True, default=repr))


def _keep(lst, rec):
    if any(r['inp'] is rec['inp'] for r in lst):
        return
    lst.append(rec)
    lst.sort(key=lambda r: r['size'])
    del lst[KEEP:]


def violation(ctx, key, what, inp, observed=None, expected=None):
    rec = {'what': what, 'inp': inp, 'observed': observed, 'expected': expected, 'size': _size(inp)}
    slot = PENDING.setdefault(key, {'count': 0, 'first': [], 'prefix': [], 'full': [], 'single': []})
    slot['count'] += 1
    if isinstance(inp, dict) and inp.get('kind') == 'history':
        if len(slot['first']) < 2:          # the earliest hits: the ladders run in a process that is still clean
            slot['first'].append(rec)
        _keep(slot['prefix'], rec)
        full = CURRENT_HISTORY[0]
        if full is not None and len(full['steps']) > len(inp['steps']):
            _keep(slot['full'], dict(rec, inp=full, size=_size(full)))
    else:
        _keep(slot['single'], rec)


_REPRO = {}
VERIFY = {'on': True, 'budget': 30}          # at most 30 fresh-interpreter replays per run (only spent when there are violations)


def reproduced_keys(ctx, inp):
    """The violation keys harness.c03.replay reports for `inp` in a fresh interpreter on the same tree (a set); None: could
    not tell (verification switched off, subprocess failed)."""
    import os
    import subprocess
    import sys
    if os.environ.get('C03_NO_VERIFY') or not VERIFY['on']:
        return None
    if id(inp) in _REPRO:
        return _REPRO[id(inp)][1]
    if VERIFY['budget'] <= 0:
        return None
    VERIFY['budget'] -= 1
    code = ('import sys, json\n'
            'sys.path.insert(0, %r)\n'
            'from vlib import ctx as C\n'
            'C.use_repo(%r)\n'
            'import harness.c03 as H\n'
            'c = C.Ctx("C03", "quick", 0, %r)\n'
            'c.model_available = False\n'
            'H.replay(c, {"input": json.load(sys.stdin)})\n'
            'print("KEYS " + json.dumps(sorted(v["key"] for v in c.violations)))\n'
            % (os.path.dirname(os.path.dirname(os.path.abspath(__file__))), ctx.repo, ctx.repo))
    got = None
    try:
        p = subprocess.run([sys.executable, '-c', code], input=json.dumps(inp, default=repr).encode(), stdout=subprocess.PIPE,
                           stderr=subprocess.PIPE, timeout=120, env=dict(os.environ, C03_NO_VERIFY='1'))
        for ln in p.stdout.decode('utf-8', 'replace').splitlines():
            if ln.startswith('KEYS '):
                got = set(json.loads(ln[5:]))
    except Exception:
        got = None
    _REPRO[id(inp)] = (inp, got)          # (the input is kept alive so that its id stays its own)
    return got


def flush_violations(ctx):
    chosen = {}
    for key, slot in PENDING.items():
        cands = []
        for rec in slot['first'] + slot['prefix'] + slot['full'] + slot['single'][:1]:
            if not any(c['inp'] is rec['inp'] for c in cands):
                cands.append(rec)
        slot['cands'] = cands
        for rec in cands:
            got = reproduced_keys(ctx, rec['inp'])
            if got is None or key in got:     # reproduced, or verification is switched off / not possible
                chosen[key] = (rec, got is not None)
                break
    for key, slot in list(PENDING.items()):
        if key not in chosen:
            # an input that was verified for ANOTHER key and shows this one too (one leak, several symptoms)
            pool = [(_size(inp), inp) for inp, got in _REPRO.values() if got and key in got]
            if pool:
                inp = min(pool, key=lambda t: t[0])[1]
                chosen[key] = (dict(slot['cands'][0], inp=inp), True)
        if key in chosen:
            rec, verified = chosen[key]
            if verified:
                ctx.stat('exemplar-reproduced-in-fresh-process')
        else:
            rec = slot['cands'][0]
            rec = dict(rec, what=rec['what'] + ' [seen after earlier uses in the same process; none of the %d stored candidate '
                       'inputs shows it alone in a fresh process]' % len(slot['cands']))
            ctx.stat('exemplar-not-reproduced-alone')
        for _ in range(slot['count']):
            ctx.violation(key, rec['what'], inp=rec['inp'], observed=rec['observed'], expected=rec['expected'])
    PENDING.clear()
    _REPRO.clear()
    VERIFY.update(on=True, budget=30)


# ---------------------------------------------------------------------------------- canonical forms
def exc_name(e):
    if isinstance(e, struct.error):
        return 'struct.error'
    n = type(e).__name__
    if isinstance(e, UnicodeError):
        return 'UnicodeError'
    if n in ('MarshallingError', 'TypeError', 'ValueError', 'IndexError', 'KeyError', 'AttributeError',
             'RuntimeError', 'StopIteration', 'RecursionError'):
        return n
    return 'Exception'


def cv(v):
    """Canonical JSON of a decoded Python value (plain types, floats by bit pattern, dicts sorted)."""
    if v is None:
        return None
    if isinstance(v, bool):
        return ['b', v]
    if isinstance(v, int):
        return ['i', int(v)]
    if isinstance(v, float):
        return ['d', struct.pack('>d', v).hex()]
    if isinstance(v, str):
        return ['s', str(v)]
    if isinstance(v, (list, tuple)):
        return ['L'] + [cv(x) for x in v]
    if isinstance(v, dict):
        return ['D'] + sorted(([cv(k), cv(x)] for k, x in v.items()), key=lambda p: json.dumps(p))
    if isinstance(v, (bytes, bytearray)):
        return ['L'] + [cv(x) for x in v]
    return ['?', type(v).__name__]


def ca(v):
    """Canonical text of a header attribute value, the spelling the driver prints."""
    if v is None:
        return 'N'
    if isinstance(v, bool):
        return 'b1' if v else 'b0'
    if isinstance(v, int):
        return 'i%d' % int(v)
    if isinstance(v, float):
        return 'd' + struct.pack('>d', v).hex()
    if isinstance(v, str):
        return 's' + vc.str_hex(v)
    if isinstance(v, (list, tuple)):            # a known header field sent with a container-typed variant
        return 'L[' + ''.join(ca(x) + ',' for x in v) + ']'
    if isinstance(v, dict):
        return 'D[' + ''.join(ca(k) + ':' + ca(x) + ',' for k, x in v.items()) + ']'
    return '?' + type(v).__name__


def opt_s(s):
    return 'N' if s is None else 's' + vc.str_hex(s)


def hexs(b):
    return vc.bytes_hex(b)


# ---------------------------------------------------------------------------------- abstract values <-> JSON
def abs_to_json(t, v):
    c = t[0]
    if c == 'v':
        return {'V': v.sig, 'v': abs_to_json(v.sig, v.val)}
    if c == 'a':
        et = t[1:]
        if et[0] == '{':
            kt, vt = R.split_sig(et[1:-1])
            return [[abs_to_json(kt, k), abs_to_json(vt, x)] for k, x in v]
        return [abs_to_json(et, e) for e in v]
    if c == '(':
        return [abs_to_json(ft, fv) for ft, fv in zip(R.split_sig(t[1:-1]), v)]
    if c == 'd':
        return struct.pack('>d', v).hex()
    return v


def abs_from_json(t, j):
    c = t[0]
    if c == 'v':
        return R.Var(j['V'], abs_from_json(j['V'], j['v']))
    if c == 'a':
        et = t[1:]
        if et[0] == '{':
            kt, vt = R.split_sig(et[1:-1])
            return [(abs_from_json(kt, k), abs_from_json(vt, x)) for k, x in j]
        return [abs_from_json(et, e) for e in j]
    if c == '(':
        return [abs_from_json(ft, fv) for ft, fv in zip(R.split_sig(t[1:-1]), j)]
    if c == 'd':
        return struct.unpack('>d', bytes.fromhex(j))[0]
    return j


def abs_list_to_json(sig, vals):
    return [abs_to_json(t, v) for t, v in zip(R.split_sig(sig), vals)]


def abs_list_from_json(sig, js):
    return [abs_from_json(t, j) for t, j in zip(R.split_sig(sig), js)]


# ---------------------------------------------------------------------------------- generators: names
LET = 'abcdefghijklmnopqrstuvwxyzABCDEFGHIJKLMNOPQRSTUVWXYZ_'
DIG = '0123456789'


def g_elem(rng, hyphen=False, digit_first=False, maxlen=8):
    n = rng.choice([1, 1, 2, 3, rng.randint(1, maxlen)])
    chars = LET + DIG + ('-' if hyphen else '')
    first = chars if digit_first else LET + ('-' if hyphen else '')
    return rng.choice(first) + ''.join(rng.choice(chars) for _ in range(n - 1))


def g_member(rng):
    if rng.random() < 0.03:
        return 'm' * 255
    return g_elem(rng, maxlen=12)


def g_interface(rng):
    if rng.random() < 0.03:
        return 'a.' + 'b' * 253
    return '.'.join(g_elem(rng) for _ in range(rng.choice([2, 2, 3, 4, 6])))


def g_bus(rng):
    if rng.random() < 0.03:
        return ':1.' + '2' * 252
    k = rng.choice([2, 2, 3, 4])
    if rng.random() < 0.5:
        return ':' + '.'.join(g_elem(rng, hyphen=True, digit_first=True) for _ in range(k))
    return '.'.join(g_elem(rng, hyphen=True) for _ in range(k))


def g_path(rng):
    k = rng.choice([0, 1, 1, 2, 3, 5])
    if rng.random() < 0.02:
        return '/' + 'p' * 300
    return '/' + '/'.join(g_elem(rng, digit_first=True) for _ in range(k))


UNI = ['é', 'ß', '中', '\U0001f600', '٣', ' ', '-', ':', '.', '/', '\x7f', '\x80', '߿', 'ࠀ',
       '￿', '\U00010000', '\U0010ffff', '퟿', '', '\x01', '\n']


def g_text(rng, maxlen=10):
    n = rng.choice([0, 1, 2, 3, rng.randint(0, maxlen)])
    return ''.join(rng.choice(UNI) if rng.random() < 0.4 else rng.choice(LET + DIG) for _ in range(n))


def g_sender(rng):
    r = rng.random()
    if r < 0.6:
        return g_bus(rng)
    return g_text(rng)          # not validated by any constructor: any text (without NUL) is marshalled


U32 = [0, 1, 2, 255, 256, 2573, 65535, 65536, 2 ** 31 - 1, 2 ** 31, 2 ** 32 - 2, 2 ** 32 - 1]


def g_u32(rng):
    return rng.choice(U32) if rng.random() < 0.5 else rng.getrandbits(rng.choice([4, 8, 16, 32]))


# ---------------------------------------------------------------------------------- generators: bodies
BASIC = 'ybnqiuxtdsog'


def g_type(rng, depth=0, allow_h=False):
    r = rng.random()
    if depth >= 3 or r < 0.55:
        return rng.choice(BASIC + ('h' if allow_h else ''))
    if r < 0.70:
        return 'a' + g_type(rng, depth + 1, allow_h)
    if r < 0.80:
        return 'a{' + rng.choice('ynqiuxtsog') + g_type(rng, depth + 1) + '}'
    if r < 0.92:
        return '(' + ''.join(g_type(rng, depth + 1, allow_h) for _ in range(rng.choice([1, 2, 2, 3]))) + ')'
    return 'v'


INT_RANGE = {'y': (0, 255), 'n': (-2 ** 15, 2 ** 15 - 1), 'q': (0, 2 ** 16 - 1), 'i': (-2 ** 31, 2 ** 31 - 1),
             'u': (0, 2 ** 32 - 1), 'x': (-2 ** 63, 2 ** 63 - 1), 't': (0, 2 ** 64 - 1)}
WRAP = {'y': 'Byte', 'n': 'Int16', 'q': 'UInt16', 'i': 'Int32', 'u': 'UInt32', 'x': 'Int64', 't': 'UInt64'}
FLOATS = [0.0, -0.0, 1.5, -2.25, 1e300, 5e-324, float('inf'), float('-inf'), float('nan')]
SIGS = ['', 'i', 'as', 'a{sv}', '(ii)', 'v', 'ay', 'a(yv)', 'h', 'xd(s)']


def g_int(rng, c):
    lo, hi = INT_RANGE[c]
    r = rng.random()
    if r < 0.3:
        return rng.choice([lo, hi, 0, 1, min(hi, 127), min(hi, 128)])
    return rng.randint(lo, hi)


def g_val(rng, t, marshal, fds, keyed=False):
    """Returns (python value handed to txdbus, abstract value for the reference).  `fds`: running fd counter."""
    c = t[0]
    if c in INT_RANGE:
        n = g_int(rng, c)
        py = getattr(marshal, WRAP[c])(n) if (rng.random() < 0.3 and not keyed) else n
        return py, n
    if c == 'b':
        b = rng.random() < 0.5
        return b, b
    if c == 'd':
        x = rng.choice(FLOATS) if (rng.random() < 0.5 and not keyed) else rng.randint(-1000, 1000) / 8.0
        return x, x
    if c == 's':
        s = g_text(rng).replace('\0', '')
        return s, s
    if c == 'o':
        p = g_path(rng)
        return (marshal.ObjectPath(p) if rng.random() < 0.3 and not keyed else p), p
    if c == 'g':
        s = rng.choice(SIGS)
        return (marshal.Signature(s) if rng.random() < 0.3 and not keyed else s), s
    if c == 'h':
        fds[0] += 1
        fd = 100 + fds[0]
        return fd, fd
    if c == 'v':
        return g_variant(rng, marshal)
    if c == 'a':
        et = t[1:]
        if et[0] == '{':
            kt, vt = R.split_sig(et[1:-1])
            d, pairs, seen = {}, [], set()
            for _ in range(rng.choice([0, 1, 2, 3])):
                kp, ka = g_val(rng, kt, marshal, fds, keyed=True)
                if ka in seen:
                    continue
                seen.add(ka)
                vp, va = g_val(rng, vt, marshal, fds)
                d[kp] = vp
                pairs.append((ka, va))
            return d, pairs
        n = rng.choice([0, 0, 1, 2, 3, 5])
        items = [g_val(rng, et, marshal, fds) for _ in range(n)]
        pys = [p for p, _ in items]
        if et == 'y' and rng.random() < 0.5:
            pys = bytearray(int(p) for p in pys)
        elif rng.random() < 0.2:
            pys = tuple(pys)
        return pys, [a for _, a in items]
    if c == '(':
        items = [g_val(rng, ft, marshal, fds) for ft in R.split_sig(t[1:-1])]
        pys = [p for p, _ in items]
        return (tuple(pys) if rng.random() < 0.5 else pys), [a for _, a in items]
    raise ValueError(t)


def g_variant(rng, marshal):
    """A value whose variant type txdbus infers unambiguously; returns (py, Var(sig, abstract))."""
    k = rng.randrange(20)
    m = marshal
    if k < 7:
        c = 'ynqiuxt'[k]
        n = g_int(rng, c)
        return getattr(m, WRAP[c])(n), R.Var(c, n)
    if k == 7:
        b = rng.random() < 0.5
        return (m.Boolean(1 if b else 0) if rng.random() < 0.5 else b), R.Var('b', b)
    if k == 8:
        n = g_int(rng, 'i')
        return n, R.Var('i', n)
    if k == 9:
        x = rng.choice(FLOATS)
        return x, R.Var('d', x)
    if k == 10:
        s = g_text(rng).replace('\0', '')
        return s, R.Var('s', s)
    if k == 11:
        p = g_path(rng)
        return m.ObjectPath(p), R.Var('o', p)
    if k == 12:
        s = rng.choice(SIGS)
        return m.Signature(s), R.Var('g', s)
    if k == 13:
        xs = [g_text(rng, 4).replace('\0', '') for _ in range(rng.choice([1, 2, 3]))]
        return xs, R.Var('as', xs)
    if k == 14:
        s, n = g_text(rng, 4).replace('\0', ''), g_int(rng, 'i')
        return (s, n), R.Var('(si)', [s, n])
    if k == 15:
        ks = sorted({g_text(rng, 4).replace('\0', '') for _ in range(rng.choice([1, 2]))})
        d = {kk: g_int(rng, 'i') for kk in ks}
        return d, R.Var('a{si}', [(kk, d[kk]) for kk in d])
    if k == 16:
        bs = [rng.randrange(256) for _ in range(rng.choice([0, 1, 3]))]
        return bytearray(bs), R.Var('ay', bs)
    if k == 17:
        return [], R.Var('av', [])
    if k == 18:
        n, s = g_int(rng, 'i'), g_text(rng, 3).replace('\0', '')
        return [n, s], R.Var('av', [R.Var('i', n), R.Var('s', s)])
    n = 2 ** 31 + rng.getrandbits(20)          # plain int beyond int32: inferred 'x' (repair 6ba9f66)
    return n, R.Var('x', n)


def sv_to_abs(ty, sv):
    """A spec value of harness/gen_values.py as an abstract value of harness/c03_ref.py."""
    if isinstance(ty, str):
        if ty == 'v':
            return R.Var(gv.render(sv[1]), sv_to_abs(sv[1], sv[2]))
        return sv
    if ty[0] == 'a':
        el = ty[1]
        if not isinstance(el, str) and el[0] == '{':
            return [(sv_to_abs(el[1], k), sv_to_abs(el[2], v)) for k, v in sv]
        return [sv_to_abs(el, e) for e in sv]
    if ty[0] == '(':
        return [sv_to_abs(f, e) for f, e in zip(ty[1], sv)]
    return (sv_to_abs(ty[1], sv[0]), sv_to_abs(ty[2], sv[1]))


def g_body_shared(rng, allow_h):
    """A body from the shared generator (deeper nesting, dbusOrder objects, boundary values)."""
    vc.register_obj_class(gv.DbusOrderStruct, 0)
    tys, svs, pvs, fds, _ = gv.gen_case(rng, depth=3, max_n=3, allow_fd=allow_h, allow_variant=True)
    sig = gv.render_all(tys)
    return sig, list(pvs), [sv_to_abs(t, s) for t, s in zip(tys, svs)], len(fds)


def g_body(rng, marshal, allow_h):
    """Returns (signature or None, python values or None, abstract values, number of descriptors)."""
    r = rng.random()
    if r < 0.25:
        return None, None, [], 0
    if r < 0.30:
        return '', rng.choice([None, []]), [], 0
    if gv is not None and r < 0.60:
        try:
            sig, py, ab, nfd = g_body_shared(rng, allow_h)
            if sig:
                vc.to_line(list(py))          # must be expressible for the replay file
                return sig, py, ab, nfd
        except Exception:
            pass
    n = rng.choice([1, 1, 2, 3])
    types = [g_type(rng, 0, allow_h and rng.random() < 0.5) for _ in range(n)]
    if allow_h and rng.random() < 0.25:
        types.insert(rng.randrange(len(types) + 1), rng.choice(['h', 'ah', '(hs)']))
    fds = [0]
    items = [g_val(rng, t, marshal, fds) for t in types]
    return ''.join(types), [p for p, _ in items], [a for _, a in items], fds[0]


# ---------------------------------------------------------------------------------- generators: messages
def g_case(rng, marshal, stream='build'):
    cls = rng.choice(CLASSES)
    x = {'cls': cls, 'er': True, 'as': True, 'oob': None}
    for a in ATTRS:
        x[a] = None
    opt = lambda p=0.5: rng.random() < p
    if cls in ('call', 'sig'):
        x['path'] = g_path(rng)
        x['member'] = g_member(rng)
        x['interface'] = g_interface(rng) if (cls == 'sig' or opt()) else None
    if cls in ('ret', 'err'):
        x['reply_serial'] = g_u32(rng)
    if cls == 'err':
        x['error_name'] = g_interface(rng)
        x['sender'] = g_sender(rng) if opt(0.4) else None
    x['destination'] = g_bus(rng) if opt() else None
    if cls == 'call':
        x['er'] = opt(0.6)
        x['as'] = opt(0.6)
        x['oob'] = rng.choice([None, None, 0, 0, 0, 2]) if stream == 'build' else rng.choice([None, 0])
    allow_h = cls == 'call' and x['oob'] is not None
    if stream == 'build':
        # (state-leak round) the optional argument is really LEFT OUT in half of the calls that give no list, and a few
        # bodies hold a descriptor although no list is given (any class: TypeError today, the constructor's business)
        x['kw'] = not (x['oob'] is None and rng.random() < 0.5)
        if x['oob'] is None and rng.random() < 0.05:
            allow_h = True
    if stream == 'foreign':
        # what other implementations send: flags on every message type (signals from libdbus carry NO_REPLY_EXPECTED),
        # SENDER on everything a bus has routed, descriptors on any type
        x['er'] = opt(0.6)
        x['as'] = opt(0.6)
        if opt(0.5):
            x['sender'] = g_sender(rng) if opt(0.3) else g_bus(rng)
        allow_h = opt(0.5)
    sig, py, ab, nfd = g_body(rng, marshal, allow_h)
    x['signature'] = sig
    x['body_line'] = None if py is None else vc.to_line(list(py))
    x['abs'] = abs_list_to_json(sig or '', ab)
    # counter value before the construction, and the size limit of the class
    r = rng.random()
    x['next'] = 1 if r < 0.15 else rng.choice([2, 255, 256, 257, 2573, 65535, 65536, 2 ** 31, 2 ** 32 - 2, 2 ** 32 - 1]) \
        if r < 0.5 else rng.randint(1, 10 ** rng.choice([2, 4, 9]))
    x['max'] = DEFAULT_MAX
    return x


def large_cases(marshal):
    """Bodies beyond 64 KiB (a long string, a long byte array), in both tiers."""
    out = []
    for cls, sig, py, ab in (('call', 's', ['x' * 100000], ['x' * 100000]),
                             ('sig', 'ay', [bytearray(range(256)) * 300], [list(range(256)) * 300])):
        x = {'cls': cls, 'er': True, 'as': cls != 'call', 'oob': None, 'next': 2573, 'max': DEFAULT_MAX}
        for a in ATTRS:
            x[a] = None
        x.update(path='/big', member='m', interface='a.b' if cls == 'sig' else None, signature=sig,
                 body_line=vc.to_line(list(py)), abs=abs_list_to_json(sig, ab))
        out.append(x)
    return out


def long_signature_cases():
    """Body signatures at the limit of the SIGNATURE type (at most 255 bytes): 253, 254 and 255 BYTE arguments, one STRUCT
    of 253 INT32 (255 characters), an ARRAY nest; on every class.  (256 characters cannot be encoded: construct-malformed.)"""
    out = []
    sigs = [('y' * 253, list(range(253))), ('y' * 254, [i % 256 for i in range(254)]), ('y' * 255, [i % 256 for i in range(255)]),
            ('(' + 'i' * 253 + ')', [[i - 100 for i in range(253)]]),
            ('s' + 'a' * 31 + 'u' + 'b' * 222, ['x', [] if False else _nest(31), *([True, False] * 111)])]
    for k, (sig, vals) in enumerate(sigs):
        assert len(sig) in (253, 254, 255), len(sig)
        cls = CLASSES[k % 4]
        x = {'cls': cls, 'er': True, 'as': True, 'oob': None, 'next': 300 + k, 'max': DEFAULT_MAX}
        for a in ATTRS:
            x[a] = None
        if cls in ('call', 'sig'):
            x.update(path='/sig', member='m')
        if cls == 'sig':
            x['interface'] = 'a.b'
        if cls in ('ret', 'err'):
            x['reply_serial'] = 9
        if cls == 'err':
            x['error_name'] = 'a.E'
        x.update(signature=sig, body_line=vc.to_line(list(vals)), abs=abs_list_to_json(sig, vals), _what='long-signature')
        out.append(x)
    return out


def _nest(depth):
    """A value of type a^depth u: nested one-element lists around an empty list."""
    v = []
    for _ in range(depth - 1):
        v = [v]
    return v


def overlong_signature_cases():
    """256 and 300 characters: `marshal_signature` cannot pack the length into one byte - no message."""
    out = []
    for n in (256, 300):
        x = {'cls': 'call', 'er': True, 'as': True, 'oob': None, 'next': 5, 'max': DEFAULT_MAX}
        for a in ATTRS:
            x[a] = None
        x.update(path='/sig', member='m', signature='y' * n, body_line=vc.to_line([1] * n), abs=[1] * n,
                 _what='overlong-signature')
        out.append(x)
    return out


def nontrivial(x):
    return any(x[a] is not None for a in ('interface', 'destination', 'sender', 'signature')) or not x['er'] or not x['as']


def case_body(x):
    return None if x['body_line'] is None else vc.from_line(x['body_line'])


def case_abs(x):
    return abs_list_from_json(x['signature'] or '', x['abs'])


def expected_fds(x):
    """The descriptors in the body, in order of appearance (what marshalling collects)."""
    out = []

    def walk(t, v):
        c = t[0]
        if c == 'h':
            out.append(v)
        elif c == 'a':
            et = t[1:]
            if et[0] == '{':
                kt, vt = R.split_sig(et[1:-1])
                for k, e in v:
                    walk(kt, k)
                    walk(vt, e)
            else:
                for e in v:
                    walk(et, e)
        elif c == '(':
            for ft, fv in zip(R.split_sig(t[1:-1]), v):
                walk(ft, fv)
        elif c == 'v':
            walk(v.sig, v.val)
    if x['signature']:
        for t, v in zip(R.split_sig(x['signature']), case_abs(x)):
            walk(t, v)
    return out


# ---------------------------------------------------------------------------------- the real code
def make_class(message, cls, maxlen):
    base = getattr(message, CLSNAME[cls])
    if maxlen == DEFAULT_MAX:
        return base
    return type(base.__name__, (base,), {'_maxMsgLen': maxlen})


def get_next(message):
    """The serial counter, wherever it lives (harness/c03_probe.serial_counter); None when it cannot be located."""
    loc = P.serial_counter(message)
    return getattr(loc[0], loc[1]) if loc else None


def set_next(message, value):
    loc = P.serial_counter(message)
    if loc and value is not None:
        setattr(loc[0], loc[1], value)
        return True
    return False


def tables_snapshot(message, cheap=True):
    """The class tables the model treats as constants.  Fast path: the private names; when one of them is gone the
    tables are found through public behaviour (harness/c03_probe.py) - only at stream boundaries (`cheap=False`)."""
    try:
        return (tuple((k, tuple(map(tuple, getattr(message, k)._headerAttrs))) for k in CLSNAME.values()),
                tuple(sorted(message._hcode.items())), tuple(sorted((c, k.__name__) for c, k in message._mtype.items())),
                message._headerFormat)
    except AttributeError:
        if cheap:
            return None
        from txdbus import marshal
        hs = P.header_signature(message, marshal)
        fb = P.field_by_code(message, marshal, hs)
        return (tuple((k, tuple(P.header_attrs(message, marshal, hs, k, fb))) for k in CLSNAME.values()),
                tuple(sorted(fb.items())),
                tuple(sorted((c, k.__name__) for c, k in P.class_by_type(message, marshal, hs).items())), hs)


TABLES = {}


def check_tables(ctx, message, inp, cheap=None):
    """The model (and the generated Gen/Message.lean) assume that constructing and parsing never change the class
    tables; a change is reported as a broken correspondence obligation with the call after which it was seen."""
    try:
        snap = tables_snapshot(message, cheap=(isinstance(inp, dict) and 'cls' in inp) if cheap is None else cheap)
    except Exception as e:                    # the harness's own reach into internals failed: never a finding
        ctx.note('tables-immutable: class tables could not be read (%s: %s)' % (type(e).__name__, e))
        return
    if snap is None:
        return
    base = TABLES.setdefault(id(message), snap)
    if snap != base:
        TABLES[id(message)] = snap
        ctx.disagree('tables-immutable', inp, 'class tables unchanged', {'_headerAttrs/_hcode/_mtype now': repr(snap)[:600]},
                     detail='a class table of message.py was mutated at run time')


_LIMIT_PROBE = {}


def limit_honoured(message):
    """Does a subclass's lower `_maxMsgLen` take effect (what tests/test_message.py::test_too_long checks)?"""
    if id(message) not in _LIMIT_PROBE:
        saved = get_next(message)
        try:
            type('E', (message.ErrorMessage,), {'_maxMsgLen': 1})('foo.bar', 5)
            _LIMIT_PROBE[id(message)] = False
        except Exception:
            _LIMIT_PROBE[id(message)] = True
        finally:
            set_next(message, saved)
    return _LIMIT_PROBE[id(message)]


def real_max(message, x):
    """The `_maxMsgLen` the constructed object will see: the class's own value unless the case lowers it."""
    if x['max'] != DEFAULT_MAX:
        return x['max']
    return getattr(message, CLSNAME[x['cls']])._maxMsgLen


def construct_real(message, x, poke=True):
    """Run the constructor; returns (observation dict, message or None, oobFDs list after).  `x['kw']` False (only with
    `x['oob']` None): the `oobFDs` keyword is not passed at all."""
    K = make_class(message, x['cls'], x['max'])
    body = case_body(x)
    oob = None if x['oob'] is None else [900 + i for i in range(x['oob'])]
    kw = {} if (oob is None and not x.get('kw', True)) else {'oobFDs': oob}
    if poke:
        set_next(message, x['next'])
    try:
        if x['cls'] == 'call':
            m = K(x['path'], x['member'], interface=x['interface'], destination=x['destination'],
                  signature=x['signature'], body=body, expectReply=x['er'], autoStart=x['as'], **kw)
        elif x['cls'] == 'ret':
            m = K(x['reply_serial'], body=body, destination=x['destination'], signature=x['signature'])
        elif x['cls'] == 'err':
            m = K(x['error_name'], x['reply_serial'], destination=x['destination'], signature=x['signature'],
                  body=body, sender=x['sender'])
        else:
            m = K(x['path'], x['member'], x['interface'], destination=x['destination'],
                  signature=x['signature'], body=body)
    except Exception as e:
        return {'ok': False, 'err': exc_name(e), 'next': get_next(message)}, None, oob
    obs = {'ok': True, 'serial': m.serial, 'next': get_next(message),
           'raw': hexs(m.rawMessage), 'hdr': hexs(P.raw_parts(m)[0]), 'pad': hexs(P.raw_parts(m)[1]),
           'body': hexs(P.raw_parts(m)[2]),
           'ufds': ca(getattr(m, 'unix_fds', None)), 'wf': wf_bit(m.rawMessage, oob)}
    return obs, m, oob


def own_fds(x, oob_after):
    """(descriptor list that accompanies the constructed message x, the count its UNIX_FDS field must announce): the
    caller's list as marshalling left it; when NO list was given (`oobFDs=None` or the keyword left out) the message's OWN
    descriptors in body order - whatever such a message is constructed from, it has to carry its own count and indices
    from 0 (on the unchanged tree a body with a descriptor and no list is not constructible at all)."""
    if oob_after is not None:
        return oob_after, (len(oob_after) if (oob_after and x['signature']) else 0)
    own = expected_fds(x)
    return (own if own else None), len(own)


def wf_bit(raw, fds):
    """Does the strict reference parser accept the bytes (compared with Lean's Spec.decodeMsg)."""
    if len(raw) > 262144:
        return '-'
    try:
        R.wf_parse(raw, fds=fds, lax_body_arrays=True)      # Spec.decodeMsg does not look into the body either
        return '1'
    except R.NotWF:
        return '0'


def premarshal(marshal, x):
    """What marshal.marshal does with the body (the model's body codec is this oracle)."""
    if not x['signature']:
        return '-'
    oob = None if x['oob'] is None else [900 + i for i in range(x['oob'])]
    try:
        chunks = marshal.marshal(x['signature'], case_body(x), oobFDs=oob)[1]
    except Exception as e:
        return 'err:' + exc_name(e)
    return 'ok:%s:%d' % (hexs(b''.join(chunks)), len(oob) if oob is not None else 0)


def view_real(m):
    v = {'type': m._messageType, 'serial': m.serial, 'er': bool(m.expectReply), 'as': bool(m.autoStart),
         'of': getattr(m, 'otherFlags', None)}
    for a in ATTRS:
        v[a] = ca(getattr(m, a, None))
    return v


def parse_real(message, raw, fds):
    try:
        m = message.parseMessage(raw, fds)
    except Exception as e:
        return {'ok': False, 'err': exc_name(e)}, None
    v = view_real(m)
    hp = P.raw_parts(m, raw)
    v.update(ok=True, hdr=len(hp[0]), pad=hexs(hp[1]), body=hexs(hp[2]))
    return v, m


# ---------------------------------------------------------------------------------- driver lines
def tf(b):
    return 'T' if b else 'F'


def build_line(x, pre, maxlen=None):
    rs = x['reply_serial']
    return ' '.join(['build', x['cls'], str(x['next']), str(x['max'] if maxlen is None else maxlen), tf(x['er']), tf(x['as']),
                     opt_s(x['path']), opt_s(x['member']), opt_s(x['interface']), opt_s(x['error_name']),
                     'N' if rs is None else str(rs), opt_s(x['destination']), opt_s(x['sender']),
                     opt_s(x['signature']), 'N' if x['oob'] is None else str(x['oob']), pre])


def kv(line):
    tok = line.split()
    d = {'_head': tok[0] if tok else ''}
    for t in tok[1:]:
        k, _, v = t.partition('=')
        d[k] = v
    return d


def gen_bit(ctx, line, inp):
    """The driver's own cross-check of the header fragment against the general wire-codec model."""
    g = kv(line).get('gen')
    if g is None or g == '-':
        return
    ctx.case('fragment-vs-general', sample=None)
    if g != '1':
        ctx.disagree('fragment-vs-general', inp, 'gen=' + g, 'gen=1',
                     detail='Msg/HeaderCode.lean and Wire/Code.lean disagree on the header of this message')


def build_obs_from_model(line):
    d = kv(line)
    if d['_head'] == 'ok':
        return {'ok': True, 'serial': int(d['serial']), 'next': int(d['next']), 'raw': d['raw'], 'hdr': d['hdr'],
                'pad': d['pad'], 'body': d['body'], 'ufds': d['ufds'], 'wf': d['wf']}
    if d['_head'] == 'err':
        return {'ok': False, 'err': d['kind'], 'next': int(d['next'])}
    return {'malformed': line}


def parse_line(raw, fds):
    return 'parse %s %s' % (hexs(raw), 'N' if fds is None else ('-' if not fds else ','.join(str(f) for f in fds)))


GENERAL_PARSE = []      # (input for reports, raw, fds, implementation view, tolerate a body-stage failure) - flushed by run / replay


def general_parse_later(inp, raw, fds, v, body_tolerant=False):
    GENERAL_PARSE.append((inp, raw, fds, v, body_tolerant))


def flush_general_parse(ctx, message):
    """Stream general-parse: `parseMessageG` (header decoded by the general code model) against the real parseMessage on
    everything the parse streams looked at - no fragment, no `via=`."""
    items = list(GENERAL_PARSE)
    del GENERAL_PARSE[:]
    if not items:
        return
    out = ctx.model(['parseg' + parse_line(raw, fds)[len('parse'):] for _, raw, fds, _, _ in items])
    for i, (inp, raw, fds, v, tolerant) in enumerate(items):
        ctx.case('general-parse', sample=None)
        if out is None:
            continue
        mv = view_from_model(out[i])
        if mv == v:
            continue
        # no skip for a model answer `Exception` (PyErr.other): `parseMessageG` cannot produce it from the header stage
        # (`general_result_shape`: the `other` branch of `headerOfPy` is dead; `parseAfterHeader` has none) - review 3, 3.2(c)
        if tolerant and mv.get('ok') and not v['ok'] and body_stage_error(message, raw, fds):
            ctx.stat('general-parse:impl-fails-in-body-decode')
            continue
        ctx.disagree('general-parse', inp if isinstance(inp, dict) else {'kind': 'raw', 'raw': hexs(raw), 'fds': fds},
                     mv, v, detail='parseMessageG (header through the general code model Code.unmarshal) vs the real parseMessage')


def view_from_model(line):
    d = kv(line)
    if d['_head'] == 'err':
        return {'ok': False, 'err': d['kind']}
    if d['_head'] != 'ok':
        return {'malformed': line}
    v = {'ok': True, 'type': int(d['type']), 'serial': int(d['serial']), 'er': d['er'] == 'T', 'as': d['as'] == 'T',
         'of': int(d['of']), 'hdr': int(d['hdr']), 'pad': d['pad'], 'body': d['body']}
    for a in ATTRS:
        v[a] = d[a]
    return v


def num_raw(c, v):
    """The unsigned integer that travels for a value of fixed-size basic type c."""
    if c in R.INTS:
        k, signed = R.INTS[c]
        return int(v) % (256 ** k)
    if c == 'b':
        return 1 if v else 0
    if c == 'd':
        return struct.unpack('>Q', struct.pack('>d', v))[0]
    if c == 'h':
        return int(v)
    raise ValueError(c)


def spec_line(big, mtype, flags, serial, fields, body):
    parts = ['spec', 'B' if big else 'l', str(mtype), str(flags), str(serial), str(len(fields))]
    for code, sig, val in fields:
        parts += [str(code), sig, ('s' + vc.str_hex(val)) if sig in 'sog' else str(num_raw(sig, val))]
    parts.append(hexs(body))
    return ' '.join(parts)


# ---------------------------------------------------------------------------------- oracle pieces
def x_fields(x, nfds):
    """The header fields the abstract message x must carry: (code, type, value) for every non-None argument."""
    out = {}
    for a in ATTRS[:-1]:
        if x[a] is not None:
            out[CODE[a]] = (R.FIELD_TYPES[CODE[a]], x[a])
    if nfds:
        out[9] = ('u', nfds)
    return out


def x_view(x, serial, nfds):
    # 'of': the flag bits txdbus has no attribute for (0x4 ALLOW_INTERACTIVE_AUTHORIZATION, ...) - "recovers ... the flags"
    v = {'type': MTYPE[x['cls']], 'serial': serial, 'er': x['er'], 'as': x['as'], 'of': 4 if x.get('flag4') else 0}
    for a in ATTRS[:-1]:
        v[a] = ca(x[a])
    v['unix_fds'] = ca(nfds if nfds else None)
    return v


def x_body(x):
    """The decoded body x stands for (None when there is no non-empty signature)."""
    if not x['signature']:
        return None
    return cv(R.erase_all(x['signature'], case_abs(x)))


def strip_view(v):
    return {k: v[k] for k in ['type', 'serial', 'er', 'as', 'of'] + ATTRS}


def in_domain(x):
    """x is a message the statement speaks about: grammatical names, reply serial in uint32, NUL-free sender."""
    if x['path'] is not None and (not R.valid_path(x['path']) or (x['cls'] == 'call' and x['path'] == '/org/freedesktop/DBus/Local')):
        return False
    if x['member'] is not None and not R.valid_member(x['member']):
        return False
    if x['interface'] is not None and not R.valid_interface(x['interface']):
        return False
    if x['error_name'] is not None and not R.valid_error_name(x['error_name']):
        return False
    if x['destination'] is not None and not R.valid_bus_name(x['destination']):
        return False
    if x['reply_serial'] is not None and not (0 <= x['reply_serial'] < 2 ** 32):
        return False
    if x['sender'] is not None and '\0' in x['sender']:
        return False
    if x['cls'] in ('call', 'sig') and (x['path'] is None or x['member'] is None):
        return False
    if x['cls'] == 'sig' and x['interface'] is None:
        return False
    if x['cls'] == 'err' and x['error_name'] is None:
        return False
    if x.get('arity_mismatch'):
        return False
    if x['signature'] is not None and len(x['signature']) > 255:
        return False
    if x['cls'] in ('ret', 'err') and x['reply_serial'] is None:
        return False
    return True


def invalid_name_slots(x):
    """(slot, value) pairs of x whose name is outside the DBus grammar (the statement's list: path, interface,
    member, destination, error name)."""
    bad = []
    if x['cls'] in ('call', 'sig'):
        if x['path'] is not None and not R.valid_path(x['path']):
            bad.append(('path', x['path']))
        if not R.valid_member(x['member']):
            bad.append(('member', x['member']))
    if x['interface'] is not None or x['cls'] == 'sig':
        if not R.valid_interface(x['interface']):
            bad.append(('interface', x['interface']))
    if x['cls'] == 'err' and not R.valid_error_name(x['error_name']):
        bad.append(('error_name', x['error_name']))
    if x['destination'] is not None and not R.valid_bus_name(x['destination']):
        bad.append(('destination', x['destination']))
    return bad


VALIDATOR_OF = {'path': 'validateObjectPath', 'member': 'validateMemberName', 'interface': 'validateInterfaceName',
                'error_name': 'validateInterfaceName', 'destination': 'validateBusName'}


def validator_accepts(marshal, slot, value):
    try:
        getattr(marshal, VALIDATOR_OF[slot])(value)
        return True
    except Exception:
        return False


def public(x):
    """The case as it goes into reports / replay files."""
    return {k: x[k] for k in sorted(x)}


def judge_build(ctx, marshal, message, stream, x, mline):
    """One constructor call: S3 against the model line, S4 oracle on the implementation."""
    obs, m, oob_after = construct_real(message, x)
    ctx.impl_trace()
    if mline is not None:
        mo = build_obs_from_model(mline)
        if mo != obs:
            ctx.disagree(stream, public(x), mo, obs)
        gen_bit(ctx, mline, public(x))
    ctx.stat('%s:%s:%s' % (stream, x['cls'], 'ok' if obs['ok'] else obs['err']))
    # ---- S4
    bad = invalid_name_slots(x)
    if obs['ok'] and bad:
        slot, value = bad[0]
        empty = value == ''
        if validator_accepts(marshal, slot, value):
            key = 'c18-%s-accepted-%s' % (VALIDATOR_OF[slot], 'empty' if empty else 'nongrammar')
            what = ('%s(%s=%r) is constructed: %s accepts the name, the DBus grammar does not'
                    % (CLSNAME[x['cls']], slot, value, VALIDATOR_OF[slot]))
        else:
            key = 'empty-name-constructible' if empty else 'invalid-name-constructible'
            what = ('%s(%s=%r) is constructed although %s rejects the name: the constructor does not validate it'
                    % (CLSNAME[x['cls']], slot, value, VALIDATOR_OF[slot]))
        violation(ctx, key, what, inp=public(x), observed='constructed, rawMessage=' + obs['raw'][:200],
                      expected='an exception: the message cannot be constructed')
        return obs, m, oob_after
    if obs['ok'] and x['signature'] is not None and len(x['signature']) > 255:
        violation(ctx, 'overlong-signature-constructible', 'a message with a body signature of %d characters is constructed '
                      '(a SIGNATURE holds at most 255)' % len(x['signature']), inp=public(x), observed='constructed',
                      expected='an exception')
        return obs, m, oob_after
    if obs['ok'] and x.get('arity_mismatch'):
        violation(ctx, 'wrong-arity-body-constructible',
                      'a %s with signature %r and %d body values is constructed: the bytes cannot carry the body that was given '
                      '(too few values: body shorter than its signature says; too many: values silently dropped)'
                      % (CLSNAME[x['cls']], x['signature'], len(case_body(x))), inp=public(x),
                      observed='constructed, rawBody=' + obs['body'][:200], expected='MarshallingError')
        return obs, m, oob_after
    if obs['ok'] and x['cls'] == 'call' and x['path'] == '/org/freedesktop/DBus/Local':
        violation(ctx, 'reserved-path-constructible', 'a method call on the reserved path /org/freedesktop/DBus/Local is constructed',
                      inp=public(x), observed='constructed', expected='MarshallingError')
        return obs, m, oob_after
    # The statement: "a message exceeding the 128 MiB protocol limit cannot be constructed".  The library states that
    # limit as the class attribute `_maxMsgLen`, and tests/test_message.py::test_too_long pins that a subclass which
    # lowers it is refused longer messages.  The oracle therefore judges "longer than min(2^27, the class's
    # `_maxMsgLen`) cannot be constructed" - the lowered part ONLY while the code demonstrably honours a subclass value
    # (probe = the suite's own test); code that takes the limit from elsewhere is judged against 2^27 alone.
    # It is never demanded that a message of exactly the limit IS constructible.
    limit = min(x['max'], DEFAULT_MAX) if limit_honoured(message) else DEFAULT_MAX
    if obs['ok'] and len(m.rawMessage) > limit:
        violation(ctx, 'oversize-constructible', 'a message of %d bytes is constructed; the limit of its class is %d'
                      % (len(m.rawMessage), limit), inp=public(x), observed=len(m.rawMessage), expected='MarshallingError')
        return obs, m, oob_after
    if not obs['ok']:
        return obs, m, oob_after
    if not in_domain(x):
        return obs, m, oob_after
    fds, nfds = own_fds(x, oob_after)
    check_wellformed(ctx, x, obs, m, fds, nfds)
    return obs, m, oob_after


def check_wellformed(ctx, x, obs, m, oob_after, nfds, inp=None):
    raw = m.rawMessage
    inp = public(x) if inp is None else inp

    def bad(key, what, observed=None, expected=None):
        violation(ctx, key, what, inp=inp, observed=observed, expected=expected)
    has_parts = all(hasattr(m, a) for a in ('rawHeader', 'rawPadding', 'rawBody'))     # rawPadding is not a documented name
    if has_parts and raw != m.rawHeader + m.rawPadding + m.rawBody:
        bad('raw-parts-differ', 'rawMessage != rawHeader + rawPadding + rawBody', obs['raw'][:400])
        return
    try:
        # (the class limit is judged in judge_build; an array of more than 2^26 bytes INSIDE the body is not judged: the
        # statement defines well-formed by header, padding, body length and serial - notes/C03.md "observed, not flagged")
        wf = R.wf_parse(raw, fds=oob_after, max_len=DEFAULT_MAX, lax_body_arrays=True)
    except R.NotWF as e:
        bad('not-well-formed', 'the serialised %s is not a well-formed DBus message: %s' % (CLSNAME[x['cls']], e),
            obs['raw'][:400], 'a message the strict parser accepts')
        return
    if wf.get('body_arrays_over_limit'):
        ctx.stat('observed-not-flagged:body-array-over-2^26')
    if wf['type'] != MTYPE[x['cls']]:
        bad('type-code-differs', 'message type code %d for a %s' % (wf['type'], CLSNAME[x['cls']]), wf['type'], MTYPE[x['cls']])
    want_flags = (0 if x['er'] else 1) | (0 if x['as'] else 2)
    if wf['flags'] != want_flags:
        bad('flags-differ', 'flags byte 0x%02x for expectReply=%s autoStart=%s' % (wf['flags'], x['er'], x['as']),
            wf['flags'], want_flags)
    # the statement: "a fresh non-zero serial".  Non-zero and "the object's serial is the one in the bytes" are judged
    # here; freshness (never used before by this process) is judged over runs of constructions (serial-sequence), where
    # the counter is not touched by the harness.  HOW the counter advances (exactly +1 from _nextSerial) is model
    # correspondence (S3), not part of the oracle.
    if not (isinstance(m.serial, int) and wf['serial'] == m.serial and 1 <= m.serial < 2 ** 32):
        bad('serial-not-fresh', 'serial attribute %r, serial in the bytes %d: not one non-zero uint32' % (m.serial, wf['serial']),
            wf['serial'], 'the same non-zero value < 2^32')
    if has_parts and (wf['header_end'] != len(m.rawHeader) or wf['padding'] != m.rawPadding or wf['body'] != m.rawBody):
        bad('raw-parts-differ', 'rawHeader/rawPadding/rawBody are not the header, padding and body of rawMessage')
    want = x_fields(x, nfds)
    got = {}
    dup = False
    for code, sig, val in wf['fields']:
        dup = dup or code in got
        got[code] = (sig, val)
    if x['oob'] not in (None, 0):       # a pre-filled descriptor list: what UNIX_FDS should say is not the statement's business
        want.pop(9, None)
        got.pop(9, None)
    if dup or got != want:
        bad('header-fields-differ', 'the header fields are not exactly the non-None arguments, each once',
            {str(k): list(v) for k, v in sorted(got.items())}, {str(k): list(v) for k, v in sorted(want.items())})
    if wf['missing_required']:
        bad('required-field-missing', 'required header fields %s are missing' % wf['missing_required'])
    if x['signature'] and cv(wf['body_vals']) != x_body(x):
        bad('body-bytes-differ', 'the body bytes do not decode (reference decoder) to the values given',
            cv(wf['body_vals']), x_body(x))


def check_view(ctx, key, what, x, got_view, got_body, want_view, want_body, extra=None, inp=None):
    """parse(...) == x on every observable attribute."""
    g, w = strip_view(got_view), want_view
    if g != w or got_body != want_body:
        diff = sorted(k for k in w if g.get(k) != w[k])
        if got_body != want_body:
            diff.append('body')
        k = key
        if set(diff) <= {'er', 'as', 'of'}:
            k = 'parse-ignores-flags'
        if inp is None:
            inp = public(x)
            if extra:
                inp = dict(inp, **extra)
        violation(ctx, k, '%s: differs in %s' % (what, ', '.join(diff)), inp=inp,
                      observed={d: (g.get(d) if d != 'body' else got_body) for d in diff},
                      expected={d: (w.get(d) if d != 'body' else want_body) for d in diff})


# ---------------------------------------------------------------------------------- foreign messages
def g_foreign_extra(rng, basic_only):
    """Unknown header fields (codes 10..255) with arbitrary variant types."""
    out = []
    for _ in range(rng.choice([0, 0, 1, 1, 2, 3])):
        code = rng.choice([10, 11, 127, 128, 254, 255, rng.randint(10, 255)])
        if basic_only or rng.random() < 0.5:
            c = rng.choice('ybnqiuxtdsog')
            if c in INT_RANGE:
                val = g_int(rng, c)
            elif c == 'b':
                val = rng.random() < 0.5
            elif c == 'd':
                val = rng.choice(FLOATS)
            elif c == 's':
                val = g_text(rng).replace('\0', '')
            elif c == 'o':
                val = g_path(rng)
            else:
                val = rng.choice(SIGS)
            out.append((code, c, val))
        else:
            t = rng.choice(['as', 'ay', '(ii)', 'a{su}', 'v', 'a(yv)', '(sa(ii))', 'ai', 'at', '(yx)'])
            val = {'as': ['a', 'bc'], 'ay': [1, 2, 3], '(ii)': [1, -2], 'a{su}': [('k', 7)], 'v': R.Var('u', 7),
                   'a(yv)': [[1, R.Var('s', 'x')]], '(sa(ii))': ['s', [[1, 2], [3, 4]]], 'ai': [], 'at': [2 ** 63],
                   '(yx)': [200, -5]}[t]
            out.append((code, t, val))
    return out


def g_foreign_extra_container(rng):
    while True:
        for code, t, val in g_foreign_extra(rng, False):
            if len(t) > 1 or t == 'v':
                return code, t, val


def foreign_fields(x, nfds, rng, extra):
    fields = [(code, sig, val) for code, (sig, val) in sorted(x_fields(x, nfds).items())]
    fields += extra
    rng.shuffle(fields)
    return fields


def fields_json(fields):
    return [[c, s, abs_to_json(s, v)] for c, s, v in fields]


def fields_from_json(js):
    return [(c, s, abs_from_json(s, j)) for c, s, j in js]


# ---------------------------------------------------------------------------------- malformed constructions
BAD_NAMES = ['', 'a.', '.a', 'a..b', '1a.b', 'a.b-c', ':1.2', 'a b', 'a', 'a.1b', 'a.b.', '.', '..', 'a.b c', 'a.é',
             'a.b\n', 'a/b', ':1.', ':.a', 'a:b.c', '-a.b', 'a.-b', ':1.2.', ':', 'a.b:', '٣a.b', 'a.٣']
BAD_PATHS = ['', 'a', '/a/', '//', '/a//b', '/a b', '/a.b', '/a-b', 'a/b', '/é', '/a\n', '/a/b/', ' /a']
BAD_MEMBERS = ['', '1a', 'a.b', 'a b', 'a-b', 'é', 'a\n', 'm' * 256, '.', ':a', '٣a']


SLOTS = {'call': ['path', 'member', 'interface', 'destination'], 'ret': ['destination'],
         'err': ['error_name', 'destination'], 'sig': ['path', 'member', 'interface', 'destination']}


def enum_bad_names(marshal):
    """Every constructor x every name argument x every name of the enumeration (and None for the arguments that
    are not optional), everything else valid and minimal: a finite set, run completely in both tiers."""
    out = []
    for cls in CLASSES:
        base = {'cls': cls, 'er': True, 'as': True, 'oob': None, 'signature': None, 'body_line': None, 'abs': [],
                'next': 5, 'max': DEFAULT_MAX}
        for a in ATTRS:
            base.setdefault(a, None)
        if cls in ('call', 'sig'):
            base.update(path='/a', member='m')
        if cls == 'sig':
            base['interface'] = 'a.b'
        if cls in ('ret', 'err'):
            base['reply_serial'] = 1
        if cls == 'err':
            base['error_name'] = 'a.b'
        for slot in SLOTS[cls]:
            pool = BAD_PATHS if slot == 'path' else BAD_MEMBERS if slot == 'member' else BAD_NAMES
            names = list(pool) + ['/org/freedesktop/DBus/Local'] * (slot == 'path')
            if (slot == 'member') or (slot == 'interface' and cls == 'sig') or slot == 'error_name':
                names.append(None)
            for nm in names:
                x = dict(base)
                x[slot] = nm
                x['_what'] = 'enum:' + slot
                out.append(x)
    return out


def g_malformed(rng, marshal):
    """A constructor call with (mostly) exactly one thing wrong."""
    x = g_case(rng, marshal, stream='malformed')
    x['next'] = rng.choice([1, 7, 1000])
    kind = rng.choice(['name', 'name', 'name', 'name', 'reserved', 'rserial', 'limit', 'limit', 'nul', 'toolong',
                       'arity', 'arity'])
    cls = x['cls']
    if kind == 'name':
        slots = {'call': ['path', 'member', 'interface', 'destination'], 'ret': ['destination'],
                 'err': ['error_name', 'destination'], 'sig': ['path', 'member', 'interface', 'destination']}[cls]
        slot = rng.choice(slots)
        pool = BAD_PATHS if slot == 'path' else BAD_MEMBERS if slot == 'member' else BAD_NAMES
        if rng.random() < 0.7:
            x[slot] = rng.choice(pool)
        else:   # a grammatical name with one defect
            base = {'path': g_path, 'member': g_member, 'interface': g_interface, 'error_name': g_interface,
                    'destination': g_bus}[slot](rng)
            pos = rng.randint(0, len(base))
            x[slot] = base[:pos] + rng.choice(['.', '..', '/', '//', ' ', '-', ':', '1', 'é', '\0', '$']) + base[pos:]
        x['_what'] = 'name:' + slot
    elif kind == 'toolong':
        slot = rng.choice({'call': ['member', 'interface', 'destination'], 'ret': ['destination'],
                           'err': ['error_name', 'destination'], 'sig': ['member', 'interface', 'destination']}[cls])
        n = rng.choice([255, 256, 257, 300])
        x[slot] = ('m' * n) if slot == 'member' else ('a.' + 'b' * (n - 2))
        x['_what'] = 'len%d:%s' % (n, slot)
    elif kind == 'reserved':
        if cls in ('call', 'sig'):
            x['path'] = '/org/freedesktop/DBus/Local'
        x['_what'] = 'reserved'
    elif kind == 'rserial':
        if cls in ('ret', 'err'):
            x['reply_serial'] = rng.choice([-1, 2 ** 32, 2 ** 32 + 5, -2 ** 31, 2 ** 64])
        x['_what'] = 'rserial'
    elif kind == 'nul':
        if cls == 'err':
            x['sender'] = 'a\0b'
        x['_what'] = 'nul'
    elif kind == 'arity':
        # a body whose number of values differs from the number of complete types of the signature (repair bf83351 = C10-03:
        # marshal() raises instead of truncating the longer side)
        x['_what'] = 'arity:none'
        if x['signature']:
            vals = case_body(x)
            if isinstance(vals, list):
                if vals and rng.random() < 0.5:
                    vals = vals[:-1]
                    x['_what'] = 'arity:too-few'
                else:
                    vals = vals + [rng.choice([0, 'x', True])]
                    x['_what'] = 'arity:too-many'
                x['body_line'] = vc.to_line(vals)
                x['arity_mismatch'] = True
    else:
        x['_what'] = 'limit'          # the limit is set by the caller once the real size is known
    return x


# ---------------------------------------------------------------------------------- streams
def run_build_stream(ctx, marshal, message, stream, cases):
    lines = [build_line(x, premarshal(marshal, x), real_max(message, x)) for x in cases]
    out = ctx.model(lines)
    gout = ctx.model(['buildg' + ln[len('build'):] for ln in lines])      # the same calls through `constructG`
    results = []
    for i, x in enumerate(cases):
        obs, m, oob_after = judge_build(ctx, marshal, message, stream, x, out[i] if out is not None else None)
        check_tables(ctx, message, public(x))
        ctx.case(stream, sample=public(x), nontrivial=nontrivial(x))
        ctx.case('general-build', sample=None, nontrivial=nontrivial(x))
        if gout is not None:
            go = build_obs_from_model(gout[i])
            if go != obs:
                ctx.disagree('general-build', public(x), go, obs,
                             detail='constructG (header through the general code model Code.marshal) vs the real constructor')
        results.append((x, obs, m, oob_after))
    return results


def buildw_line(x, maxlen=None):
    rs = x['reply_serial']
    return ' '.join(['buildw', x['cls'], str(x['next']), str(x['max'] if maxlen is None else maxlen), tf(x['er']), tf(x['as']),
                     opt_s(x['path']), opt_s(x['member']), opt_s(x['interface']), opt_s(x['error_name']),
                     'N' if rs is None else str(rs), opt_s(x['destination']), opt_s(x['sender']),
                     opt_s(x['signature']), 'N' if x['oob'] is None else str(x['oob']),
                     'N' if x['body_line'] is None else x['body_line']])


def respell_top(rng, x):
    """The same case with the top-level `body` spelled as a tuple or a dbusOrder object (message.py hands it to
    marshal.marshal as it is; C01's `topItems` covers the three spellings)."""
    if x['body_line'] is None or not x['signature'] or gv is None:
        return x
    r = rng.random()
    if r < 0.7:
        return x
    body = case_body(x)
    if not isinstance(body, list):
        return x
    try:
        if r < 0.85:
            line = vc.to_line(tuple(body))
        else:
            vc.register_obj_class(gv.DbusOrderStruct, 0)
            line = vc.to_line(gv.DbusOrderStruct(body))
        vc.from_line(line)
    except Exception:
        return x
    y = dict(x)
    y['body_line'] = line
    return y


def run_wire_codec(ctx, marshal, message, cases):
    """S3 for the composed instance: the model marshals and unmarshals the body with C01's code model (`wireCodec`)."""
    lines = [buildw_line(x, real_max(message, x)) for x in cases]
    out = ctx.model(lines)
    for i, x in enumerate(cases):
        obs, m, oob_after = construct_real(message, x)
        ctx.impl_trace()
        ctx.case('wire-codec', sample=public(x), nontrivial=bool(x['signature']))
        top = (x['body_line'] or 'N').split()[0]
        ctx.stat('wire-codec:top=%s' % {'L': 'list', 'U': 'tuple', 'O': 'dbusOrder-object', 'N': 'None'}.get(top, top))
        ctx.stat('wire-codec:%s:oob=%s:%s' % (x['cls'], 'None' if x['oob'] is None else x['oob'], 'ok' if obs['ok'] else obs['err']))
        if obs['ok']:
            fds = oob_after if oob_after is not None else []
            try:
                pm = message.parseMessage(m.rawMessage, fds)
                pval = 'N' if not getattr(pm, 'signature', None) else vc.to_line(list(pm.body))
            except Exception as e:
                pval = '!' + exc_name(e)
            real = {'ok': True, 'serial': obs['serial'], 'next': obs['next'], 'raw': obs['raw'], 'hdr': obs['hdr'],
                    'pad': obs['pad'], 'body': obs['body'], 'ufds': obs['ufds'],
                    'fds': 'N' if oob_after is None else ('-' if not oob_after else ','.join(str(f) for f in oob_after)),
                    'pval': pval}
        else:
            real = {'ok': False, 'err': obs['err'], 'next': obs['next']}
        if out is None:
            continue
        line = out[i]
        head, _, pv = line.partition(' pval=')
        d = kv(head)
        if d['_head'] == 'ok':
            mo = {'ok': True, 'serial': int(d['serial']), 'next': int(d['next']), 'raw': d['raw'], 'hdr': d['hdr'],
                  'pad': d['pad'], 'body': d['body'], 'ufds': d['ufds'], 'fds': d['fds'], 'pval': pv}
        elif d['_head'] == 'err':
            mo = {'ok': False, 'err': d['kind'], 'next': int(d['next'])}
        else:
            mo = {'malformed': line[:300]}
        if mo != real:
            ctx.disagree('wire-codec', public(x), mo, real,
                         detail='construct / parseMessage with the body codec wireCodec (C01\'s code model) against message.py')
        cert, thm = d.get('cert', '?'), d.get('thm', '-')
        # every generated case inside the statement's domain must lie INSIDE the hypotheses of the composed theorems
        if cert == '1' or cert == 'nobody':
            ctx.stat('certified-inside-theorem-hypotheses')
            ctx.stat('certified:%s' % ('parse_marshal_no_body' if cert == 'nobody' else
                                       'parse_marshal_c01_checked' if x['oob'] is not None else 'parse_marshal_c01_checked_none'))
            if thm == '0':
                ctx.disagree('wire-codec', public(x), 'thm=0', 'thm=1',
                             detail='the evaluated model contradicts the conclusion of parse_marshal_c01_checked* / body_in_place')
            elif thm == '1':
                ctx.stat('theorem-conclusion-rechecked')
        elif cert == '-':
            ctx.stat('outside-theorems:pre-filled-oobFDs')
        else:
            ctx.stat('not-certified:' + cert)
            if obs['ok'] and in_domain(x) and not x.get('arity_mismatch'):
                ctx.disagree('wire-codec', public(x), 'cert=' + cert, 'cert=1',
                             detail='a constructible generated case lies outside the hypotheses of parse_marshal_c01_checked*')


def run_parse_own(ctx, message, built):
    check_tables(ctx, message, {'after': 'constructions'})
    items = [(x, obs, m, oob) for x, obs, m, oob in built if obs['ok']]
    items = [(x, obs, m, own_fds(x, oob)[0]) for x, obs, m, oob in items]
    lines = [parse_line(m.rawMessage, oob) for x, obs, m, oob in items]
    out = ctx.model(lines)
    for i, (x, obs, m, oob) in enumerate(items):
        v, pm = parse_real(message, m.rawMessage, oob)
        ctx.impl_trace()
        ctx.case('parse-own', sample=None, nontrivial=nontrivial(x))
        general_parse_later(public(x), m.rawMessage, oob, v)
        if out is not None:
            mv = view_from_model(out[i])
            if mv != v:
                ctx.disagree('parse-own', public(x), mv, v)
            gen_bit(ctx, out[i], public(x))
        if not in_domain(x):
            continue
        if not v['ok']:
            violation(ctx, 'parse-own-raises', 'parseMessage raises %s on the bytes txdbus produced' % v['err'],
                          inp=public(x), observed=v['err'], expected='the message')
            continue
        nfds = len(oob) if (oob and x['signature']) else 0
        got_body = cv(pm.body) if pm.signature else None
        check_view(ctx, 'parse-own-differs', 'parseMessage(rawMessage) of a constructed %s' % CLSNAME[x['cls']],
                   x, v, got_body, x_view(x, obs['serial'], nfds), x_body(x))
        ctx.stat('parse-own:sig=%s' % ('none' if x['signature'] is None else 'empty' if x['signature'] == '' else
                                       'h' if 'h' in x['signature'] else 'v' if 'v' in x['signature'] else 'other'))


def run_foreign(ctx, marshal, message, n):
    rng = ctx.rng
    cases = []
    for _ in range(n):
        while True:
            x = g_case(rng, marshal, stream='foreign')
            if in_domain(x):
                break
        x['next'] = None
        x['flag4'] = rng.random() < 0.25          # ALLOW_INTERACTIVE_AUTHORIZATION: defined by the specification, no attribute in txdbus
        basic_only = rng.random() < 0.7
        big = rng.random() < 0.5
        serial = rng.choice([1, 255, 256, 2573, 2 ** 32 - 1, rng.randint(1, 2 ** 32 - 1)])
        fds = expected_fds(x)
        extra = g_foreign_extra(rng, basic_only)
        fields = foreign_fields(x, len(fds), rng, extra)
        cases.append((x, big, serial, fields, basic_only or all(len(s) == 1 and s != 'v' for _, s, _ in extra)))
    for x0 in long_signature_cases():
        for big in (False, True):
            x = dict(x0, next=None, flag4=False)
            fds = expected_fds(x)
            fields = foreign_fields(x, len(fds), rng, g_foreign_extra(rng, True))
            cases.append((x, big, 77, fields, True))
    run_foreign_cases(ctx, message, cases)


def foreign_input(x, big, serial, fields):
    return dict(public(x), kind='foreign', big=big, serial=serial, fields=fields_json(fields))


def run_foreign_cases(ctx, message, cases):
    enc = []
    for x, big, serial, fields, basic in cases:
        flags = (0 if x['er'] else 1) | (0 if x['as'] else 2) | (4 if x.get('flag4') else 0)
        raw, fds = R.ref_message(MTYPE[x['cls']], flags, serial, fields, x['signature'], case_abs(x), big)
        hdr_pad = len(raw) - len(body_of(raw, big))
        enc.append((raw, fds, flags, raw[hdr_pad:]))
    # spec-bytes: the Lean specification against the Python reference (basic-typed fields only)
    idx = [i for i, c in enumerate(cases) if c[4]]
    out = ctx.model([spec_line(cases[i][1], MTYPE[cases[i][0]['cls']], enc[i][2], cases[i][2], cases[i][3], enc[i][3])
                     for i in idx])
    if out is not None:
        for j, i in enumerate(idx):
            x, big, serial, fields, _ = cases[i]
            ctx.case('spec-bytes', sample=None)
            if out[j] != hexs(enc[i][0]):
                ctx.disagree('spec-bytes', foreign_input(x, big, serial, fields), out[j], hexs(enc[i][0]),
                             detail='Lean Spec.encodeMsg vs the Python reference serializer')
    # the forwarding step on the reference bytes (basic-typed fields only: the model re-encodes the known fields)
    run_remarshal(ctx, message, [(foreign_input(cases[i][0], cases[i][1], cases[i][2], cases[i][3]), enc[i][0], enc[i][1])
                                 for i in idx if not any(c == 9 for c, _, _ in cases[i][3])][:len(idx) // 2])
    # ... and through the general model: every case, container-typed unknown fields and UNIX_FDS included
    run_general_forward(ctx, message, [(foreign_input(c[0], c[1], c[2], c[3]), enc[i][0], enc[i][1])
                                       for i, c in enumerate(cases)][:max(1, (2 * len(cases)) // 3)])
    # parse-foreign
    pout = ctx.model([parse_line(e[0], e[1]) for e in enc])
    pos = {i: i for i in range(len(cases))}
    for i, (x, big, serial, fields, basic) in enumerate(cases):
        raw, fds, flags, _ = enc[i]
        inp = foreign_input(x, big, serial, fields)
        # the reference bytes themselves must be well-formed by the strict parser (self-check of the harness)
        try:
            R.wf_parse(raw, fds=fds)
        except R.NotWF as e:
            raise RuntimeError('reference serializer produced bytes its own parser rejects: %s %r' % (e, inp))
        v, pm = parse_real(message, raw, fds)
        ctx.impl_trace()
        stream = 'parse-foreign' if basic else 'parse-foreign-containers'
        ctx.case(stream, sample=inp, nontrivial=True)
        general_parse_later(inp, raw, fds, v)
        ctx.stat('foreign:%s:%s:extra=%d' % ('BE' if big else 'LE', x['cls'], len(fields) - len(x_fields(x, len(fds)))))
        ctx.stat('foreign:%s:flags=%d' % (x['cls'], flags))
        ctx.stat('foreign:%s:sender=%s:fds=%d' % (x['cls'], x['sender'] is not None, min(len(fds), 2)))
        if pout is not None and i in pos:
            mv = view_from_model(pout[pos[i]])
            if mv != v:
                ctx.disagree(stream, inp, mv, v)
            if not basic:
                ctx.stat('foreign-containers:' + ('via-general-model' if 'via=general' in pout[pos[i]] else 'fragment'))
            gen_bit(ctx, pout[pos[i]], inp)
        if not v['ok']:
            violation(ctx, 'parse-foreign-raises', 'parseMessage raises %s on a spec-conformant %s-endian message'
                          % (v['err'], 'big' if big else 'little'), inp=inp, observed=v['err'], expected='the message')
            continue
        got_body = cv(pm.body) if pm.signature else None
        check_view(ctx, 'parse-foreign-differs',
                   'parseMessage of the %s-endian bytes of a reference serializer' % ('big' if big else 'little'),
                   x, v, got_body, x_view(x, serial, len(fds)), x_body(x),
                   extra={'kind': 'foreign', 'big': big, 'serial': serial, 'fields': fields_json(fields)})


def g_basic_val(rng, c):
    if c in INT_RANGE:
        return g_int(rng, c)
    if c == 'b':
        return rng.random() < 0.5
    if c == 'd':
        return rng.choice(FLOATS)
    if c == 's':
        return rng.choice([g_text(rng).replace('\0', ''), 's' * 255, 's' * 256, 'i' * 300, '', 'i'])
    if c == 'o':
        return g_path(rng)
    return rng.choice(SIGS + ['i' * 255])


def run_wrongtype(ctx, marshal, message, n):
    """Messages outside the statement: S3 only (the model must mirror what parseMessage does with them)."""
    rng = ctx.rng
    raws = []
    for _ in range(n):
        while True:
            x = g_case(rng, marshal, stream='foreign')
            if in_domain(x):
                break
        big = rng.random() < 0.5
        fds = expected_fds(x)
        fields = foreign_fields(x, len(fds), rng, g_foreign_extra(rng, True))
        kind = rng.choice(['type', 'type', 'type', 'dup', 'mtype', 'trunc', 'order', 'ctype'])
        mtype = MTYPE[x['cls']]
        if kind == 'type' and fields:
            i = rng.randrange(len(fields))
            c = rng.choice('ybnqiuxtdsog')
            fields[i] = (fields[i][0] if rng.random() < 0.8 else 8, c, g_basic_val(rng, c))
        elif kind == 'ctype' and fields:
            # a KNOWN header field whose variant holds a container (extension 2026-09-30): the specialised model answers
            # "outside the fragment"; stream general-parse (parseMessageG) compares it like any other message
            i = rng.randrange(len(fields))
            _, t, val = g_foreign_extra_container(rng)
            fields[i] = (fields[i][0], t, val)
        elif kind == 'dup' and fields:
            code, sg, val = rng.choice(fields)
            fields.insert(rng.randrange(len(fields) + 1), (code, sg, g_basic_val(rng, sg)))
        elif kind == 'mtype':
            mtype = rng.choice([0, 5, 6, 99, 255])
        flags = rng.choice([0, 1, 2, 3, 4, 7, 255])
        raw, rfds = R.ref_message(mtype, flags, rng.choice([1, 7, 2 ** 32 - 1]), fields, x['signature'], case_abs(x), big,
                                  version=rng.choice([1, 1, 1, 0, 2]))
        if kind == 'trunc':
            raw = raw[:rng.randrange(len(raw) + 1)]
        elif kind == 'order':
            raw = bytes([rng.choice([0, ord('b'), ord('L'), 255])]) + raw[1:]
        raws.append((raw, rfds if rng.random() < 0.8 else None, kind))
    out = ctx.model([parse_line(raw, fds) for raw, fds, _ in raws])
    for i, (raw, fds, kind) in enumerate(raws):
        v, pm = parse_real(message, raw, fds)
        ctx.impl_trace()
        ctx.case('parse-wrongtype', sample=None)
        ctx.stat('wrongtype:%s:%s' % (kind, 'ok' if v['ok'] else v['err']))
        general_parse_later({'kind': 'raw', 'raw': hexs(raw), 'fds': fds, 'what': kind}, raw, fds, v,
                            body_tolerant=kind in ('type', 'dup', 'trunc', 'order', 'ctype'))
        if out is not None:
            mv = view_from_model(out[i])
            # body decoding errors belong to the codec model (C01/C05): once the header is through, compare the header part
            gen_bit(ctx, out[i], {'kind': 'raw', 'raw': hexs(raw), 'fds': fds, 'what': kind})
            if mv.get('err') == 'Exception':
                # PyErr.other: the header holds a variant of a container type - outside the fragment of the header
                # codec that Msg/HeaderCode.lean models (the general codec is C01/C02/C05's model)
                ctx.stat('wrongtype:outside-fragment')
                continue
            if mv != v and not (mv.get('ok') and not v['ok'] and kind in ('type', 'dup', 'trunc', 'order', 'ctype')
                                and body_stage_error(message, raw, fds)):
                ctx.disagree('parse-wrongtype', {'kind': 'raw', 'raw': hexs(raw), 'fds': fds, 'what': kind}, mv, v)
    # the forwarding step on these messages through the general model (no fragment: any value in any attribute)
    run_general_forward(ctx, message, [({'kind': 'raw', 'raw': hexs(raw), 'fds': fds, 'what': kind}, raw, fds)
                                       for raw, fds, kind in raws][:max(1, len(raws) // 2)])


def body_stage_error(message, raw, fds):
    """Did parseMessage fail inside the body decode (after the signature check)?  Found by replacing the body
    decoder by a stub: if the call then succeeds, the header stage was fine."""
    from txdbus import marshal as mm
    real = mm.unmarshal
    state = {'depth': 0, 'top': 0}

    def stub(sig, data, offset=0, lendian=True, oobFDs=None):
        if state['depth'] == 0:
            state['top'] += 1
            if state['top'] == 2:          # the second top-level call is the body decode
                return 0, []
        state['depth'] += 1
        try:
            return real(sig, data, offset, lendian, oobFDs)
        finally:
            state['depth'] -= 1
    mm.unmarshal = stub
    try:
        message.parseMessage(raw, fds)
        return True
    except Exception:
        return False
    finally:
        mm.unmarshal = real


def forwarding_api(message):
    """The bus's forwarding call (`_marshal(False, rawBody=...)` today) is a private API: located by its shape
    (harness/c03_probe.forward_call), exercised only when found."""
    return P.forward_call(message)


def forward(message, p, body):
    name, p_serial, p_body = P.forward_call(message)
    getattr(p, name)(**{p_serial: False, p_body: body})


def run_remarshal(ctx, message, items):
    """items: (input for reports, raw bytes, fds) of well-formed messages.  The bus's forwarding step on each:
    MODEL CORRESPONDENCE ONLY (Txdbus.Msg.remarshal).  What the bus puts on the wire is C14's statement (its oracle checks
    the header field types of every delivery); C03 speaks of constructed messages, so nothing here is a C03 violation."""
    if not forwarding_api(message):
        ctx.case('remarshal-parsed', sample=None, n=1)
        ctx.note('no re-marshal entry point (new-serial flag + raw body) found on DBusMessage: forwarding step not exercised')
        return
    senders = [':1.%d' % ctx.rng.randrange(1, 500) for _ in items]
    out = ctx.model(['remarshal %s %s' % (parse_line(raw, fds)[len('parse '):], opt_s(snd))
                     for (inp, raw, fds), snd in zip(items, senders)])
    for i, ((inp, raw, fds), snd) in enumerate(zip(items, senders)):
        try:
            p = message.parseMessage(raw, fds)
            p.sender = snd
            p.endian = raw[0]
            forward(message, p, P.raw_parts(p, raw)[2])
            impl = {'ok': True, 'raw': hexs(p.rawMessage)}
        except Exception as e:
            impl = {'ok': False, 'err': exc_name(e)}
        ctx.impl_trace()
        ctx.case('remarshal-parsed', sample=None)
        rin = dict(inp, kind2='remarshal', sender=snd)
        if out is not None:
            d = kv(out[i])
            mo = {'ok': True, 'raw': d.get('raw')} if d['_head'] == 'ok' else {'ok': False, 'err': d.get('kind')}
            if mo != impl and mo.get('err') != 'Exception':
                ctx.disagree('remarshal-parsed', rin, mo, impl)


class _StubTransport(object):
    def loseConnection(self):
        pass

    def write(self, data):
        pass


class _StubBus(object):
    """Stands where `BusProtocol.bus` stands: records what `rawDBusMessageReceived` hands over."""
    def __init__(self):
        self.got = []

    def clientConnected(self, proto):
        pass

    def clientDisconnected(self, proto):
        pass

    def messageReceived(self, proto, msg):
        self.got.append(msg)


_BUS_TIE = {}


def bus_forwarder(ctx, message):
    """(review 3, 3.3) The forwarding statements of bus.py THEMSELVES: `BusProtocol.rawDBusMessageReceived(raw)` of the tree under
    test, with `bus` / `transport` stubbed, a unique name already assigned and Hello already called; returns the message object
    handed to `bus.messageReceived` (what the bus routes on).  A change of that seam in bus.py (endian not copied, `rawBody`
    not passed, `sender` set after the call, a new serial) then shows in `general-forward`.  Located once per run by driving a
    minimal method call through it; when that does not work (BusProtocol reshaped) the three statements are re-enacted by the
    harness as before and a note is left."""
    key = id(message)
    if key in _BUS_TIE:
        return _BUS_TIE[key]
    fwd = None
    try:
        from txdbus import bus as busmod

        def fwd_(raw, fds, snd):
            bp = object.__new__(busmod.BusProtocol)
            stub = _StubBus()
            bp.bus, bp.transport = stub, _StubTransport()
            bp.uniqueName, bp._called_hello, bp.isConnected = snd, True, True
            bp.busNames, bp.matchRules, bp._receivedFDs = {}, set(), fds
            bp.rawDBusMessageReceived(raw)
            if len(stub.got) != 1:
                raise RuntimeError('bus.messageReceived called %d times' % len(stub.got))
            return stub.got[0]
        saved = get_next(message)
        try:
            probe = message.MethodCallMessage('/a', 'm', destination=':1.2')
            got = fwd_(probe.rawMessage, [], ':1.77')
        finally:
            set_next(message, saved)
        if getattr(got, 'sender', None) == ':1.77' and got.rawMessage != probe.rawMessage:
            fwd = fwd_
    except Exception as e:                       # the harness's own reach: never a verdict
        ctx.note('BusProtocol.rawDBusMessageReceived could not be driven with a stubbed bus (%s: %s): the forwarding statements '
                 'of bus.py are re-enacted by the harness' % (type(e).__name__, e))
    _BUS_TIE[key] = fwd
    return fwd


def forward_outside_model(p):
    """(review 3, 3.2) The known attributes of the REAL parsed object whose value `_marshal`'s wrapper typing is not modelled
    for (`wrapAttr`, Msg/Message.lean: `ObjectPath(x)` / `Signature(x)` of a non-str, `UInt32(x)` of a non-int answer
    `PyErr.other`; the code computes `str(x)` / `int(x)`): only such a case may be skipped when the model says `Exception`.
    Restricted to the attributes the class's header table walks, when that table is readable."""
    rows = getattr(type(p), '_headerAttrs', None)
    try:
        walked = {r[0] for r in rows} if rows else None
    except Exception:
        walked = None
    bad = []
    for a in ('path', 'signature'):
        v = getattr(p, a, None)
        if v is not None and not isinstance(v, str) and (walked is None or a in walked):
            bad.append(a)
    for a in ('reply_serial', 'unix_fds'):
        v = getattr(p, a, None)
        if v is not None and not isinstance(v, int) and (walked is None or a in walked):
            bad.append(a)
    return bad


def run_general_forward(ctx, message, items):
    """Stream general-forward: the bus's forwarding step through `parseMessageG` / `forwardG` against the real code - bus.py's own
    statements when `bus_forwarder` can drive them; every case certified inside the hypotheses of `forward_parse` (or counted as
    outside), conclusion re-checked.  `forwardG` has no fragment for the VALUES of header fields; the wrapper typing of
    path / signature / reply_serial / unix_fds is modelled for str / int values only (`forward_outside_model`)."""
    if not forwarding_api(message) or not items:
        ctx.case('general-forward', sample=None, n=1)
        return
    busf = bus_forwarder(ctx, message)
    senders = [':1.%d' % ctx.rng.randrange(1, 500) for _ in items]
    out = ctx.model(['forwardg %s %s' % (parse_line(raw, fds)[len('parse '):], opt_s(snd))
                     for (inp, raw, fds), snd in zip(items, senders)])
    for i, ((inp, raw, fds), snd) in enumerate(zip(items, senders)):
        stage, p0 = 'parse', None
        try:
            p0 = message.parseMessage(raw, fds)             # the call rawDBusMessageReceived makes first
            stage = 'forward'
            if busf is not None:
                p = busf(raw, fds, snd)
            else:
                p = p0
                p.sender = snd
                p.endian = raw[0]
                forward(message, p, P.raw_parts(p, raw)[2])
            impl = {'ok': True, 'raw': hexs(p.rawMessage)}
        except Exception as e:
            impl = {'ok': False, 'err': exc_name(e)}
        ctx.impl_trace()
        ctx.case('general-forward', sample=None)
        ctx.stat('general-forward:via=' + ('bus.py' if busf is not None else 're-enacted'))
        if out is None:
            continue
        rin = dict(inp, kind2='remarshal', sender=snd) if isinstance(inp, dict) else {'raw': hexs(raw), 'fds': fds, 'sender': snd}
        d = kv(out[i])
        mo = {'ok': True, 'raw': d.get('raw')} if d['_head'] == 'ok' else {'ok': False, 'err': d.get('kind')}
        if stage == 'parse' and mo != impl and body_stage_error(message, raw, fds):
            # the real parseMessage FAILED, and with the body decoder stubbed it succeeds: it failed while decoding the body
            # (the codec's business: C01/C05; the driver's body codec is opaque).  Only the PARSE stage is tolerated this way:
            # a failure of the forwarding call itself is always compared
            ctx.stat('general-forward:impl-fails-in-body-decode')
            continue
        if mo.get('err') == 'Exception' and mo != impl:
            bad = forward_outside_model(p0) if stage == 'forward' else []
            if bad:
                ctx.stat('general-forward:outside-model:%s:impl=%s' % ('+'.join(bad), 'ok' if impl['ok'] else impl['err']))
                continue
            ctx.disagree('general-forward', rin, mo, impl,
                         detail='the model answers PyErr.other although no walked attribute of the real object holds a value '
                                'outside the modelled wrapper typing')
            continue
        if mo != impl:
            ctx.disagree('general-forward', rin, mo, impl,
                         detail='forwardG (header through the general code model) vs the real parse / _marshal(False, rawBody=...)')
        cert, thm = d.get('cert'), d.get('thm')
        ctx.stat('general-forward:' + ('certified-inside-forward_parse' if cert == '1' else 'outside-forward_parse-hypotheses'))
        if thm == '1':
            ctx.stat('general-forward:theorem-conclusion-rechecked')
        elif thm == '0':
            ctx.disagree('general-forward', rin, 'thm=0', 'thm=1',
                         detail='the evaluated model contradicts the conclusion of forward_parse on a case inside its hypotheses')


def body_of(raw, big):
    n = int.from_bytes(raw[4:8], 'big' if big else 'little')
    return raw[len(raw) - n:] if n else b''


def run_malformed(ctx, marshal, message, n):
    rng = ctx.rng
    cases = enum_bad_names(marshal) + overlong_signature_cases()
    for _ in range(n):
        x = g_malformed(rng, marshal)
        if x['_what'] == 'limit':
            # find the real size with the default limit, then set the limit around it
            probe = dict(x)
            obs, m, _ = construct_real(message, probe)
            if obs['ok']:
                size = len(m.rawMessage)
                x['max'] = max(0, size + rng.choice([-1, -1, 0, 0, 1, -8, -size, 7]))
        cases.append(x)
    res = run_build_stream(ctx, marshal, message, 'construct-malformed', cases)
    for x, obs, m, oob in res:
        ctx.stat('malformed:%s:%s' % (x['_what'].split(':')[0], 'constructed' if obs['ok'] else 'raised'))
    return res


def run_serial_sequence(ctx, marshal, message, n):
    """Serials over a run of constructions of all four classes (failures interleaved, foreign messages parsed and
    forwarded in between): the harness sets the counter once at the start and then leaves it alone.  Oracle: every
    constructed message gets a serial that no earlier message of the run got, >= 1, < 2^32."""
    rng = ctx.rng
    start = rng.choice([1, 1, 250, 65530, 2 ** 32 - 40])
    set_next(message, start)
    for name in CLSNAME.values():          # a fresh process has one counter, on the base class
        loc = P.serial_counter(message)
        if loc and loc[1] in getattr(message, name).__dict__:
            delattr(getattr(message, name), loc[1])
    seen = {}
    fwd = forwarding_api(message)
    for k in range(n):
        r = rng.random()
        if r < 0.25 and seen:
            # something arrives: a message whose serial is below, at or above our counter
            other = rng.choice([1, start, get_next(message) or 1, (get_next(message) or 1) + 1,
                                rng.choice(list(seen)), rng.randint(1, 2 ** 32 - 1)])
            other = min(max(other, 1), 2 ** 32 - 1)
            raw, fds = R.ref_message(rng.choice([1, 2, 3, 4]), rng.choice([0, 1]), other,
                                     [(1, 'o', '/a'), (2, 's', 'a.b'), (3, 's', 'm'), (4, 's', 'a.E'), (5, 'u', other)],
                                     '', [], rng.random() < 0.5)
            try:
                p = message.parseMessage(raw, fds)
                if fwd and rng.random() < 0.5:
                    p.sender = ':1.7'
                    p.endian = raw[0]
                    forward(message, p, P.raw_parts(p, raw)[2])
            except Exception:
                pass
            ctx.stat('serial-sequence:parsed-in-between')
            continue
        x = g_malformed(rng, marshal) if r < 0.45 else g_case(rng, marshal)
        x['max'] = DEFAULT_MAX
        obs, m, _ = construct_real(message, x, poke=False)
        ctx.impl_trace()
        if obs['ok']:
            if not (isinstance(m.serial, int) and 1 <= m.serial < 2 ** 32) or m.serial in seen:
                violation(ctx, 'serial-not-fresh',
                              'construction number %d of a run (a %s) gets serial %r%s' %
                              (k, CLSNAME[x['cls']], m.serial,
                               ', already given to construction number %d (a %s)' % seen[m.serial] if m.serial in seen else ''),
                              inp={'kind': 'serial-sequence', 'start': start, 'n': n},
                              observed=m.serial, expected='a serial not used before in this run, >= 1, < 2^32')
                break
            seen[m.serial] = (k, CLSNAME[x['cls']])
    check_tables(ctx, message, {'kind': 'serial-sequence', 'start': start, 'n': n})
    ctx.case('serial-sequence', sample={'start': start, 'n': n, 'constructed': len(seen)}, n=1)
    ctx.stat('serial-sequence:constructed', len(seen))


def run_real_limit(ctx, marshal, message):
    """The real 128 MiB limit (thorough tier), for each of the four classes: messages of 2^27 - 1 .. 2^27 + 8 bytes whose
    header needs 7 bytes of padding: whatever is longer than 2^27 must be refused (a size check that forgets the padding
    lets 2^27+1..2^27+7 through; a class with its own larger limit lets everything through); what is constructed must
    parse back.  That a message of exactly 2^27 bytes IS constructible is not demanded."""
    def make(cls, member, body):
        if cls == 'call':
            return message.MethodCallMessage('/a', member, signature='s', body=body)
        if cls == 'ret':
            return message.MethodReturnMessage(1, body=body, signature='s', destination=':1.' + member)
        if cls == 'err':
            return message.ErrorMessage('a.' + member, 1, signature='s', body=body)
        return message.SignalMessage('/a', member, 'a.b', signature='s', body=body)
    for cls in CLASSES:
        set_next(message, 77)
        member, probe = 'm', None
        for k in range(1, 9):                       # a header that needs 7 bytes of padding
            probe = make(cls, 'm' * k, ['x'])
            if len(P.raw_parts(probe)[1]) == 7:
                member = 'm' * k
                break
        overhead = len(probe.rawMessage) - 1
        for extra in ((-1, 0, 1, 7, 8) if cls == 'sig' else (0, 1, 8)):
            n = 2 ** 27 - overhead + extra
            s = 'x' * n
            try:
                m = make(cls, member, [s])
                size = len(m.rawMessage)
                ok, err = True, None
            except Exception as e:
                ok, size, err, m = False, None, exc_name(e), None
            ctx.impl_trace()
            ctx.case('real-limit', sample={'cls': cls, 'string_length': n, 'constructed': ok}, n=1)
            inp = {'kind': 'real-limit', 'cls': cls, 'string_length': n, 'member': member}
            if ok and size > 2 ** 27:
                violation(ctx, 'oversize-constructible', 'a %s of %d bytes (2^27 + %d) is constructed'
                              % (CLSNAME[cls], size, size - 2 ** 27), inp=inp, observed=size, expected='MarshallingError')
            if not ok and extra <= 0:
                ctx.note('a %s of 2^27%+d bytes is refused (%s): not demanded by the statement, recorded only'
                         % (CLSNAME[cls], extra, err))
            if ok and size <= 2 ** 27:
                pm = message.parseMessage(m.rawMessage, [])
                if pm.body != [s] or pm.serial != m.serial:
                    violation(ctx, 'parse-own-differs', 'the %d-byte message does not parse back' % size, inp=inp)
                del pm
            del s, m
    # observed, NOT flagged (review 2, 1.1): a body array of more than 2^26 bytes inside a message below 2^27 constructs and
    # parses back.  C03's statement defines well-formed by header / padding / body length / serial; the array limit is the
    # wire codec's (C01/C02).  The oracle must not demand more than the statement: only the statement's clauses are judged.
    try:
        big = ['x' * (34 * 2 ** 20)] * 2
        set_next(message, 78)
        m = message.MethodReturnMessage(1, signature='as', body=[big])
        ctx.impl_trace()
        ctx.case('real-limit', sample={'cls': 'ret', 'body': "as, 2 strings of 34 MiB", 'constructed': True}, n=1)
        wf = R.wf_parse(m.rawMessage, fds=[], lax_body_arrays=True)
        if wf.get('body_arrays_over_limit'):
            ctx.stat('observed-not-flagged:body-array-over-2^26')
            ctx.note('MethodReturnMessage(1, signature=\'as\', body=[2 strings of 34 MiB]) constructs (%d bytes); its array length '
                     'word %d exceeds 2^26: outside C03\'s definition of well-formed, recorded only'
                     % (len(m.rawMessage), wf['body_arrays_over_limit'][0]))
        if wf['serial'] != m.serial or wf['body'] != P.raw_parts(m)[2] or wf['body_len'] != len(P.raw_parts(m)[2]):
            violation(ctx, 'not-well-formed', 'the 71 MB method return is not header ++ padding ++ body with the right length word',
                          inp={'kind': 'real-limit', 'cls': 'ret', 'body': 'as 2x34MiB'})
        pm = message.parseMessage(m.rawMessage, [])
        if pm.body != [big] or pm.serial != m.serial:
            violation(ctx, 'parse-own-differs', 'the 71 MB method return does not parse back',
                          inp={'kind': 'real-limit', 'cls': 'ret', 'body': 'as 2x34MiB'})
        del pm, m, big
    except Exception as e:
        ctx.note('the 71 MB array body: %s (recorded only)' % exc_name(e))


# ---------------------------------------------------------------------------------- histories (state-leak round 2026-09-30)
# Several uses inside ONE scenario (STATE_AUDIT.md G2, G11): nothing is rebuilt between the steps, the serial counter is read
# once (for the model) and never written, every step is judged by the oracle of the single-use streams, and the replay
# input of a violation is the history up to the failing step.  A history is JSON:
#   {'kind': 'history', 'family': 'omitted-fds' | 'marshal-again' | 'parse-again', 'steps': [step, ...]}
#   {'op': 'build', 'x': <case>}                       constructor call (x['kw'] False: the oobFDs keyword is left out)
#   {'op': 'again', 'ref': b, 'new': bool, 'fds': 'omit' | 'none' | 'fresh'}
#                                                      object of the b-th build step: `_marshal(newSerial=new[, oobFDs=None | []])`
#   {'op': 'parse', 'own': b | 'foreign': {...}, 'fdbase': n}    parseMessage(bytes, [n, n+1, ...]) - one descriptor per 'h'
#   {'op': 'trunc', 'own': b | 'foreign': {...}, 'cut': k}       parseMessage of the first k bytes (outcome ignored)
#   {'op': 'recheck', 'ref': s}                        the object step s returned is inspected again (only before any mutation)
#   {'op': 'mutate', 'ref': s}                         the object step s returned, its body and its descriptor list are changed
HIST_STREAM = {'omitted-fds': 'history-omitted-fds', 'marshal-again': 'history-marshal-again',
               'parse-again': 'history-parse-again'}
H_TYPES = ['h', 'h', 'ah', '(hs)', '(ih)', 'a(hh)', 'a{sh}']


def subst_fds(sig, vals, fds):
    """The abstract body `vals` with its k-th descriptor replaced by fds[k] (what a parse with that list must return)."""
    k = [0]

    def walk(t, v):
        c = t[0]
        if c == 'h':
            k[0] += 1
            return fds[k[0] - 1]
        if c == 'a':
            et = t[1:]
            if et[0] == '{':
                kt, vt = R.split_sig(et[1:-1])
                return [(walk(kt, a), walk(vt, b)) for a, b in v]
            return [walk(et, e) for e in v]
        if c == '(':
            return [walk(ft, fv) for ft, fv in zip(R.split_sig(t[1:-1]), v)]
        if c == 'v':
            return R.Var(v.sig, walk(v.sig, v.val))
        return v
    return [walk(t, v) for t, v in zip(R.split_sig(sig), vals)]


def x_body_with(x, fds):
    if not x['signature']:
        return None
    return cv(R.erase_all(x['signature'], subst_fds(x['signature'], case_abs(x), fds)))


def h_case(rng, marshal, cls=None, body='random', oob=None, kw=True, fdbase=0, like=None):
    """One in-domain constructor case for a history.  body: 'h' (at least one descriptor), 'plain' (a signature without
    'h'), 'none' (no signature), 'random'.  `like`: keep the header arguments of that case (same class, same names)."""
    if like is not None:
        x = dict(like)
    else:
        while True:
            x = g_case(rng, marshal, stream='history')
            if (cls is None or x['cls'] == cls) and in_domain(x) and len(x.get('body_line') or '') < 2000:
                break
    x['oob'], x['kw'], x['next'], x['max'] = oob, bool(kw), None, DEFAULT_MAX
    if body == 'random' and like is None and not (x['signature'] and 'h' in x['signature']):
        pass
    elif body == 'none':
        x.update(signature=None, body_line=None, abs=[])
    elif body == 'hbad':          # a descriptor, then a value its type refuses: marshalling fails AFTER the descriptor was collected
        x.update(signature='hy', body_line=vc.to_line([fdbase + 1, 300]), abs=[fdbase + 1, 300])
    else:
        want_h = body == 'h' or (body == 'random' and rng.random() < 0.5)
        types = [g_type(rng, 0, False) for _ in range(rng.choice([0, 1, 1, 2]))]
        if want_h:
            types.insert(rng.randrange(len(types) + 1), rng.choice(H_TYPES))
        elif not types:
            types = ['i']
        fds = [fdbase]
        while True:
            items = [g_val(rng, t, marshal, fds) for t in types]
            if not want_h or fds[0] > fdbase:          # an empty `ah` holds no descriptor: draw again
                break
        sig = ''.join(types)
        x.update(signature=sig, body_line=vc.to_line([p for p, _ in items]), abs=abs_list_to_json(sig, [a for _, a in items]))
    if x['cls'] != 'call':
        x['oob'], x['kw'] = None, False                # only MethodCallMessage has the parameter
    return x


def fewer_fields(x):
    """The same class and required arguments with every optional header argument left out."""
    y = dict(x)
    y.update(destination=None, sender=None, signature=None, body_line=None, abs=[])
    if y['cls'] == 'call':
        y['interface'] = None
    return y


def g_hist_omitted(rng, marshal, k):
    """G2: constructions without the `oobFDs` keyword.  k < 4: the ladder of the audit for class k (descriptor twice,
    then no descriptor, no signature, and for calls an explicit `[]` / None); else a random mix over all classes."""
    steps = []
    if k < 4:
        cls = CLASSES[k]
        a = h_case(rng, marshal, cls, 'h', None, False, fdbase=10)
        plan = [('h', None, False), ('h', None, False), ('plain', None, False), ('none', None, False)]
        if cls == 'call':
            plan += [('h', 0, True), ('h', None, False), ('plain', 0, True), ('h', None, True), ('plain', None, False)]
        for i, (body, oob, kw) in enumerate(plan):
            steps.append({'op': 'build', 'x': h_case(rng, marshal, cls, body, oob, kw, fdbase=10 * (i + 1), like=a)})
    else:
        for i in range(rng.choice([4, 5, 6, 8])):
            cls = rng.choice(CLASSES)
            oob, kw = rng.choice([(None, False), (None, False), (None, True), (0, True)])
            steps.append({'op': 'build', 'x': h_case(rng, marshal, cls, rng.choice(['h', 'h', 'plain', 'plain', 'none', 'random', 'hbad']),
                                                     oob, kw, fdbase=10 * (i + 1))})
    return {'kind': 'history', 'family': 'omitted-fds', 'steps': steps}


def g_hist_again(rng, marshal, k):
    """G11a: one object marshalled again and again, other constructions of its class before, between and after."""
    cls = CLASSES[k % 4] if k < 8 else rng.choice(CLASSES)
    with_h = cls == 'call' and (k < 4 or rng.random() < 0.5)
    a = h_case(rng, marshal, cls, 'h' if with_h else rng.choice(['plain', 'none', 'random']),
               0 if with_h else rng.choice([None, None, 0]), with_h or rng.random() < 0.5, fdbase=20)
    if not with_h and a['signature'] and 'h' in a['signature'] and a['oob'] is None:
        a = h_case(rng, marshal, cls, 'plain', None, a['kw'], like=a)
    good = 'fresh' if a['oob'] == 0 else rng.choice(['omit', 'none'])
    steps = [{'op': 'build', 'x': a}]
    if k >= 4 and rng.random() < 0.5:
        steps.insert(0, {'op': 'build', 'x': h_case(rng, marshal, cls, 'random', 0 if cls == 'call' else None, True, fdbase=10)})
    ref = len(steps) - 1
    seq = [(False, good), (False, good), (True, good), (False, good)]
    if with_h:
        seq.insert(rng.choice([1, 2, 3]), (False, rng.choice(['omit', 'none'])))      # fails in the body codec; object unchanged
    if k >= 4:
        seq += [(rng.random() < 0.5, good) for _ in range(rng.choice([0, 1, 3]))]
    for i, (new, fds) in enumerate(seq):
        steps.append({'op': 'again', 'ref': ref, 'new': new, 'fds': fds})
        if i == 1 or (k >= 4 and rng.random() < 0.3):
            steps.append({'op': 'build', 'x': h_case(rng, marshal, cls, rng.choice(['plain', 'none', 'h']),
                                                     0 if cls == 'call' else None, True, fdbase=30 + 10 * i, like=a)})
    steps.append({'op': 'build', 'x': fewer_fields(a)})
    steps.append({'op': 'parse', 'own': ref, 'fdbase': 300})
    return {'kind': 'history', 'family': 'marshal-again', 'steps': steps}


def g_foreign_src(rng, marshal, like=None, fewer=False):
    """A reference message as a JSON source: the fields of `foreign_input`."""
    if like is None:
        while True:
            x = g_case(rng, marshal, stream='foreign')
            if in_domain(x) and len(x.get('body_line') or '') < 2000:
                break
        x['next'], x['flag4'] = None, rng.random() < 0.25
    else:
        x = {k: like[k] for k in like if k not in ('kind', 'big', 'serial', 'fields')}
        if fewer:
            x.update(destination=None, sender=None, signature=None, body_line=None, abs=[])
            if x['cls'] == 'call':
                x['interface'] = None
    fields = foreign_fields(x, len(expected_fds(x)), rng, g_foreign_extra(rng, True))
    return foreign_input(x, rng.random() < 0.5, rng.choice([1, 255, 2573, 2 ** 32 - 1, rng.randint(1, 2 ** 32 - 1)]), fields)


def g_hist_parse(rng, marshal, k):
    """G11b: one byte string parsed twice with different descriptor lists; in between another message of the same class
    with fewer fields, re-inspection of the earlier results, mutation of a result, a truncated parse."""
    steps = []
    if k % 2 == 0:
        cls = CLASSES[(k // 2) % 4]
        a = h_case(rng, marshal, cls, rng.choice(['h', 'random']) if cls == 'call' else rng.choice(['plain', 'plain', 'none']),
                   0 if cls == 'call' else None, True, fdbase=40)
        steps += [{'op': 'build', 'x': a}, {'op': 'build', 'x': fewer_fields(a)}]
        A, B = {'own': 0}, {'own': 1}
    else:
        fa = g_foreign_src(rng, marshal)
        A, B = {'foreign': fa}, {'foreign': g_foreign_src(rng, marshal, like=fa, fewer=True)}
    n0 = len(steps)
    steps += [dict(A, op='parse', fdbase=100), dict(B, op='parse', fdbase=150), {'op': 'recheck', 'ref': n0},
              dict(A, op='parse', fdbase=200), {'op': 'recheck', 'ref': n0}, {'op': 'recheck', 'ref': n0 + 1},
              {'op': 'recheck', 'ref': n0 + 3},
              {'op': 'mutate', 'ref': n0}, dict(A, op='trunc', cut=rng.choice([0, 1, 8, 15, 16, 17, 24, 40, 10 ** 6]) ),
              dict(A, op='parse', fdbase=250), {'op': 'mutate', 'ref': n0 + 9}, {'op': 'mutate', 'ref': n0 + 1},
              dict(B, op='parse', fdbase=350), dict(A, op='parse', fdbase=400)]
    if k % 2 == 0 and k >= 8:
        steps.append({'op': 'build', 'x': h_case(rng, marshal, None, 'random', None, False, fdbase=50, like=steps[0]['x'])})
        steps.append({'op': 'parse', 'own': 2, 'fdbase': 500})
    return {'kind': 'history', 'family': 'parse-again', 'steps': steps}


def again_kwargs(message, new, fds):
    """Keyword arguments of the re-marshal call, or None when the entry point / its descriptor parameter is not there."""
    fc = forwarding_api(message)
    if not fc:
        return None
    kw = {fc[1]: bool(new)}
    if fds != 'omit':
        name = P.fds_param(message)
        if name is None:
            return None
        kw[name] = [] if fds == 'fresh' else None
    return fc[0], kw


def mutate_parsed(pm, fds):
    """What a careless receiver does with a message it was handed - none of it may show in a LATER parse."""
    for a, v in (('sender', 'zz.mutated'), ('destination', 'zz.mutated'), ('path', '/zz/mutated'), ('member', 'Mutated'),
                 ('interface', 'zz.mutated'), ('error_name', 'zz.Mutated'), ('reply_serial', 4242), ('unix_fds', 77),
                 ('signature', 'tt'), ('serial', 0), ('expectReply', not pm.expectReply), ('autoStart', not pm.autoStart)):
        try:
            setattr(pm, a, v)
        except Exception:
            pass
    b = getattr(pm, 'body', None)
    try:
        if isinstance(b, list):
            for e in b:
                if isinstance(e, list):
                    e.append('zz')
                elif isinstance(e, dict):
                    e['zz'] = 'zz'
            b.append('zz-mutated')
            b.reverse()
        else:
            pm.body = ['zz-mutated']
    except Exception:
        pass
    if isinstance(fds, list):
        fds.reverse()
        fds.append(999)


def hist_src(step, objs, builds):
    """(x, raw bytes, serial, big-endian?, 'own' | 'foreign') of the message a parse / trunc step names, or None."""
    if 'own' in step:
        m = objs[step['own']] if step['own'] < len(objs) else None
        if m is None:
            return None
        return builds[step['own']], bytes(m.rawMessage), m.serial, False, 'own'
    f = step['foreign']
    x = {k: f[k] for k in f if k not in ('kind', 'big', 'serial', 'fields')}
    flags = (0 if x['er'] else 1) | (0 if x['as'] else 2) | (4 if x.get('flag4') else 0)
    raw, _ = R.ref_message(MTYPE[x['cls']], flags, f['serial'], fields_from_json(f['fields']), x['signature'], case_abs(x), f['big'])
    return x, raw, f['serial'], f['big'], 'foreign'


def run_history(ctx, marshal, message, hist):
    """Execute one history on the real code, judge every step (S4), and return what the model is to be asked:
    [(step number, driver line or None, implementation observation, kind)]."""
    stream = HIST_STREAM[hist['family']]
    steps = hist['steps']
    CURRENT_HISTORY[0] = hist
    start = get_next(message)                 # read, never written
    objs, builds, alive = [], [], []          # per build step: message object (or None), its case, still usable
    returned = {}                             # step number -> (parsed object, x, serial, nfds, fds values, src kind, fds list)
    seen = {}                                 # serial -> step number that got it
    mutated = False
    trace = []

    def inp_upto(i):
        return {'kind': 'history', 'family': hist['family'], 'steps': steps[:i + 1]}

    def judge_object(i, x, obs, m, fds_after, what, new_serial, old_serial=None):
        fds, nfds = own_fds(x, fds_after)
        check_wellformed(ctx, x, obs, m, fds, nfds, inp=inp_upto(i))
        v, pm = parse_real(message, m.rawMessage, None if fds is None else list(fds))
        if not v['ok']:
            violation(ctx, 'parse-own-raises', 'step %d of a history (%s): parseMessage raises %s on the bytes txdbus produced'
                          % (i, what, v['err']), inp=inp_upto(i), observed=v['err'], expected='the message')
        else:
            check_view(ctx, 'parse-own-differs', 'step %d of a history: parseMessage(rawMessage) after %s' % (i, what), x, v,
                       cv(pm.body) if pm.signature else None, x_view(x, m.serial, nfds), x_body(x), inp=inp_upto(i))
        if new_serial and m.serial != old_serial:
            if not (isinstance(m.serial, int) and 1 <= m.serial < 2 ** 32) or m.serial in seen:
                violation(ctx, 'serial-not-fresh', 'step %d of a history (%s) gets serial %r%s'
                              % (i, what, m.serial, ', already given at step %d' % seen[m.serial] if m.serial in seen else ''),
                              inp=inp_upto(i), observed=m.serial, expected='a serial not used before in this history, >= 1, < 2^32')
            else:
                seen[m.serial] = i

    for i, st in enumerate(steps):
        op = st['op']
        ctx.case(stream, sample=None)
        if op == 'build':
            x = st['x']
            pre = premarshal(marshal, x)
            obs, m, oob_after = construct_real(message, x, poke=False)
            ctx.impl_trace()
            objs.append(m)
            builds.append(x)
            alive.append(m is not None)
            ctx.stat('%s:build:%s:%s:%s:%s' % (stream, x['cls'], 'kw' if x.get('kw', True) else 'omitted',
                                                'h' if (x['signature'] and 'h' in x['signature']) else 'no-h',
                                                'ok' if obs['ok'] else obs['err']))
            trace.append((i, build_line(dict(x, next='='), pre, real_max(message, x)), obs, 'build'))
            if obs['ok']:
                judge_object(i, x, obs, m, oob_after, 'the construction of a %s' % CLSNAME[x['cls']], True)
        elif op == 'again':
            b = st['ref']
            call = again_kwargs(message, st['new'], st['fds'])
            x = builds[b] if b < len(builds) else None
            if call is None or x is None:
                ctx.stat(stream + ':again:not-exercised')
                continue
            pre = premarshal(marshal, dict(x, oob=0 if st['fds'] == 'fresh' else None))
            line = 'again %d %s %s %s' % (b, tf(st['new']), '0' if st['fds'] == 'fresh' else 'N', pre)
            if not alive[b]:
                trace.append((i, line, None, 'dead'))
                continue
            m = objs[b]
            old = m.serial
            try:
                getattr(m, call[0])(**call[1])
                ok, err = True, None
            except Exception as e:
                ok, err = False, exc_name(e)
            ctx.impl_trace()
            fds_after = call[1].get(P.fds_param(message)) if st['fds'] != 'omit' else None
            if ok:
                obs = {'ok': True, 'serial': m.serial, 'next': get_next(message), 'raw': hexs(m.rawMessage),
                       'hdr': hexs(P.raw_parts(m)[0]), 'pad': hexs(P.raw_parts(m)[1]), 'body': hexs(P.raw_parts(m)[2]),
                       'ufds': ca(getattr(m, 'unix_fds', None)),
                       'wf': wf_bit(m.rawMessage, own_fds(x, fds_after)[0])}
                judge_object(i, x, obs, m, fds_after, '_marshal(newSerial=%s) on the object of step %d' % (st['new'], b),
                             st['new'], old)
            else:
                obs = {'ok': False, 'err': err, 'next': get_next(message)}
                if not pre.startswith('err:'):       # not a failure of the body codec: the object may be half updated
                    alive[b] = False
            ctx.stat('%s:again:new=%s:fds=%s:%s' % (stream, st['new'], st['fds'], 'ok' if ok else err))
            trace.append((i, line, obs, 'again'))
        elif op in ('parse', 'trunc'):
            src = hist_src(st, objs, builds) if ('own' not in st or (st['own'] < len(alive) and alive[st['own']])) else None
            if src is None:
                continue
            x, raw, serial, big, kind = src
            own = expected_fds(x)
            if op == 'trunc':
                try:
                    message.parseMessage(raw[:st['cut']], [st.get('fdbase', 600) + j for j in range(len(own))])
                except Exception:
                    pass
                ctx.impl_trace()
                continue
            fds = [st['fdbase'] + j for j in range(len(own))]
            given = list(fds)
            v, pm = parse_real(message, raw, given)
            ctx.impl_trace()
            ctx.stat('%s:parse:%s:%s:%s' % (stream, kind, x['cls'], 'ok' if v['ok'] else v['err']))
            trace.append((i, parse_line(raw, fds), v, 'parse'))
            if not v['ok']:
                violation(ctx, 'parse-%s-raises' % kind, 'step %d of a history: parseMessage raises %s on %s'
                              % (i, v['err'], 'the bytes txdbus produced' if kind == 'own' else
                                 'a spec-conformant %s-endian message' % ('big' if big else 'little')),
                              inp=inp_upto(i), observed=v['err'], expected='the message')
                continue
            returned[i] = (pm, x, serial, len(own), fds, kind, given)
            check_view(ctx, 'parse-%s-differs' % kind,
                       'step %d of a history: parseMessage of %s with the descriptor list %r'
                       % (i, 'own bytes' if kind == 'own' else 'reference bytes', fds), x, v,
                       cv(pm.body) if pm.signature else None, x_view(x, serial, len(own)), x_body_with(x, fds), inp=inp_upto(i))
        elif op == 'recheck':
            r = returned.get(st['ref'])
            if r is None or mutated:
                continue
            pm, x, serial, nfds, fds, kind, _ = r
            check_view(ctx, 'parse-%s-differs' % kind,
                       'step %d of a history: the object parseMessage returned at step %d, inspected again after later parses'
                       % (i, st['ref']), x, view_real(pm), cv(pm.body) if pm.signature else None,
                       x_view(x, serial, nfds), x_body_with(x, fds), inp=inp_upto(i))
        elif op == 'mutate':
            r = returned.pop(st['ref'], None)
            if r is not None:
                mutated = True
                mutate_parsed(r[0], r[6])
    check_tables(ctx, message, inp_upto(len(steps) - 1), cheap=True)
    return start, trace


def run_histories(ctx, marshal, message, hists):
    """The histories on the real code (S4 inside), then ONE driver batch for all of them (S3)."""
    lines, where = [], []
    for h, hist in enumerate(hists):
        start, trace = run_history(ctx, marshal, message, hist)
        ctx.case(HIST_STREAM[hist['family']], sample={'family': hist['family'], 'ops': [s['op'] for s in hist['steps']]}, n=0)
        if start is None:
            continue
        lines.append('hist %d' % start)
        where.append(None)
        for i, line, obs, kind in trace:
            lines.append(line)
            where.append((hist, i, obs, kind))
    CURRENT_HISTORY[0] = None
    out = ctx.model(lines)
    if out is None:
        return
    for ln, w in zip(out, where):
        if w is None:
            continue
        hist, i, obs, kind = w
        stream = HIST_STREAM[hist['family']]
        inp = {'kind': 'history', 'family': hist['family'], 'steps': hist['steps'][:i + 1]}
        if kind == 'dead':
            continue
        if kind == 'parse':
            mv = view_from_model(ln)
            if mv != obs:
                ctx.disagree(stream, inp, mv, obs, detail='step %d: parseMessage' % i)
            continue
        mo = build_obs_from_model(ln)
        if mo != obs:
            ctx.disagree(stream, inp, mo, obs, detail='step %d: %s (the model runs the whole history on ONE counter that is '
                         'given to it once, at the start)' % (i, kind))
        if kind == 'again':
            same = kv(ln).get('same', '-')
            ctx.stat('%s:theorem-conclusion-%s' % (stream, {'1': 'rechecked', '-': 'not-applicable'}.get(same, 'FAILED')))
            if same == '0':
                ctx.disagree(stream, inp, 'same=0', 'same=1',
                             detail='the evaluated model contradicts marshal_again_same / marshal_again_new at step %d' % i)
        else:
            gen_bit(ctx, ln, inp)


def gen_histories(ctx, marshal, lo, hi):
    """Histories number lo .. hi-1 of each family (0..3: the deterministic ladders, one per class)."""
    rng = ctx.rng
    hs = []
    for k in range(lo, hi):
        hs.append(g_hist_omitted(rng, marshal, k))
        hs.append(g_hist_again(rng, marshal, k))
        hs.append(g_hist_parse(rng, marshal, k))
    return hs


# ---------------------------------------------------------------------------------- corpus / replay
def replay_case(ctx, marshal, message, data):
    if data.get('kind2') == 'remarshal':
        x = {k: data[k] for k in data if k not in ('kind', 'kind2', 'big', 'serial', 'fields')}
        x['sender'] = None if data.get('kind') != 'foreign' else x.get('sender')
        if data.get('kind') == 'foreign':
            fields = fields_from_json(data['fields'])
            for c, sg, v in fields:
                if c == 7:
                    x['sender'] = v
            flags = (0 if x['er'] else 1) | (0 if x['as'] else 2) | (4 if x.get('flag4') else 0)
            raw, fds = R.ref_message(MTYPE[x['cls']], flags, data['serial'], fields, x['signature'], case_abs(x), data['big'])
            inp = foreign_input(x, data['big'], data['serial'], fields)
        else:
            x.setdefault('_what', 'corpus')
            obs, m, fds = construct_real(message, x)
            if not obs['ok']:
                return
            raw, inp = m.rawMessage, public(x)
        run_remarshal(ctx, message, [(inp, raw, fds)])
        run_general_forward(ctx, message, [(inp, raw, fds)])
        return
    kind = data.get('kind', 'build')
    if kind == 'history':
        run_histories(ctx, marshal, message, [data])
        return
    if kind == 'foreign':
        x = {k: data[k] for k in data if k not in ('kind', 'big', 'serial', 'fields')}
        fields = fields_from_json(data['fields'])
        basic = all(len(s) == 1 and s != 'v' for _, s, _ in fields)
        run_foreign_cases(ctx, message, [(x, data['big'], data['serial'], fields, basic)])
        return
    if kind == 'raw':
        raw = vc.hex_bytes(data['raw'])
        out = ctx.model([parse_line(raw, data['fds'])])
        v, pm = parse_real(message, raw, data['fds'])
        ctx.case('parse-wrongtype', sample=None)
        general_parse_later(data, raw, data['fds'], v, body_tolerant=True)
        if out is not None and view_from_model(out[0]).get('err') != 'Exception' and view_from_model(out[0]) != v \
                and not body_stage_error(message, raw, data['fds']):
            ctx.disagree('parse-wrongtype', data, view_from_model(out[0]), v)
        return
    if kind in ('serial-sequence', 'real-limit'):
        if kind == 'real-limit':
            run_real_limit(ctx, marshal, message)
        else:
            run_serial_sequence(ctx, marshal, message, 200)
        return
    x = dict(data)
    x.pop('kind', None)
    x.setdefault('_what', 'corpus')
    res = run_build_stream(ctx, marshal, message, 'build', [x])
    run_parse_own(ctx, message, res)
    if len(x.get('body_line') or '') < 50000:
        run_wire_codec(ctx, marshal, message, [x])


def replay(ctx, data):
    from txdbus import marshal, message
    saved = get_next(message)
    PENDING.clear()
    VERIFY['on'] = False                  # the input that is replayed IS the exemplar
    try:
        replay_case(ctx, marshal, message, data['input'] if 'input' in data else data)
        flush_general_parse(ctx, message)
    finally:
        flush_violations(ctx)
        set_next(message, saved)


def run(ctx):
    from txdbus import marshal, message
    saved = get_next(message)
    TABLES.pop(id(message), None)
    PENDING.clear()
    check_tables(ctx, message, None)
    ctx.case('tables-immutable', sample=None, n=1)
    try:
        for name, data in ctx.corpus():
            replay_case(ctx, marshal, message, data['input'] if 'input' in data else data)
            ctx.stat('corpus')
        # the ladders of the state-leak round run before the bulk streams: what they show, they show from a clean process
        run_histories(ctx, marshal, message, gen_histories(ctx, marshal, 0, 4))
        rng = ctx.rng
        n = ctx.scale(quick=3000, thorough=100000)
        cases = large_cases(marshal) + long_signature_cases() + [g_case(rng, marshal) for _ in range(n)]
        built = run_build_stream(ctx, marshal, message, 'build', cases)
        for x, obs, m, oob in built:
            ctx.stat('build:fields=%d' % sum(1 for a in ATTRS[:-1] if x[a] is not None))
            ctx.stat('build:flags=%d' % ((0 if x['er'] else 1) | (0 if x['as'] else 2)))
            if obs['ok']:
                ctx.stat('build:len=%s' % ('<64' if len(m.rawMessage) < 64 else '<256' if len(m.rawMessage) < 256 else '>=256'))
        run_parse_own(ctx, message, built)
        nw = ctx.scale(quick=1200, thorough=40000)
        wcases = [x for x in cases[:8] if len(x.get('body_line') or '') < 50000] + \
                 [respell_top(rng, x) for x in cases[-nw:]]
        run_wire_codec(ctx, marshal, message, wcases)
        own = [(public(x), m.rawMessage, oob) for x, obs, m, oob in built if obs['ok'] and in_domain(x)]
        run_remarshal(ctx, message, own[:ctx.scale(quick=1500, thorough=30000)])
        run_general_forward(ctx, message, own[:ctx.scale(quick=1500, thorough=30000)])
        mal = run_malformed(ctx, marshal, message, ctx.scale(quick=1500, thorough=50000))
        run_parse_own(ctx, message, mal)
        run_wire_codec(ctx, marshal, message, [x for x, _, _, _ in mal if len(x.get('body_line') or '') < 50000]
                       [:ctx.scale(quick=400, thorough=10000)])
        run_foreign(ctx, marshal, message, ctx.scale(quick=2000, thorough=70000))
        run_wrongtype(ctx, marshal, message, ctx.scale(quick=1200, thorough=40000))
        for _ in range(ctx.scale(quick=6, thorough=40)):
            run_serial_sequence(ctx, marshal, message, 150)
        run_histories(ctx, marshal, message, gen_histories(ctx, marshal, 4, ctx.scale(quick=60, thorough=600)))
        if ctx.tier == 'thorough' and not ctx.widen:
            run_real_limit(ctx, marshal, message)
        flush_general_parse(ctx, message)
    finally:
        del GENERAL_PARSE[:]
        flush_violations(ctx)
        set_next(message, saved)
