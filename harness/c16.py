"""C16 - the exported-object tree seen remotely is exactly what was exported.
Correspondence + oracle harness.

A real `DBusObjectHandler` sits on a recording fake connection.  A history of
exportObject / unexportObject calls is applied step by step; after EVERY step EVERY path of the
query set (the universe plus non-exported neighbours) is

  * introspected (org.freedesktop.DBus.Introspectable.Introspect),
  * asked for org.freedesktop.DBus.ObjectManager.GetManagedObjects,
  * called with an ordinary method (org.verif.Id.whoami),

each as a marshalled-and-parsed MethodCallMessage through `handleMethodCallMessage`; the reply is
taken from the connection, marshalled form parsed back (what a remote peer would see), XML parsed
with xml.etree.  Two independent judgements per observation:

  S3  the Lean model (lean/TxdbusModel/Obj/Tree.lean through drv_c16) must print the same line;
  S4  the oracle `judge_*` below, written from the property statement on paths as element lists
      (split on '/'), using only the harness's own bookkeeping of what was exported.
"""
import xml.etree.ElementTree as ET

STREAMS = ['history-fixed-universe', 'history-random-universe', 'history-enumerated']
THEOREMS = ['exports_eq_spec', 'children_eq_spec', 'introspect_fails_iff_nothing_there',
            'managed_eq_spec', 'unknown_object_iff_not_exported', 'export_signals',
            'strictlyBelow_iff_text', 'orig_introspect_root_lists_empty_child',
            'orig_managed_reports_prefix_sibling']
TRUSTED_BASE = [
    'Python str.startswith/endswith/partition/slicing, sorted() on str, dict insertion order and key '
    'overwrite (mirrored in Obj/Tree.lean, validated by the streams)',
    'objects are abstract in the model: a path, interface names, an opaque payload for the readable '
    'properties (property access itself is C17; interface XML is C15)',
    'xml.etree as the remote reader of the introspection document',
]
ASSUMPTIONS = [
    'every exported object reports a valid object path (DBusObject.__init__ validates it) and reports the '
    'same path and interfaces every time it is asked',
    'one handler, calls arrive one at a time (no re-entrancy from inside exported methods)',
]
RULE = ('a case is one history (universe of paths, list of export/unexport calls with the exported class and '
        'property values) together with all queries made after each step; distinct = distinct canonical JSON '
        'of (universe, ops); non-trivial = at least one export and one query answered from a non-empty table')

ID_IFACE = 'org.verif.Id'
PROPS_IFACE = 'org.freedesktop.DBus.Properties'
BUILTIN = ['org.freedesktop.DBus.Introspectable', 'org.freedesktop.DBus.Peer',
           'org.freedesktop.DBus.ObjectManager']
UNKNOWN_OBJECT = 'org.freedesktop.DBus.Error.UnknownObject'

# --------------------------------------------------------------------------- classes under export
_CLASSES = {}


def classes():
    """DBusObject subclasses built by the harness (after the pipeline selected the repository).
    kind -> (class, interface names in getInterfaces() order, {iface: [readable property names]})"""
    import txdbus
    key = txdbus.__file__
    if key in _CLASSES:
        return _CLASSES[key]
    from txdbus import objects
    from txdbus.interface import DBusInterface, Method, Property, Signal

    i_id = DBusInterface(ID_IFACE, Method('whoami', '', 's'), Property('ident', 'u'))
    i_a = DBusInterface('org.verif.A', Method('foo', 's', 's'), Signal('ping', 's'),
                        Property('label', 's'), Property('secret', 'i', readable=False, writeable=True),
                        Property('level', 'i', writeable=True))
    i_b = DBusInterface('org.verif.B', Method('bar', '', 'i'), Property('count', 'x'))
    i_c = DBusInterface('org.verif.sub.C', Method('baz', '', ''))

    class Base(objects.DBusObject):
        dbusInterfaces = [i_id]
        ident = objects.DBusProperty('ident')

        def __init__(self, path, ident, vals):
            objects.DBusObject.__init__(self, path)
            self._n = ident
            self.ident = ident
            self._init(vals)

        def _init(self, vals):
            pass

        def dbus_whoami(self):
            return str(self._n)

    class KA(Base):
        dbusInterfaces = [i_a]
        label = objects.DBusProperty('label')
        secret = objects.DBusProperty('secret')
        level = objects.DBusProperty('level')

        def _init(self, vals):
            self.label, self.secret, self.level = vals['label'], vals['secret'], vals['level']

        def dbus_foo(self, s):
            return s

    class KAB(Base):
        dbusInterfaces = [i_a, i_b]
        label = objects.DBusProperty('label')
        secret = objects.DBusProperty('secret')
        level = objects.DBusProperty('level')
        count = objects.DBusProperty('count')

        def _init(self, vals):
            self.label, self.secret, self.level = vals['label'], vals['secret'], vals['level']
            self.count = vals['count']

        def dbus_foo(self, s):
            return s

        def dbus_bar(self):
            return 1

    class KABC(KAB):
        dbusInterfaces = [i_c]

        def dbus_baz(self):
            return None

    class KDup(KA):
        # names interface A again: getInterfaces() yields it twice
        dbusInterfaces = [i_a]

    class KLen(KA):
        # container-like object: falsy while it holds no items (the harness changes _items over the history)
        _items = ()

        def _init(self, vals):
            KA._init(self, vals)
            self._items = ['item'] * vals.get('items', 0)

        def __len__(self):
            return len(self._items)

    class KFalse(Base):
        # an exported object that is always falsy
        def __bool__(self):
            return False

    id_props = {ID_IFACE: ['ident'], PROPS_IFACE: []}
    a_props = {'org.verif.A': ['label', 'level']}
    b_props = {'org.verif.B': ['count']}
    out = {
        'Base': (Base, [ID_IFACE, PROPS_IFACE], dict(id_props)),
        'KA': (KA, ['org.verif.A', ID_IFACE, PROPS_IFACE], dict(id_props, **a_props)),
        'KAB': (KAB, ['org.verif.A', 'org.verif.B', ID_IFACE, PROPS_IFACE], dict(id_props, **a_props, **b_props)),
        'KABC': (KABC, ['org.verif.sub.C', 'org.verif.A', 'org.verif.B', ID_IFACE, PROPS_IFACE],
                 dict(id_props, **a_props, **b_props, **{'org.verif.sub.C': []})),
        'KDup': (KDup, ['org.verif.A', 'org.verif.A', ID_IFACE, PROPS_IFACE], dict(id_props, **a_props)),
        'KLen': (KLen, ['org.verif.A', ID_IFACE, PROPS_IFACE], dict(id_props, **a_props)),
        'KFalse': (KFalse, [ID_IFACE, PROPS_IFACE], dict(id_props)),
    }
    _CLASSES[key] = out
    return out


KINDS = ['Base', 'KA', 'KAB', 'KABC', 'KDup', 'KLen', 'KLen', 'KFalse']


def expected_props(kind, ident, vals):
    """{iface: {readable property: value}} of an object, from the harness's own description."""
    _, _, readable = classes()[kind]
    allv = dict(vals, ident=ident)
    return {i: {p: allv[p] for p in ps} for i, ps in readable.items()}


class FakeConn:
    """What DBusObjectHandler needs from its connection: sendMessage (recorded) and busName."""
    busName = ':1.100'

    def __init__(self):
        self.sent = []

    def sendMessage(self, msg):
        self.sent.append(msg)

    def take(self):
        out, self.sent = self.sent, []
        return out


# --------------------------------------------------------------------------- text encoding (driver protocol)
def hx(s):
    return ''.join('%06x' % ord(c) for c in s) or '-'


def strs(l):
    return ','.join(hx(x) for x in l) if l else '[]'


def plain(v):
    """Parsed body values -> plain Python (wrapper classes of marshal are int/str subclasses)."""
    if isinstance(v, dict):
        return {plain(k): plain(x) for k, x in v.items()}
    if isinstance(v, (list, tuple)):
        return [plain(x) for x in v]
    if isinstance(v, bool):
        return bool(v)
    if isinstance(v, int):
        return int(v)
    if isinstance(v, str):
        return str(v)
    return v


# --------------------------------------------------------------------------- one scenario on the real code
class World:
    """Real handler + the harness's bookkeeping of what the calls so far imply."""

    def __init__(self):
        from txdbus import objects
        self.conn = FakeConn()
        self.h = objects.DBusObjectHandler(self.conn)
        self.registry = {}      # ident -> (kind, path, expected props)
        self.objs = {}          # ident -> the exported instance
        self.exported = {}      # path -> ident        (bookkeeping from the calls alone)
        self.next_ident = 1
        self.serial = 100

    def remote_view(self, msgs):
        """Every message handed to the connection, as a remote peer would decode it."""
        from txdbus import message
        out = []
        for m in msgs:
            out.append(message.parseMessage(m.rawMessage, []))
        return out

    def payload_of(self, props):
        """Identify the object a property dump belongs to: its ident if the whole dump is what that
        object was given, else '?'."""
        props = plain(props)
        try:
            ident = props[ID_IFACE]['ident']
        except Exception:
            return '?'
        reg = self.registry.get(ident)
        if reg is None or reg[2] != props:
            return '?'
        return str(ident)

    # -- API calls
    def export(self, path, kind, vals):
        cls = classes()[kind][0]
        ident = self.next_ident
        self.next_ident += 1
        obj = cls(path, ident, vals)
        self.objs[ident] = obj
        self.registry[ident] = (kind, path, expected_props(kind, ident, vals))
        self.conn.take()
        try:
            self.h.exportObject(obj)
            exc = None
        except Exception as e:       # noqa
            exc = type(e).__name__
        sent = self.remote_view(self.conn.take())
        self.exported[path] = ident
        return ident, exc, sent

    def unexport(self, path):
        self.conn.take()
        try:
            self.h.unexportObject(path)
            exc = None
        except Exception as e:       # noqa
            exc = type(e).__name__
        sent = self.remote_view(self.conn.take())
        was = self.exported.pop(path, None)
        return was, exc, sent

    def churn(self, step_no):
        """Container-like exported objects gain and lose items over the history (0, 1 or 2 items):
        what they hold is no API call on the handler and must not change what is exported."""
        for ident in self.exported.values():
            obj = self.objs[ident]
            if hasattr(obj, '_items'):
                obj._items = ['item'] * ((step_no + ident) % 3)

    def call(self, path, iface, member, signature=None, body=None):
        from txdbus import message
        self.serial += 1
        m = message.MethodCallMessage(path, member, interface=iface, destination=FakeConn.busName,
                                      signature=signature, body=body)
        pm = message.parseMessage(m.rawMessage, [])
        pm.sender = ':1.7'
        self.conn.take()
        self.h.handleMethodCallMessage(pm)
        return self.remote_view(self.conn.take())


def canon_signals(world, exc, sent):
    from txdbus import message
    if exc == 'KeyError' and not sent:
        return 'keyerror'
    if exc is not None:
        return 'exc:%s:%d' % (exc, len(sent))
    parts = []
    for m in sent:
        if not isinstance(m, message.SignalMessage) or m.interface != 'org.freedesktop.DBus.ObjectManager':
            parts.append('other:%s' % type(m).__name__)
        elif m.member == 'InterfacesAdded' and m.signature == 'sa{sa{sv}}':
            parts.append('added %s %s %s %s' % (hx(m.path), hx(m.body[0]), world.payload_of(m.body[1]),
                                                strs(list(m.body[1].keys()))))
        elif m.member == 'InterfacesRemoved' and m.signature == 'sas':
            parts.append('removed %s %s %s' % (hx(m.path), hx(m.body[0]), strs(list(m.body[1]))))
        else:
            parts.append('other:%s:%s' % (m.member, m.signature))
    return ' | '.join(parts)


def parse_intro(xml):
    """(node name, interface names, child node names) of an introspection document."""
    root = ET.fromstring(xml)
    ifaces = [c.get('name') for c in root if c.tag == 'interface']
    kids = [c.get('name') for c in root if c.tag == 'node']
    return root.get('name'), ifaces, kids


def observe(world, kind, path, sent):
    """Canonical line (driver format) + structured observation for the oracle."""
    from txdbus import message
    obs = {'n': len(sent)}
    if len(sent) != 1:
        return 'replies=%d' % len(sent), obs
    r = sent[0]
    if isinstance(r, message.ErrorMessage):
        obs['error'] = r.error_name
        obs['text'] = r.body[0] if r.body else None
        if r.error_name == UNKNOWN_OBJECT and r.body == ['%s is not an object provided by this process.' % path]:
            return 'unknown ' + hx(path), obs
        return 'error:%s' % r.error_name, obs
    if not isinstance(r, message.MethodReturnMessage):
        return 'other:%s' % type(r).__name__, obs
    if kind == 'ping':
        obs['pong'] = True
        return ('pong' if not r.body else 'return:%r' % (r.body,)), obs
    if kind == 'introspect':
        name, ifaces, kids = parse_intro(r.body[0])
        obs.update(node=name, ifaces=ifaces, kids=kids)
        if ifaces[-3:] == BUILTIN:
            shown = strs(ifaces[:-3])
        elif not ifaces:
            shown = 'none'
        else:
            shown = 'odd:' + strs(ifaces)
        return 'intro %s %s' % (shown, strs(kids)), obs
    if kind == 'managed':
        d = r.body[0]
        obs['managed'] = plain(d)
        ents = ['%s:%s:%s' % (hx(k), world.payload_of(v), strs(list(v.keys()))) for k, v in d.items()]
        return 'managed ' + (';'.join(ents) if ents else '[]'), obs
    # ordinary
    obs['ret'] = plain(r.body)
    if kind == 'ordinary':
        return 'dispatch %s' % (r.body[0] if r.body else '?'), obs
    return 'return', obs


# --------------------------------------------------------------------------- the oracle (property statement)
def elems(p):
    """Object path -> list of elements ('/' is the empty list)."""
    return [] if p == '/' else p[1:].split('/')


def strictly_below(p, q):
    ep, eq = elems(p), elems(q)
    return len(eq) > len(ep) and eq[:len(ep)] == ep


def spec_children(p, exported):
    return sorted({elems(q)[len(elems(p))] for q in exported if strictly_below(p, q)})


def spec_below(p, exported):
    return sorted(q for q in exported if strictly_below(p, q))


def judge_query(ctx, world, hist, step_no, kind, path, obs, call_desc):
    exported = world.exported
    inp = {'universe': hist['universe'], 'ops': hist['ops'][:step_no], 'query': [kind, path] + call_desc}
    is_unknown = obs.get('n') == 1 and obs.get('error') == UNKNOWN_OBJECT
    if kind == 'introspect':
        kids_spec = spec_children(path, exported)
        nothing = path not in exported and not spec_below(path, exported)
        if nothing:
            if not (obs.get('n') == 1 and 'error' in obs):
                ctx.violation('introspect-nothing-there-succeeds',
                              'introspecting a path with neither object nor descendants does not fail',
                              inp, observed=obs, expected='an error reply')
            return
        if 'kids' not in obs:
            ctx.violation('introspect-fails-though-something-there',
                          'introspecting a path that is exported or has exported descendants fails',
                          inp, observed=obs, expected={'children': kids_spec})
            return
        kids = obs['kids']
        if sorted(kids) != kids_spec:
            if '' in kids and path == '/' and sorted(k for k in kids if k != '') == kids_spec:
                ctx.violation('introspect-root-lists-empty-child',
                              'introspecting "/" while "/" itself is exported lists a child node named ""',
                              inp, observed=kids, expected=kids_spec)
            elif len(set(kids)) != len(kids) and sorted(set(kids)) == kids_spec:
                ctx.violation('introspect-duplicate-child', 'a child node name is listed twice',
                              inp, observed=kids, expected=kids_spec)
            else:
                ctx.violation('introspect-children-mismatch',
                              'the child nodes listed are not the immediate children among the exported paths',
                              inp, observed=kids, expected=kids_spec)
    elif kind == 'managed':
        if path not in exported:
            if not is_unknown:
                ctx.violation('call-unexported-not-unknownobject',
                              'GetManagedObjects on a path that is not exported is not answered UnknownObject',
                              inp, observed=obs, expected=UNKNOWN_OBJECT)
            return
        below = spec_below(path, exported)
        if 'managed' not in obs:
            ctx.violation('managed-objects-fails', 'GetManagedObjects on an exported path is not answered with the objects',
                          inp, observed=obs, expected=below)
            return
        got = obs['managed']
        if sorted(got.keys()) != below:
            extra = [k for k in got if k not in below]
            missing = [k for k in below if k not in got]
            if extra and not missing and all(k.startswith(path) and k in exported and k != path for k in extra):
                ctx.violation('managed-objects-prefix-sibling',
                              'GetManagedObjects on %s reports %s, which only shares a textual prefix' % (path, extra[0]),
                              inp, observed=sorted(got.keys()), expected=below)
            else:
                ctx.violation('managed-objects-mismatch',
                              'GetManagedObjects does not report exactly the exported objects strictly beneath the path',
                              inp, observed=sorted(got.keys()), expected=below)
            return
        for k in below:
            reg = world.registry[exported[k]]
            if got[k] != reg[2]:
                ctx.violation('managed-objects-content',
                              'an object reported by GetManagedObjects lacks interfaces or readable properties',
                              inp, observed={k: got[k]}, expected={k: reg[2]})
                return
    elif kind in ('ordinary', 'ordinary-noiface', 'ordinary-nomethod'):
        if path not in exported:
            if not is_unknown:
                ctx.violation('call-unexported-not-unknownobject',
                              'a call to a path that is not exported is not answered UnknownObject',
                              inp, observed=obs, expected=UNKNOWN_OBJECT)
        else:
            if is_unknown:
                ctx.violation('call-exported-unknownobject',
                              'a call to an exported path is answered UnknownObject',
                              inp, observed=obs, expected='the call reaches the object')
            elif kind != 'ordinary-nomethod' and obs.get('ret') != [str(exported[path])]:
                ctx.violation('call-reaches-wrong-object',
                              'a call to an exported path is not answered by the object exported there most recently',
                              inp, observed=obs, expected=[str(exported[path])])


def judge_step(ctx, world, hist, step_no, op, result):
    """Each export / unexport announces itself with exactly one signal naming path and interfaces."""
    from txdbus import message
    inp = {'universe': hist['universe'], 'ops': hist['ops'][:step_no], 'query': ['signals']}
    ident_or_was, exc, sent = result
    if op[0] == 'export':
        want_if = sorted(set(classes()[op[2]][1]))
        ok = (exc is None and len(sent) == 1 and isinstance(sent[0], message.SignalMessage)
              and sent[0].member == 'InterfacesAdded'
              and sent[0].interface == 'org.freedesktop.DBus.ObjectManager'
              and len(sent[0].body) == 2 and sent[0].body[0] == op[1]
              and sorted(sent[0].body[1].keys()) == want_if)
        if not ok:
            ctx.violation('export-signal-wrong',
                          'exportObject does not announce itself with one InterfacesAdded naming the path and the interfaces',
                          inp, observed=canon_signals(world, exc, sent), expected=['InterfacesAdded', op[1], want_if])
    else:
        if ident_or_was is None:
            # unexporting a path that is not exported: nothing was unexported, nothing may be announced
            if sent:
                ctx.violation('unexport-nothing-announces',
                              'unexportObject of a path that is not exported sends a message',
                              inp, observed=canon_signals(world, exc, sent), expected='no message')
            return
        want_if = sorted(set(classes()[world.registry[ident_or_was][0]][1]))
        ok = (exc is None and len(sent) == 1 and isinstance(sent[0], message.SignalMessage)
              and sent[0].member == 'InterfacesRemoved'
              and sent[0].interface == 'org.freedesktop.DBus.ObjectManager'
              and len(sent[0].body) == 2 and sent[0].body[0] == op[1]
              and sorted(set(sent[0].body[1])) == want_if)
        if not ok:
            ctx.violation('unexport-signal-wrong',
                          'unexportObject does not announce itself with one InterfacesRemoved naming the path and the interfaces',
                          inp, observed=canon_signals(world, exc, sent), expected=['InterfacesRemoved', op[1], want_if])


# --------------------------------------------------------------------------- generators
ELEMS = ['a', 'b', 'bc', 'b_c', 'c', 'ab', 'A', '_', '0', 'a0', 'org', 'x']
FIXED_UNIVERSE = ['/', '/a', '/a/b', '/a/bc', '/a/b_c', '/a/b/c', '/a/b/c/d', '/ab', '/a/b/cd', '/b', '/a/bc/c']


def valid_path(p):
    if p == '/':
        return True
    if not p.startswith('/') or p.endswith('/') or '//' in p:
        return False
    return all(c.isascii() and (c.isalnum() or c == '_') for c in p.replace('/', ''))


def neighbours(universe):
    """Non-exported neighbours worth asking about: parents, grandparents, textual variations
    (a character more, a character less), a child below, the root."""
    out = set(['/'])
    for p in universe:
        e = elems(p)
        for i in range(1, len(e)):
            out.add('/' + '/'.join(e[:i]))
        if p != '/':
            out.add(p + 'c')
            out.add(p + '_')
            out.add(p[:-1])
            out.add(p + '/zz')
            out.add('/' + p[1:].replace('/', '_'))
        else:
            out.add('/zz')
    return sorted(q for q in out if valid_path(q) and q not in universe)


def gen_vals(rng):
    return {'label': rng.choice(['', 'x', 'hello', 'café', 'a/b']), 'secret': rng.randrange(-5, 5),
            'items': rng.choice([0, 0, 1, 3]),
            'level': rng.choice([0, 1, -1, 2 ** 31 - 1]), 'count': rng.choice([0, 7, -2 ** 40, 2 ** 62])}


def gen_universe(rng):
    shape = rng.choice(['tree', 'prefix', 'deep', 'root', 'flat'])
    alpha = rng.sample(ELEMS, rng.randrange(2, 5))
    if shape in ('prefix', 'root'):
        alpha = list(dict.fromkeys(alpha + ['b', 'bc', 'b_c']))
    paths = set()
    if shape == 'deep':
        chain = [rng.choice(alpha) for _ in range(rng.randrange(5, 12))]
        for i in sorted(rng.sample(range(1, len(chain) + 1), rng.randrange(2, 5))):
            paths.add('/' + '/'.join(chain[:i]))
        paths.add('/' + '/'.join(chain))
    n = rng.randrange(4, 11)
    for _ in range(60):                           # bounded: a small alphabet may not have n paths
        if len(paths) >= n:
            break
        depth = rng.choice([1, 1, 2]) if shape == 'flat' else rng.choice([1, 2, 2, 3, 3, 4])
        p = '/' + '/'.join(rng.choice(alpha) for _ in range(depth))
        paths.add(p)
        if rng.random() < 0.4 and depth > 1:     # add its parent as an exportable path as well
            paths.add(p.rsplit('/', 1)[0])
    if shape == 'root' or rng.random() < 0.5:
        paths.add('/')
    return sorted(paths), shape


def gen_history(rng, universe, length):
    ops = []
    live = set()
    burst = rng.randrange(0, max(2, (len(universe) * 3) // 4))       # fill the tree first, then churn
    for i in range(length):
        r = rng.random()
        if i < burst:
            r = 0.9
        if live and r < 0.22:
            p = rng.choice(sorted(live))
            ops.append(['unexport', p])
            live.discard(p)
        elif r < 0.27:
            p = rng.choice(universe)                      # possibly not exported
            ops.append(['unexport', p])
            live.discard(p)
        elif live and r < 0.35:
            p = rng.choice(sorted(live))                  # export over an existing object
            ops.append(['export', p, rng.choice(KINDS), gen_vals(rng)])
        else:
            dead = [p for p in universe if p not in live]
            p = rng.choice(dead) if dead and rng.random() < 0.8 else rng.choice(universe)
            ops.append(['export', p, rng.choice(KINDS), gen_vals(rng)])
            live.add(p)
    return ops


# --------------------------------------------------------------------------- running one history
QUERY_KINDS = ['introspect', 'managed', 'ordinary']


def run_history(ctx, stream, hist, lines, expect, judge=True, extra_every=7):
    """Apply hist on the real code, query everything after every step; append the driver lines to
    `lines` and (stream, hist, step, what, canonical implementation line) to `expect`."""
    world = World()
    universe = hist['universe']
    queries = list(universe) + list(hist.get('neighbours', []))
    lines.append('reset')
    expect.append((stream, hist, 0, ['reset'], 'ok'))
    nonempty_answers = 0
    for step_no, op in enumerate(hist['ops'], 1):
        if op[0] == 'export':
            res = world.export(op[1], op[2], op[3])
            names = classes()[op[2]][1]
            lines.append('export %s %d %s' % (hx(op[1]), res[0], ' '.join(hx(n) for n in names)))
            ctx.stat('op=export')
            ctx.stat('kind=' + op[2])
        else:
            res = world.unexport(op[1])
            lines.append('unexport ' + hx(op[1]))
            ctx.stat('op=unexport' + ('' if res[0] is not None else '-not-exported'))
        expect.append((stream, hist, step_no, ['signals'], canon_signals(world, res[1], res[2])))
        if judge:
            judge_step(ctx, world, hist, step_no, op, res)
        world.churn(step_no)
        ctx.stat('falsy-exported=%d' % min(3, sum(1 for i in world.exported.values() if not world.objs[i])))
        # dict order of the table itself (insertion order is what the child order shows)
        lines.append('keys')
        expect.append((stream, hist, step_no, ['keys'], 'keys ' + strs(list(world.h.exports.keys()))))
        ctx.stat('exported=%02d' % min(len(world.exported), 12))
        for qi, path in enumerate(queries):
            for kind in QUERY_KINDS:
                if kind == 'introspect':
                    sent = world.call(path, 'org.freedesktop.DBus.Introspectable', 'Introspect')
                elif kind == 'managed':
                    sent = world.call(path, 'org.freedesktop.DBus.ObjectManager', 'GetManagedObjects')
                else:
                    sent = world.call(path, ID_IFACE, 'whoami')
                line, obs = observe(world, kind, path, sent)
                lines.append('call %s %s' % (kind, hx(path)))
                expect.append((stream, hist, step_no, [kind, path], line))
                ctx.stat('answer=%s/%s' % (kind, line.split(' ', 1)[0].split(':', 1)[0]))
                if world.exported:
                    nonempty_answers += 1
                if judge:
                    judge_query(ctx, world, hist, step_no, kind, path, obs, [])
            # a few more shapes of ordinary calls and Ping, judged by the oracle / compared as well
            if (qi + step_no) % extra_every == 0:
                sent = world.call(path, None, 'whoami')
                line, obs = observe(world, 'ordinary', path, sent)
                lines.append('call ordinary ' + hx(path))
                expect.append((stream, hist, step_no, ['ordinary-noiface', path], line))
                if judge:
                    judge_query(ctx, world, hist, step_no, 'ordinary-noiface', path, obs, [])
                sent = world.call(path, ID_IFACE, 'nope', signature='s', body=['x'])
                _, obs = observe(world, 'ordinary-nomethod', path, sent)
                if judge:
                    judge_query(ctx, world, hist, step_no, 'ordinary-nomethod', path, obs, [])
                sent = world.call(path, 'org.freedesktop.DBus.Peer', 'Ping')
                line, obs = observe(world, 'ping', path, sent)
                lines.append('call ping ' + hx(path))
                expect.append((stream, hist, step_no, ['ping', path], line))
    ctx.impl_trace()
    return nonempty_answers


def canon_line(line):
    """Order-insensitive form of a driver / implementation line: the theorems speak about sets
    (plus "no duplicates"), so lists are compared as sorted multisets - child names, table keys,
    interface names, reply entries.  Duplicates survive the sorting."""
    toks = []
    for tok in line.split(' '):
        ents = []
        for ent in tok.split(';'):
            ents.append(':'.join(','.join(sorted(f.split(','))) for f in ent.split(':')))
        toks.append(';'.join(sorted(ents)))
    return ' '.join(toks)


def compare(ctx, lines, expect):
    out = ctx.model(lines)
    if out is None:
        return
    seen = set()
    for (stream, hist, step_no, what, impl), m in zip(expect, out):
        if canon_line(m) != canon_line(impl):
            key = (id(hist), what[0])
            if key in seen:
                continue
            seen.add(key)
            ctx.disagree(stream, {'universe': hist['universe'], 'ops': hist['ops'][:step_no], 'query': what},
                         m, impl)


def make_hist(universe, ops, rng=None):
    """The query set is the universe plus neighbours: all of them for small universes, otherwise the
    missing ancestors plus a sample of the textual variations."""
    nb = neighbours(universe)
    if rng is not None and len(nb) > 6:
        anc = set()
        for p in universe:
            e = elems(p)
            for i in range(1, len(e)):
                anc.add('/' + '/'.join(e[:i]))
        keep = [q for q in nb if q in anc]
        rest = [q for q in nb if q not in anc]
        keep += rng.sample(rest, min(len(rest), max(3, len(universe) // 2)))
        nb = sorted(keep)
    return {'universe': universe, 'neighbours': nb, 'ops': ops}


def enumerated(max_len):
    """All histories up to max_len over a tiny universe with the root and a prefix-sharing pair."""
    uni = ['/', '/a/b', '/a/bc', '/a/b/c']
    vals = {'label': 'x', 'secret': 0, 'level': 1, 'count': 7}
    alphabet = [['export', p, ['KAB', 'KLen', 'KFalse', 'KA'][i % 4], vals] for i, p in enumerate(uni)] + [['unexport', p] for p in uni]

    def rec(prefix, n):
        if n == 0:
            yield list(prefix)
            return
        for op in alphabet:
            prefix.append(op)
            yield from rec(prefix, n - 1)
            prefix.pop()
    for n in range(1, max_len + 1):
        for ops in rec([], n):
            yield make_hist(uni, ops)


def run_batch(ctx, stream, hists, judge=True):
    lines, expect = [], []
    for hist in hists:
        if ctx.time_left() < 5:
            ctx.note('time budget reached in stream %s' % stream)
            break
        ne = run_history(ctx, stream, hist, lines, expect, judge=judge)
        ctx.case(stream, sample={'universe': hist['universe'], 'ops': hist['ops']},
                 nontrivial=ne > 0 and any(o[0] == 'export' for o in hist['ops']))
        ctx.stat('history-len=%d' % (len(hist['ops']) // 5 * 5))
        ctx.stat('universe-size=%d' % len(hist['universe']))
    compare(ctx, lines, expect)


def run(ctx):
    classes()
    # ---- corpus first (past failures): each file has 'input': {'universe', 'ops'}
    corpus_h = []
    for name, case in ctx.corpus():
        inp = case.get('input', case)
        corpus_h.append(make_hist(inp['universe'], inp['ops']))
    if corpus_h:
        run_batch(ctx, 'history-fixed-universe', corpus_h)

    rng = ctx.rng
    # ---- the fixed universe with parents, children, grandchildren, prefix-sharing siblings, the root
    n = ctx.scale(quick=20, thorough=160)
    hs = []
    for i in range(n):
        uni = FIXED_UNIVERSE if i % 2 == 0 else sorted(rng.sample(FIXED_UNIVERSE, rng.randrange(4, 9)) + (['/'] if i % 4 == 1 else []))
        uni = sorted(set(uni))
        hs.append(make_hist(uni, gen_history(rng, uni, rng.randrange(6, 22)), rng))
    run_batch(ctx, 'history-fixed-universe', hs)

    # ---- random universes
    n = ctx.scale(quick=40, thorough=400)
    hs = []
    for i in range(n):
        uni, shape = gen_universe(rng)
        ctx.stat('shape=' + shape)
        hs.append(make_hist(uni, gen_history(rng, uni, rng.randrange(4, 26)), rng))
    run_batch(ctx, 'history-random-universe', hs)

    # ---- bounded-exhaustive small histories
    max_len = 2 if ctx.tier == 'quick' and not ctx.widen else 3
    run_batch(ctx, 'history-enumerated', list(enumerated(max_len)))


def replay(ctx, data):
    classes()
    inp = data['input']
    hist = make_hist(inp['universe'], inp['ops'])
    run_batch(ctx, 'history-fixed-universe', [hist])
