"""C16 - the exported-object tree seen remotely is exactly what was exported.
Correspondence + oracle harness.

A real `DBusObjectHandler` sits on a recording fake connection (and, in one stream, inside a real
`DBusClientConnection` on a recording transport).  A history of exportObject / unexportObject calls
is applied step by step; after EVERY step EVERY path of the query set (the universe plus
non-exported neighbours) is

  * introspected (org.freedesktop.DBus.Introspectable.Introspect),
  * asked for org.freedesktop.DBus.ObjectManager.GetManagedObjects,
  * called with an ordinary method (org.verif.Id.whoami),

and, for a rotating part of the paths, called without interface, with members that do not exist
or that are NAMED like a built-in (`org.verif.Id.Ping`, `.Introspect`, `.GetManagedObjects`,
`Peer.Introspect` ...) and pinged - each as a marshalled-and-parsed MethodCallMessage through
`handleMethodCallMessage`; the reply is taken from the connection, its marshalled form parsed back
(what a remote peer would see), XML parsed with xml.etree.  Two independent judgements:

  S3  the Lean model (lean/TxdbusModel/Obj/Tree.lean through drv_c16) must print the same line
      (compared order-insensitively, without error texts and exception types);
  S4  the oracle `judge_*` below, written from the property statement on paths as element lists
      (split on '/'), using only the harness's own bookkeeping of what was exported.

State that outlives one call / handler / class (notes/STATE_AUDIT.md, G6): stream `history-handlers` keeps SEVERAL
handlers alive in one scenario (own connection each, some of them real client connections), interleaves the calls,
exports the same instances on several handlers, unexports and re-exports them, lets exports fail half-way (a raising
getAllProperties, an invalid path) before good ones, and judges every handler against the calls made on IT after every
call (that ONE instance may be exported on two handlers at once is what txdbus does today, not something the
statement says: an implementation that moves the instance would make this per-handler bookkeeping wrong - design-dependent,
see notes/C16.md).  Classes: a process-wide family used case after case AND new families per case (a base/derived pair first used
in either order).  `stabilise` re-runs every finding on a freshly imported txdbus and stores the earlier cases it needs.
"""
import xml.etree.ElementTree as ET

STREAMS = ['history-fixed-universe', 'history-random-universe', 'history-enumerated', 'history-client-connection',
           'history-handlers', 'managed-values']
THEOREMS = ['exports_eq_spec', 'children_eq_spec', 'children_nil_iff', 'introspect_fails_iff_nothing_there',
            'interface_names_complete', 'interface_dict_complete', 'table_objects_sendable',
            'managed_entries_abstract', 'export_succeeds_if_well_typed', 'managed_eq_spec', 'managed_fails_iff', 'classify_ordinary_iff', 'unknown_object_iff_not_exported',
            'ping_answered_everywhere', 'export_signals', 'strictlyBelow_iff_text', 'parse_render_inverse',
            'objectPath_alphabet_eq_source', 'orig_introspect_root_lists_empty_child',
            'orig_managed_reports_prefix_sibling', 'orig_failed_export_stays_visible',
            'handlers_independent', 'handler_call_is_local']
TRUSTED_BASE = [
    'Python str.startswith/endswith/partition/slicing, sorted() on str, dict insertion order and key '
    'overwrite (mirrored in Obj/Tree.lean, validated by the streams)',
    'history streams: objects are abstract in Obj/Tree.lean (a path, interfaces with an opaque token per interface, a '
    'flag "its readable properties can be marshalled"); interface XML is C15',
    'stream managed-values: objects are instances of declared class chains in Obj/TreeProps.lean; what getAllProperties, '
    'the variant encoding and Properties.Set do is the C17 model Obj/Props.lean (its own tie is harness/c17.py), here '
    'tied again through InterfacesAdded / GetManagedObjects, names, variant signatures as marshalled, values',
    'the harness reads the marshalled replies with its own small DBus wire reader (wire_read), not with txdbus',
    'xml.etree as the remote reader of the introspection document',
]
ASSUMPTIONS = [
    'every exported object reports a valid object path (DBusObject.__init__ validates it) and reports the '
    'same path and interfaces every time it is asked',
    'classes are single-inheritance chains below DBusObject whose properties are declared through DBusProperty '
    'descriptors (deviations D1, D2 at managed_eq_spec); property types among the 14 signatures C17 models (D5)',
    'values that do not fit their declared type ARE generated, before and after export: an export then has to fail '
    'without effect or (if the value still marshals) succeed; GetManagedObjects above such an object answers an error '
    '(any error name) - the oracle judges content only where every readable value beneath fits its type (D3, D4); '
    'bool properties are always given bools',
    'calls arrive one at a time (no re-entrancy from inside exported methods); several handlers may be alive, each is '
    'judged against the calls made on it (the statement read per connection); an object misbehaves (raising '
    'getAllProperties, invalid path) only DURING an export call that therefore has to fail',
    'where the signals an exported OBJECT emits go (PropertiesChanged, emitSignal after a second export / an unexport) is '
    'not judged here: the statement speaks of the signals of export and unexport (C17 owns PropertiesChanged)',
]
RULE = ('a case is one history (universe of paths, list of export/unexport calls with the exported class and '
        'property values; in history-handlers also the handlers alive, the handler of each call, the class family and '
        'its first-use order) together with all queries made after each step on every handler; distinct = distinct '
        'canonical JSON of that; non-trivial = at least one export and one query answered from a non-empty table')

ID_IFACE = 'org.verif.Id'
BUILTIN = ['org.freedesktop.DBus.Introspectable', 'org.freedesktop.DBus.Peer',
           'org.freedesktop.DBus.ObjectManager']
UNKNOWN_OBJECT = 'org.freedesktop.DBus.Error.UnknownObject'
FAILED = 'org.freedesktop.DBus.Error.Failed'

# --------------------------------------------------------------------------- classes under export
_CLASSES = {}
_FIRST_USE = {}         # txdbus.__file__ -> kinds of the process-wide family in the order of their first instantiation

# the harness's own description of the classes (independent of txdbus): readable properties per declared interface
_ID_PROPS = {ID_IFACE: ['ident']}
_A_PROPS = {'org.verif.A': ['label', 'level']}
_B_PROPS = {'org.verif.B': ['count']}
KIND_READABLE = {
    'Base': dict(_ID_PROPS),
    'KA': dict(_ID_PROPS, **_A_PROPS),
    'KAB': dict(_ID_PROPS, **_A_PROPS, **_B_PROPS),
    'KABC': dict(_ID_PROPS, **_A_PROPS, **_B_PROPS, **{'org.verif.sub.C': []}),
    'KDup': dict(_ID_PROPS, **_A_PROPS),
    'KLen': dict(_ID_PROPS, **_A_PROPS),
    'KFalse': dict(_ID_PROPS),
    'KRaise': dict(_ID_PROPS, **_A_PROPS),
    'KPath': dict(_ID_PROPS, **_A_PROPS),
}
# (base class, derived class) pairs of the family: a case of `history-handlers` instantiates one pair first, in either order
FAMILY_PAIRS = [('Base', 'KA'), ('KA', 'KDup'), ('KA', 'KLen'), ('KAB', 'KABC'), ('Base', 'KFalse'), ('Base', 'KAB'),
                ('KA', 'KRaise'), ('Base', 'KABC')]
WARM_VALS = {'label': 'w', 'secret': 0, 'level': 0, 'count': 0}


def build_classes(variant=0):
    """A NEW family of DBusObject subclasses (new class objects, new DBusProperty descriptors, new interface objects).
    kind -> (class, names of the interfaces the harness DECLARED for it, {iface: [readable property names]}).
    variant > 0: the classes KA and KAB (hence everything derived from them) additionally declare the marker interface
    `org.verif.V<variant>` - families of different cases share the class NAMES but not what the classes declare."""
    from txdbus import objects
    from txdbus.interface import DBusInterface, Method, Property, Signal

    i_id = DBusInterface(ID_IFACE, Method('whoami', '', 's'), Property('ident', 'u'))
    i_a = DBusInterface('org.verif.A', Method('foo', 's', 's'), Signal('ping', 's'),
                        Property('label', 's'), Property('secret', 'i', readable=False, writeable=True),
                        Property('level', 'i', writeable=True))
    i_b = DBusInterface('org.verif.B', Method('bar', '', 'i'), Property('count', 'x'))
    i_c = DBusInterface('org.verif.sub.C', Method('baz', '', ''))
    marker = []
    if variant:
        marker = [DBusInterface('org.verif.V%d' % variant, Method('mark', '', ''))]

    class Base(objects.DBusObject):
        dbusInterfaces = [i_id]
        ident = objects.DBusProperty('ident')

        def __init__(self, path, ident, vals):
            objects.DBusObject.__init__(self, path)
            self._n = ident
            self.ident = ident
            self._init(vals)

        def _init(self, vals):
            pass

        def dbus_whoami(self):
            return str(self._n)

    class KA(Base):
        dbusInterfaces = [i_a] + marker
        label = objects.DBusProperty('label')
        secret = objects.DBusProperty('secret')
        level = objects.DBusProperty('level')

        def _init(self, vals):
            self.label, self.secret, self.level = vals['label'], vals['secret'], vals['level']

        def dbus_foo(self, s):
            return s

    class KAB(Base):
        dbusInterfaces = [i_a, i_b] + marker
        label = objects.DBusProperty('label')
        secret = objects.DBusProperty('secret')
        level = objects.DBusProperty('level')
        count = objects.DBusProperty('count')

        def _init(self, vals):
            self.label, self.secret, self.level = vals['label'], vals['secret'], vals['level']
            self.count = vals['count']

        def dbus_foo(self, s):
            return s

        def dbus_bar(self):
            return 1

    class KABC(KAB):
        dbusInterfaces = [i_c]

        def dbus_baz(self):
            return None

    class KDup(KA):
        # names interface A again: getInterfaces() yields it twice
        dbusInterfaces = [i_a]

    class KLen(KA):
        # container-like object: falsy while it holds no items (the harness changes _items over the history)
        _items = ()

        def _init(self, vals):
            KA._init(self, vals)
            self._items = ['item'] * vals.get('items', 0)

        def __len__(self):
            return len(self._items)

    class KFalse(Base):
        # an exported object that is always falsy
        def __bool__(self):
            return False

    class KRaise(KA):
        # an object that cannot tell the properties of ONE of its interfaces for a while: `_boom` = that interface's
        # name (None: all can be read).  Only set by the harness DURING an exportObject call.  (By name, not by call
        # count: in which order and how often the handler asks is its own business.)
        _boom = None

        def getAllProperties(self, interfaceName):
            if self._boom is not None and (not interfaceName or interfaceName == self._boom):
                raise RuntimeError('the properties of %s cannot be read now' % self._boom)
            return KA.getAllProperties(self, interfaceName)

    class KPath(KA):
        # an object that reports another (invalid) path for a while.  Only set by the harness DURING an exportObject call.
        _report = None

        def getObjectPath(self):
            if self._report is not None:
                return self._report
            return KA.getObjectPath(self)

    cls = {'Base': Base, 'KA': KA, 'KAB': KAB, 'KABC': KABC, 'KDup': KDup, 'KLen': KLen, 'KFalse': KFalse,
           'KRaise': KRaise, 'KPath': KPath}
    declared = {'Base': [ID_IFACE], 'KA': ['org.verif.A', ID_IFACE], 'KAB': ['org.verif.A', 'org.verif.B', ID_IFACE],
                'KABC': ['org.verif.sub.C', 'org.verif.A', 'org.verif.B', ID_IFACE], 'KDup': ['org.verif.A', ID_IFACE],
                'KLen': ['org.verif.A', ID_IFACE], 'KFalse': [ID_IFACE], 'KRaise': ['org.verif.A', ID_IFACE],
                'KPath': ['org.verif.A', ID_IFACE]}
    out = {}
    for kind, c in cls.items():
        names = list(declared[kind])
        if marker and kind not in ('Base', 'KFalse'):
            names.append(marker[0].name)
        out[kind] = (c, names, dict(KIND_READABLE[kind]))
    return out


def classes():
    """The process-wide family (built once, after the pipeline selected the repository): its classes are used by
    case after case, so what a class remembers from an earlier case is still there in a later one."""
    import txdbus
    key = txdbus.__file__
    if key not in _CLASSES:
        _CLASSES[key] = build_classes(0)
        _FIRST_USE[key] = []
    return _CLASSES[key]


def first_use_order():
    """Kinds of the process-wide family in the order they were first instantiated in this process."""
    import txdbus
    return list(_FIRST_USE.get(txdbus.__file__, []))


KINDS = ['Base', 'KA', 'KAB', 'KABC', 'KDup', 'KLen', 'KLen', 'KFalse']

# declared type of each property the harness declares (its own description, for "can this value be sent")
PROP_TYPES = {'ident': 'u', 'label': 's', 'level': 'i', 'count': 'x'}
INT_RANGE = {'u': (0, 2 ** 32 - 1), 'i': (-2 ** 31, 2 ** 31 - 1), 'x': (-2 ** 63, 2 ** 63 - 1)}


def value_fits(sig, v):
    """Can `v` travel as a DBus value of type `sig`?  (DBus specification, not txdbus.)"""
    if sig == 's':
        return isinstance(v, str) and '\0' not in v and not any(0xD800 <= ord(c) <= 0xDFFF for c in v)
    lo, hi = INT_RANGE[sig]
    return isinstance(v, int) and not isinstance(v, bool) and lo <= v <= hi


def expected_props(kind, ident, vals):
    """{declared iface: {readable property: value}} of an object, from the harness's own description."""
    readable = KIND_READABLE[kind]
    allv = dict(vals, ident=ident)
    return {i: {p: allv[p] for p in ps} for i, ps in readable.items()}


def sendable(kind, ident, vals):
    """All readable property values of the object fit their declared types."""
    return all(value_fits(PROP_TYPES[p], v) for d in expected_props(kind, ident, vals).values() for p, v in d.items())


class FakeConn:
    """What DBusObjectHandler needs from its connection: sendMessage (recorded) and busName."""
    busName = ':1.100'

    def __init__(self):
        self.sent = []
        self.msgs = []          # the message objects themselves (variant signatures are read off their bodies)

    def sendMessage(self, msg):
        self.sent.append(msg.rawMessage)
        self.msgs.append(msg)

    def take(self):
        out, self.sent = self.sent, []
        return out


class RecTransport:
    """Transport of the client-connection stream: every write is one marshalled message."""
    def __init__(self):
        self.chunks = []

    def write(self, data):
        self.chunks.append(bytes(data))

    def loseConnection(self):
        pass

    def take(self):
        out, self.chunks = self.chunks, []
        return out


class FakeFactory:
    def _ok(self, proto):
        pass

    def _failed(self, err):
        pass


# --------------------------------------------------------------------------- text encoding (driver protocol)
def hx(s):
    return ''.join('%06x' % ord(c) for c in s) or '-'


def strs(l):
    return ','.join(hx(x) for x in l) if l else '[]'


def plain(v):
    """Parsed body values -> plain Python (wrapper classes of marshal are int/str subclasses)."""
    if isinstance(v, dict):
        return {plain(k): plain(x) for k, x in v.items()}
    if isinstance(v, (list, tuple)):
        return [plain(x) for x in v]
    if isinstance(v, bool):
        return bool(v)
    if isinstance(v, int):
        return int(v)
    if isinstance(v, str):
        return str(v)
    return v


_IFACE_NO = {}


def iface_no(name):
    if name not in _IFACE_NO:
        _IFACE_NO[name] = len(_IFACE_NO) + 1
    return _IFACE_NO[name]


def token(ident, name):
    """The model's opaque token for `getAllProperties(name)` of object `ident`."""
    return ident * 64 + iface_no(name)


# --------------------------------------------------------------------------- one scenario on the real code
class Objects:
    """The instances of one scenario and the harness's description of them.  Instances outlive their exports and
    belong to no handler: the same instance can be exported on several handlers, unexported and exported again."""

    def __init__(self, fam=None):
        self.shared = fam is None
        self.fam = fam if fam is not None else classes()
        self.registry = {}      # ident -> (kind, path, expected props of declared ifaces, names from getInterfaces(), sendable)
        self.objs = {}          # ident -> the instance
        self.next_ident = 1

    def make(self, path, kind, vals):
        import txdbus
        cls = self.fam[kind][0]
        if self.shared:
            order = _FIRST_USE.setdefault(txdbus.__file__, [])
            if kind not in order:
                order.append(kind)
        ident = self.next_ident
        self.next_ident += 1
        obj = cls(path, ident, vals)
        self.objs[ident] = obj
        names = [i.name for i in obj.getInterfaces()]      # the IDBusObject API defines "its interfaces"
        self.registry[ident] = (kind, path, expected_props(kind, ident, vals), names, sendable(kind, ident, vals))
        return ident

    def warm(self, kinds):
        """First use of classes in a chosen order: one instance each (constructed, its properties assigned; never exported)."""
        for kind in kinds:
            try:
                self.fam[kind][0]('/warm', 0, dict(WARM_VALS))
            except Exception:       # noqa   (reported when an object of the history cannot be constructed)
                pass


def try_make(ctx, world, hist, step_no, path, kind, vals, judge=True):
    """Construct the object of an export call (its declared properties assigned in __init__).  -> ident, or None when
    the construction raises: then there is nothing to export and no announcement will ever be seen - reported as the
    failure of this export, with the input, instead of ending the run with a traceback."""
    try:
        return world.o.make(path, kind, vals)
    except Exception as e:       # noqa
        if judge and not world.tainted:
            ctx.violation('export-signal-wrong',
                          'the object of an export call cannot even be constructed with its declared properties assigned '
                          '(%s): no export, no announcement' % type(e).__name__,
                          case_input(hist, step_no, ['signals'], world), observed='construction raised ' + type(e).__name__,
                          expected=['InterfacesAdded', path])
        ctx.stat('op=construction-raised')
        return None


class World:
    """One real handler (with its connection) + the harness's bookkeeping of what the calls made ON IT imply."""

    def __init__(self, client=False, objects=None, index=None):
        from txdbus import objects as txobjects
        self.client = client
        self.index = index      # number of this handler in a scenario with several (None: the only one)
        if client:
            from txdbus import client as cl
            self.proto = cl.DBusClientConnection()
            self.proto.transport = RecTransport()
            self.proto.factory = FakeFactory()
            self.proto._receivedFDs = []
            self.proto.connectionAuthenticated()        # creates the object handler, sends Hello
            self.proto.busName = FakeConn.busName
            self.proto.transport.take()
            self.h = self.proto.objHandler
            self.api = self.proto
            self.take = self.proto.transport.take
        else:
            self.conn = FakeConn()
            self.h = txobjects.DBusObjectHandler(self.conn)
            self.api = self.h
            self.take = self.conn.take
        self.o = objects if objects is not None else Objects()
        self.fam = self.o.fam
        self.registry = self.o.registry
        self.objs = self.o.objs
        self.make = self.o.make
        self.exported = {}      # path -> ident        (bookkeeping from the calls on this handler alone)
        self.held = set()       # idents that are or ever were exported on this handler
        self.tainted = False    # a defect was reported for this handler: its table is known to be wrong

    def remote_view(self, raws):
        """Every message handed to the connection, as a remote peer would decode it."""
        from txdbus import message
        return [message.parseMessage(r, []) for r in raws]

    def dict_tokens(self, d):
        """`{iface: props}` of a signal / reply -> 'iface=token' items; the token of (object, iface) when the
        properties are what the harness gave that object for a declared interface ('?' otherwise)."""
        d = plain(d)
        ident = None
        try:
            ident = d[ID_IFACE]['ident']
        except Exception:
            pass
        reg = self.registry.get(ident)
        items = []
        for name, props in d.items():
            ok = reg is not None and (name not in reg[2] or reg[2][name] == props)
            items.append('%s=%s' % (hx(name), token(ident, name) if ok else '?'))
        return ','.join(items) if items else '[]'

    # -- API calls
    def export_ident(self, ident, fail=None):
        """exportObject(instance `ident`).  `fail`: the object misbehaves DURING this call - ('raise', n): its
        getAllProperties raises for the interface RAISE_AT[n]; ('path', text): it reports the (invalid) path `text`."""
        obj = self.objs[ident]
        path = self.registry[ident][1]
        if fail is not None and fail[0] == 'raise':
            obj._boom = RAISE_AT[fail[1] % len(RAISE_AT)]
        if fail is not None and fail[0] == 'path':
            obj._report = fail[1]
        self.take()
        try:
            self.api.exportObject(obj)
            exc = None
        except Exception as e:       # noqa
            exc = type(e).__name__
        finally:
            if fail is not None:
                obj._boom = None
                obj._report = None
        sent = self.remote_view(self.take())
        if self.registry[ident][4] and fail is None:
            self.exported[path] = ident          # a failed export call implies nothing
            self.held.add(ident)
        return ident, exc, sent

    def unexport(self, path):
        self.take()
        try:
            self.api.unexportObject(path)
            exc = None
        except Exception as e:       # noqa
            exc = type(e).__name__
        sent = self.remote_view(self.take())
        was = self.exported.pop(path, None)
        return was, exc, sent

    def churn(self, step_no):
        """Container-like exported objects gain and lose items over the history (0, 1 or 2 items):
        what they hold is no API call on the handler and must not change what is exported."""
        for ident in self.exported.values():
            obj = self.objs[ident]
            if hasattr(obj, '_items'):
                obj._items = ['item'] * ((step_no + ident) % 3)

    def call(self, path, iface, member, signature=None, body=None):
        """-> (exception type name or None, replies as seen remotely)"""
        from txdbus import message
        m = message.MethodCallMessage(path, member, interface=iface, destination=FakeConn.busName,
                                      signature=signature, body=body)
        self.take()
        exc = None
        try:
            if self.client:
                self.proto.rawDBusMessageReceived(m.rawMessage)
            else:
                pm = message.parseMessage(m.rawMessage, [])
                pm.sender = ':1.7'
                self.h.handleMethodCallMessage(pm)
        except Exception as e:       # noqa
            exc = type(e).__name__
        return exc, self.remote_view(self.take())


def canon_signals(world, exc, sent):
    """One line per API call: 'raised' (whatever the exception type) when it raised and sent nothing."""
    from txdbus import message
    if exc is not None:
        return 'raised' if not sent else 'raised+sent:%d' % len(sent)
    parts = []
    for m in sent:
        if not isinstance(m, message.SignalMessage) or m.interface != 'org.freedesktop.DBus.ObjectManager':
            parts.append('other:%s' % type(m).__name__)
        elif m.member == 'InterfacesAdded' and m.signature == 'sa{sa{sv}}':
            parts.append('added %s %s %s' % (hx(m.path), hx(m.body[0]), world.dict_tokens(m.body[1])))
        elif m.member == 'InterfacesRemoved' and m.signature == 'sas':
            parts.append('removed %s %s %s' % (hx(m.path), hx(m.body[0]), strs(list(m.body[1]))))
        else:
            parts.append('other:%s:%s' % (m.member, m.signature))
    return ' | '.join(parts)


def parse_intro(xml):
    """(node name, interface names, child node names) of an introspection document."""
    root = ET.fromstring(xml)
    ifaces = [c.get('name') for c in root if c.tag == 'interface']
    kids = [c.get('name') for c in root if c.tag == 'node']
    return root.get('name'), ifaces, kids


def observe(world, kind, path, exc, sent):
    """Canonical line (driver format) + structured observation for the oracle.  Error replies are
    identified by their NAME only (texts are free), replies to ordinary calls other than whoami only
    as 'the call went on to the object'."""
    from txdbus import message
    obs = {'n': len(sent)}
    if exc is not None:
        obs['raised'] = exc
        return 'raised', obs
    if len(sent) != 1:
        return 'replies=%d' % len(sent), obs
    r = sent[0]
    if isinstance(r, message.ErrorMessage):
        obs['error'] = r.error_name
        obs['text'] = r.body[0] if r.body else None
        if r.error_name == UNKNOWN_OBJECT:
            return 'error %s %s' % (hx(r.error_name), hx(path)), obs
        if kind == 'managed' or kind == 'introspect' or kind == 'ping':
            return 'error %s' % hx(r.error_name), obs
        return 'dispatch', obs                 # an error produced by method dispatch (C10)
    if not isinstance(r, message.MethodReturnMessage):
        return 'other:%s' % type(r).__name__, obs
    if kind == 'ping':
        obs['pong'] = True
        return ('pong' if not r.body else 'return'), obs
    if kind == 'introspect':
        name, ifaces, kids = parse_intro(r.body[0])
        obs.update(node=name, ifaces=ifaces, kids=kids)
        own = [n for n in ifaces if n not in BUILTIN]
        shown = strs(own) if any(n in BUILTIN for n in ifaces) or own else 'none'
        return 'intro %s %s' % (shown, strs(kids)), obs
    if kind == 'managed':
        d = r.body[0]
        obs['managed'] = plain(d)
        ents = ['%s:%s' % (hx(k), world.dict_tokens(v)) for k, v in d.items()]
        return 'managed ' + (';'.join(ents) if ents else '[]'), obs
    obs['ret'] = plain(r.body)
    if kind == 'whoami':
        try:
            ident = int(r.body[0])
            return 'dispatch %d' % token(ident, world.registry[ident][3][0]), obs
        except Exception:
            return 'dispatch ?', obs
    return 'dispatch', obs


# --------------------------------------------------------------------------- the oracle (property statement)
def elems(p):
    """Object path -> list of elements ('/' is the empty list)."""
    return [] if p == '/' else p[1:].split('/')


def strictly_below(p, q):
    ep, eq = elems(p), elems(q)
    return len(eq) > len(ep) and eq[:len(ep)] == ep


def spec_children(p, exported):
    return sorted({elems(q)[len(elems(p))] for q in exported if strictly_below(p, q)})


def spec_below(p, exported):
    return sorted(q for q in exported if strictly_below(p, q))


def content_ok(fam, reg, got):
    """`got` = {iface: props} reported for the object `reg`: exactly the interfaces getInterfaces() names,
    among them every interface the harness declared, each declared one with exactly its readable properties."""
    kind, _, props, names, _ = reg
    if set(got.keys()) != set(names):
        return False
    if not set(fam[kind][1]) <= set(got.keys()):
        return False
    return all(got[i] == props[i] for i in props)


_CASE_NO = {}           # id(history) -> number of the case in this process (see `stabilise`)


def case_input(hist, step_no, query, world=None):
    """The input of a finding: everything a replay needs to run the same case up to this step."""
    inp = {'universe': hist['universe'], 'ops': hist['ops'][:step_no], 'query': query}
    for k in ('handlers', 'fresh', 'variant', 'first', 'warm'):
        if hist.get(k):
            inp[k] = hist[k]
    if world is not None and world.index is not None:
        inp['on'] = world.index
    if id(hist) in _CASE_NO:
        inp['case'] = _CASE_NO[id(hist)]
    return inp


def judge_query(ctx, world, hist, step_no, kind, path, obs, call_desc):
    if world.tainted:
        return
    exported = world.exported
    inp = case_input(hist, step_no, [kind, path] + call_desc, world)
    if 'raised' in obs:
        ctx.violation('call-raises', 'handleMethodCallMessage raises instead of answering (%s)' % obs['raised'],
                      inp, observed=obs, expected='one reply')
        return
    is_unknown = obs.get('n') == 1 and obs.get('error') == UNKNOWN_OBJECT
    if kind == 'introspect':
        kids_spec = spec_children(path, exported)
        nothing = path not in exported and not spec_below(path, exported)
        if nothing:
            if not (obs.get('n') == 1 and 'error' in obs):
                ctx.violation('introspect-nothing-there-succeeds',
                              'introspecting a path with neither object nor descendants does not fail',
                              inp, observed=obs, expected='an error reply')
            return
        if 'kids' not in obs:
            ctx.violation('introspect-fails-though-something-there',
                          'introspecting a path that is exported or has exported descendants fails',
                          inp, observed=obs, expected={'children': kids_spec})
            return
        kids = obs['kids']
        if sorted(kids) != kids_spec:
            if '' in kids and path == '/' and sorted(k for k in kids if k != '') == kids_spec:
                ctx.violation('introspect-root-lists-empty-child',
                              'introspecting "/" while "/" itself is exported lists a child node named ""',
                              inp, observed=kids, expected=kids_spec)
            elif len(set(kids)) != len(kids) and sorted(set(kids)) == kids_spec:
                ctx.violation('introspect-duplicate-child', 'a child node name is listed twice',
                              inp, observed=kids, expected=kids_spec)
            else:
                ctx.violation('introspect-children-mismatch',
                              'the child nodes listed are not the immediate children among the exported paths',
                              inp, observed=kids, expected=kids_spec)
    elif kind == 'managed':
        if path not in exported:
            if not is_unknown:
                ctx.violation('call-unexported-not-unknownobject',
                              'GetManagedObjects on a path that is not exported is not answered UnknownObject',
                              inp, observed=obs, expected=UNKNOWN_OBJECT)
            return
        below = spec_below(path, exported)
        if 'managed' not in obs:
            ctx.violation('managed-objects-fails', 'GetManagedObjects on an exported path is not answered with the objects',
                          inp, observed=obs, expected=below)
            return
        got = obs['managed']
        if sorted(got.keys()) != below:
            extra = [k for k in got if k not in below]
            missing = [k for k in below if k not in got]
            if extra and not missing and all(k.startswith(path) and k in exported and k != path for k in extra):
                ctx.violation('managed-objects-prefix-sibling',
                              'GetManagedObjects on %s reports %s, which only shares a textual prefix' % (path, extra[0]),
                              inp, observed=sorted(got.keys()), expected=below)
            else:
                ctx.violation('managed-objects-mismatch',
                              'GetManagedObjects does not report exactly the exported objects strictly beneath the path',
                              inp, observed=sorted(got.keys()), expected=below)
            return
        for k in below:
            reg = world.registry[exported[k]]
            if not content_ok(world.fam, reg, got[k]):
                ctx.violation('managed-objects-content',
                              'an object reported by GetManagedObjects lacks interfaces or readable properties',
                              inp, observed={k: got[k]}, expected={k: reg[2], 'interfaces': reg[3]})
                return
    elif kind in ('whoami', 'ordinary'):
        if path not in exported:
            if not is_unknown:
                ctx.violation('call-unexported-not-unknownobject',
                              'a call to a path that is not exported is not answered UnknownObject',
                              inp, observed=obs, expected=UNKNOWN_OBJECT)
        else:
            if is_unknown:
                ctx.violation('call-exported-unknownobject',
                              'a call to an exported path is answered UnknownObject',
                              inp, observed=obs, expected='the call reaches the object')
            elif kind == 'whoami' and obs.get('ret') != [str(exported[path])]:
                ctx.violation('call-reaches-wrong-object',
                              'a call to an exported path is not answered by the object exported there most recently',
                              inp, observed=obs, expected=[str(exported[path])])


def judge_step(ctx, world, hist, step_no, op, result, is_export=None, path=None, failing=False):
    """Each export / unexport announces itself with exactly one signal naming path and interfaces; a call
    that fails implies nothing: it is silent and without effect.  `failing`: the object misbehaved during the call
    (its getAllProperties raised / it reported an invalid path), so no announcement can exist."""
    from txdbus import message
    if world.tainted:
        return
    inp = case_input(hist, step_no, ['signals'], world)
    ident_or_was, exc, sent = result
    if is_export is None:
        is_export = op[0] in ('export', 'reexport')
    if path is None and not is_export:
        path = op[1]
    if is_export:
        reg = world.registry[ident_or_was]
        if not reg[4] or failing:
            # the object's readable properties cannot be sent: no InterfacesAdded can exist, so the export
            # cannot have happened - the call has to fail and the object must not be visible
            if sent:
                ctx.violation('failed-export-announces', 'exportObject of an object whose properties cannot be sent sends a message',
                              inp, observed=canon_signals(world, exc, sent), expected='no message')
                world.tainted = True
                return
            _, rep = world.call(reg[1], ID_IFACE, 'whoami')
            if (len(rep) == 1 and isinstance(rep[0], message.MethodReturnMessage) and rep[0].body == [str(ident_or_was)]
                    and world.exported.get(reg[1]) != ident_or_was):
                ctx.violation('failed-export-stays-visible',
                              'exportObject raised and announced nothing, yet the object answers calls at its path',
                              inp, observed={'raised': exc, 'sent': 0, 'whoami': rep[0].body}, expected='not exported')
                world.tainted = True
            return
        want = set(reg[3])
        ok = (exc is None and len(sent) == 1 and isinstance(sent[0], message.SignalMessage)
              and sent[0].member == 'InterfacesAdded'
              and sent[0].interface == 'org.freedesktop.DBus.ObjectManager'
              and len(sent[0].body) == 2 and sent[0].body[0] == reg[1]
              and set(sent[0].body[1].keys()) == want and set(world.fam[reg[0]][1]) <= want)
        if not ok:
            ctx.violation('export-signal-wrong',
                          'exportObject does not announce itself with one InterfacesAdded naming the path and the interfaces',
                          inp, observed=canon_signals(world, exc, sent), expected=['InterfacesAdded', reg[1], sorted(want)])
    else:
        if ident_or_was is None:
            # unexporting a path that is not exported: nothing was unexported, nothing may be announced
            if sent:
                ctx.violation('unexport-nothing-announces',
                              'unexportObject of a path that is not exported sends a message',
                              inp, observed=canon_signals(world, exc, sent), expected='no message')
            return
        want = set(world.registry[ident_or_was][3])
        ok = (exc is None and len(sent) == 1 and isinstance(sent[0], message.SignalMessage)
              and sent[0].member == 'InterfacesRemoved'
              and sent[0].interface == 'org.freedesktop.DBus.ObjectManager'
              and len(sent[0].body) == 2 and sent[0].body[0] == path
              and set(sent[0].body[1]) == want)
        if not ok:
            ctx.violation('unexport-signal-wrong',
                          'unexportObject does not announce itself with one InterfacesRemoved naming the path and the interfaces',
                          inp, observed=canon_signals(world, exc, sent), expected=['InterfacesRemoved', path, sorted(want)])


# --------------------------------------------------------------------------- generators
ELEMS = ['a', 'b', 'bc', 'b_c', 'c', 'ab', 'A', '_', '0', 'a0', 'org', 'x', 'B']
FIXED_UNIVERSE = ['/', '/a', '/a/b', '/a/bc', '/a/b_c', '/a/b/c', '/a/b/c/d', '/ab', '/a/b/cd', '/b', '/a/bc/c']
# the queried text re-occurring deeper (/b/c/b/d seen from /b and /b/c), paths differing by case only
FIXED_UNIVERSE_2 = ['/', '/b', '/b/c', '/b/c/b', '/b/c/b/d', '/b/d', '/b/b', '/A', '/A/b', '/a', '/a/b', '/a/B', '/a/b/a/b']


def valid_path(p):
    if p == '/':
        return True
    if not p.startswith('/') or p.endswith('/') or '//' in p:
        return False
    return all(c.isascii() and (c.isalnum() or c == '_') for c in p.replace('/', ''))


def neighbours(universe):
    """Non-exported neighbours worth asking about: parents, grandparents, textual variations
    (a character more, a character less, the other case), a child below, the root."""
    out = set(['/'])
    for p in universe:
        e = elems(p)
        for i in range(1, len(e)):
            out.add('/' + '/'.join(e[:i]))
        if p != '/':
            out.add(p + 'c')
            out.add(p + '_')
            out.add(p[:-1])
            out.add(p + '/zz')
            out.add('/' + p[1:].replace('/', '_'))
            out.add(p.swapcase())
        else:
            out.add('/zz')
    return sorted(q for q in out if valid_path(q) and q not in universe)


BAD = {'label': [None, 'a\0b', '\ud800'], 'level': ['zz', 2 ** 40, None], 'count': ['zz', 2 ** 70]}


def gen_vals(rng):
    v = {'label': rng.choice(['', 'x', 'hello', 'café', 'a/b']), 'secret': rng.randrange(-5, 5),
         'items': rng.choice([0, 0, 1, 3]),
         'level': rng.choice([0, 1, -1, 2 ** 31 - 1]), 'count': rng.choice([0, 7, -2 ** 40, 2 ** 62])}
    r = rng.random()
    if r < 0.10:                       # a readable property whose value does not fit its declared type
        p = rng.choice(sorted(BAD))
        v[p] = rng.choice(BAD[p])
    elif r < 0.14:                     # a WRITE-ONLY property with such a value: never read, must not matter
        v['secret'] = rng.choice(['zz', 2 ** 40, None])
    return v


def gen_universe(rng):
    shape = rng.choice(['tree', 'prefix', 'deep', 'root', 'flat', 'case', 'recur'])
    alpha = rng.sample(ELEMS, rng.randrange(2, 5))
    if shape in ('prefix', 'root'):
        alpha = list(dict.fromkeys(alpha + ['b', 'bc', 'b_c']))
    if shape == 'case':
        alpha = list(dict.fromkeys(alpha[:2] + ['a', 'A', 'b', 'B']))
    if shape == 'recur':
        alpha = alpha[:2]                             # few names: the same element recurs along a path
    paths = set()
    if shape in ('deep', 'recur'):
        chain = [rng.choice(alpha) for _ in range(rng.randrange(5, 12))]
        for i in sorted(rng.sample(range(1, len(chain) + 1), rng.randrange(2, 5))):
            paths.add('/' + '/'.join(chain[:i]))
        paths.add('/' + '/'.join(chain))
    n = rng.randrange(4, 11)
    for _ in range(60):                           # bounded: a small alphabet may not have n paths
        if len(paths) >= n:
            break
        depth = rng.choice([1, 1, 2]) if shape == 'flat' else rng.choice([1, 2, 2, 3, 3, 4])
        p = '/' + '/'.join(rng.choice(alpha) for _ in range(depth))
        paths.add(p)
        if rng.random() < 0.4 and depth > 1:     # add its parent as an exportable path as well
            paths.add(p.rsplit('/', 1)[0])
    if shape == 'root' or rng.random() < 0.5:
        paths.add('/')
    return sorted(paths), shape


def gen_history(rng, universe, length):
    ops = []
    live = {}                                                        # path -> kind
    burst = rng.randrange(0, max(2, (len(universe) * 3) // 4))       # fill the tree first, then churn
    for i in range(length):
        r = rng.random()
        if i < burst:
            r = 0.9
        if live and r < 0.22:
            p = rng.choice(sorted(live))
            ops.append(['unexport', p])
            del live[p]
        elif r < 0.27:
            p = rng.choice(universe)                      # possibly not exported
            ops.append(['unexport', p])
            live.pop(p, None)
        elif live and r < 0.37:
            p = rng.choice(sorted(live))                  # export over an existing object, another class
            kind = rng.choice([k for k in KINDS if k != live[p]])
            vals = gen_vals(rng)
            ops.append(['export', p, kind, vals])
            if sendable(kind, 0, vals):
                live[p] = kind
        elif live and r < 0.43:
            ops.append(['reexport', rng.choice(sorted(live))])       # the SAME instance exported again
        else:
            dead = [p for p in universe if p not in live]
            p = rng.choice(dead) if dead and rng.random() < 0.8 else rng.choice(universe)
            kind = rng.choice(KINDS)
            vals = gen_vals(rng)
            ops.append(['export', p, kind, vals])
            if sendable(kind, 0, vals):
                live[p] = kind
    return ops


# --------------------------------------------------------------------------- running one history
ID_LIKE = [(ID_IFACE, 'nope'), (ID_IFACE, 'Ping'), (ID_IFACE, 'Introspect'), (ID_IFACE, 'GetManagedObjects'),
           (None, 'Ping'), (None, 'Introspect'), ('org.freedesktop.DBus.Peer', 'Introspect'),
           ('org.freedesktop.DBus.Introspectable', 'Ping'), ('org.freedesktop.DBus.ObjectManager', 'Introspect'),
           ('org.freedesktop.DBus.Properties', 'GetManagedObjects')]


def call_line(iface, member, path):
    return 'call %s %s %s' % (hx(iface) if iface is not None else 'none', hx(member), hx(path))


def export_line(world, ident, ok=None, path=None):
    kind, opath, _, names, good = world.registry[ident]
    if ok is None:
        ok = good
    return 'export %s %d %s' % (hx(opath if path is None else path), 1 if ok else 0,
                                ' '.join('%s=%d' % (hx(n), token(ident, n)) for n in names))


def query_all(ctx, stream, world, hist, step_no, queries, lines, expect, judge, rot):
    """Every path of the query set on one handler: Introspect, GetManagedObjects, whoami; for a rotating part of
    the paths other shapes of ordinary calls and Ping.  -> (answers from a non-empty table, rot)"""
    nonempty_answers = 0
    for qi, path in enumerate(queries):
        for kind, iface, member in (('introspect', BUILTIN[0], 'Introspect'),
                                    ('managed', BUILTIN[2], 'GetManagedObjects'),
                                    ('whoami', ID_IFACE, 'whoami')):
            exc, sent = world.call(path, iface, member)
            line, obs = observe(world, kind, path, exc, sent)
            lines.append(call_line(iface, member, path))
            expect.append((stream, hist, step_no, [kind, path], line, world.index))
            ctx.stat('answer=%s/%s' % (kind, line.split(' ', 1)[0]))
            if world.exported:
                nonempty_answers += 1
            if judge:
                judge_query(ctx, world, hist, step_no, kind, path, obs, [])
        # a rotating part of the paths: other shapes of ordinary calls (no interface, unknown member,
        # members NAMED like a built-in on other interfaces) and Ping
        if (qi + step_no) % 5 == 0:
            exc, sent = world.call(path, None, 'whoami')
            line, obs = observe(world, 'whoami', path, exc, sent)
            lines.append(call_line(None, 'whoami', path))
            expect.append((stream, hist, step_no, ['whoami-noiface', path], line, world.index))
            if judge:
                judge_query(ctx, world, hist, step_no, 'whoami', path, obs, ['no interface'])
            iface, member = ID_LIKE[rot % len(ID_LIKE)]
            rot += 1
            exc, sent = world.call(path, iface, member)
            line, obs = observe(world, 'ordinary', path, exc, sent)
            lines.append(call_line(iface, member, path))
            expect.append((stream, hist, step_no, ['ordinary', path, iface, member], line, world.index))
            ctx.stat('ordinary=%s.%s' % ((iface or '').rsplit('.', 1)[-1], member))
            if judge:
                judge_query(ctx, world, hist, step_no, 'ordinary', path, obs, [iface, member])
            exc, sent = world.call(path, BUILTIN[1], 'Ping')
            line, obs = observe(world, 'ping', path, exc, sent)
            lines.append(call_line(BUILTIN[1], 'Ping', path))
            expect.append((stream, hist, step_no, ['ping', path], line, world.index))
            if judge and 'raised' in obs:
                judge_query(ctx, world, hist, step_no, 'ping', path, obs, [])
    return nonempty_answers, rot


def run_history(ctx, stream, hist, lines, expect, judge=True, client=False):
    """Apply hist on the real code, query everything after every step; append the driver lines to
    `lines` and (stream, hist, step, what, canonical implementation line, handler) to `expect`."""
    objs = Objects()
    if hist.get('warm'):
        objs.warm(hist['warm'])     # a replay: the first-use order of the process the finding was made in
    world = World(client=client, objects=objs)
    universe = hist['universe']
    queries = list(universe) + list(hist.get('neighbours', []))
    lines.append('reset')
    expect.append((stream, hist, 0, ['reset'], 'ok', None))
    nonempty_answers = 0
    rot = 0
    for step_no, op in enumerate(hist['ops'], 1):
        if op[0] == 'export':
            ident = try_make(ctx, world, hist, step_no, op[1], op[2], op[3], judge)
            if ident is None:
                continue
            res = world.export_ident(ident)
            lines.append(export_line(world, ident))
            ctx.stat('op=export' + ('' if world.registry[ident][4] else '-unsendable'))
            ctx.stat('kind=' + op[2])
        elif op[0] == 'reexport':
            ident = world.exported.get(op[1])
            if ident is None:                              # nothing there (e.g. in a shrunk replay): skip the step
                continue
            res = world.export_ident(ident)
            lines.append(export_line(world, ident))
            ctx.stat('op=reexport-same-instance')
        else:
            res = world.unexport(op[1])
            lines.append('unexport ' + hx(op[1]))
            ctx.stat('op=unexport' + ('' if res[0] is not None else '-not-exported'))
        expect.append((stream, hist, step_no, ['signals'], canon_signals(world, res[1], res[2]), None))
        if judge:
            judge_step(ctx, world, hist, step_no, op, res)
        world.churn(step_no)
        ctx.stat('falsy-exported=%d' % min(3, sum(1 for i in world.exported.values() if not world.objs[i])))
        # the table itself
        lines.append('keys')
        expect.append((stream, hist, step_no, ['keys'], 'keys ' + strs(list(world.h.exports.keys())), None))
        ctx.stat('exported=%02d' % min(len(world.exported), 12))
        ne, rot = query_all(ctx, stream, world, hist, step_no, queries, lines, expect, judge, rot)
        nonempty_answers += ne
    ctx.impl_trace()
    return nonempty_answers


def canon_line(line):
    """Order-insensitive form of a driver / implementation line: the theorems speak about sets
    (plus "no duplicates"), so lists are compared as sorted multisets - child names, table keys,
    interface names, reply entries.  Duplicates survive the sorting.  The model tells which object a
    call is dispatched to; for calls other than whoami the implementation line only says 'dispatch'."""
    toks = []
    for tok in line.split(' '):
        ents = []
        for ent in tok.split(';'):
            ents.append(':'.join(','.join(sorted(f.split(','))) for f in ent.split(':')))
        toks.append(';'.join(sorted(ents)))
    return ' '.join(toks)


def compare(ctx, lines, expect):
    out = ctx.model(lines)
    if out is None:
        return
    seen = set()
    for (stream, hist, step_no, what, impl, on), m in zip(expect, out):
        if impl == 'dispatch' and m.startswith('dispatch '):
            m = 'dispatch'
        if canon_line(m) != canon_line(impl):
            key = (id(hist), what[0])
            if key in seen:
                continue
            seen.add(key)
            inp = case_input(hist, step_no, what)
            if on is not None:
                inp['on'] = on
            ctx.disagree(stream, inp, m, impl)


def make_hist(universe, ops, rng=None):
    """The query set is the universe plus neighbours: all of them for small universes, otherwise the
    missing ancestors plus a sample of the textual variations."""
    nb = neighbours(universe)
    if rng is not None and len(nb) > 6:
        anc = set()
        for p in universe:
            e = elems(p)
            for i in range(1, len(e)):
                anc.add('/' + '/'.join(e[:i]))
        keep = [q for q in nb if q in anc]
        rest = [q for q in nb if q not in anc]
        keep += rng.sample(rest, min(len(rest), max(3, len(universe) // 2)))
        nb = sorted(keep)
    return {'universe': universe, 'neighbours': nb, 'ops': ops}


def enumerated(max_len):
    """All histories up to max_len over a tiny universe with the root and a prefix-sharing pair; one of the
    exported objects cannot be announced."""
    uni = ['/', '/a/b', '/a/bc', '/a/b/c']
    vals = {'label': 'x', 'secret': 0, 'level': 1, 'count': 7}
    bad = dict(vals, level='zz')
    alphabet = ([['export', p, ['KAB', 'KLen', 'KFalse', 'KA'][i % 4], vals] for i, p in enumerate(uni)]
                + [['unexport', p] for p in uni] + [['export', '/a/b', 'KA', bad], ['reexport', '/a/bc']])

    def rec(prefix, n):
        if n == 0:
            yield list(prefix)
            return
        for op in alphabet:
            prefix.append(op)
            yield from rec(prefix, n - 1)
            prefix.pop()
    for n in range(1, max_len + 1):
        for ops in rec([], n):
            yield make_hist(uni, ops)


_RAN = []               # (runner, stream, history) of every case of this process, in order (see `stabilise`)


def log_case(runner, stream, hist):
    _CASE_NO[id(hist)] = len(_RAN)
    _RAN.append((runner, stream, hist))


def run_batch(ctx, stream, hists, judge=True, client=False):
    lines, expect = [], []
    for hist in hists:
        if ctx.time_left() < 5:
            ctx.note('time budget reached in stream %s' % stream)
            break
        if 'warm' not in hist and first_use_order():
            hist['warm'] = first_use_order()       # what the process-wide classes had seen when this case began
        log_case('client' if client else 'single', stream, hist)
        ne = run_history(ctx, stream, hist, lines, expect, judge=judge, client=client)
        ctx.case(stream, sample={'universe': hist['universe'], 'ops': hist['ops']},
                 nontrivial=ne > 0 and any(o[0] == 'export' for o in hist['ops']))
        ctx.stat('history-len=%d' % (len(hist['ops']) // 5 * 5))
        ctx.stat('universe-size=%d' % len(hist['universe']))
    compare(ctx, lines, expect)


# =========================================================================== stream `history-handlers`
# Several handlers alive in ONE scenario (each with its own connection; some are real DBusClientConnections), calls on
# them interleaved, the SAME instances exported on several of them, unexported and exported again, exports that fail
# half-way (getAllProperties raising, an invalid path) followed by good ones.  After every call EVERY handler is asked
# everything; each handler is judged against the calls made on IT (the statement, per connection) and a call on one
# handler must not put a message on another handler's connection.  Model: `Tree.Multi` (one table per handler).
# ops: ['export', k, path, kind, vals]   a new instance, exported on handler k
#      ['unexport', k, path]
#      ['again', k, ident]               the existing instance `ident` exported on handler k (whatever it is now: exported
#                                        there, exported on another handler, unexported, never successfully exported)
#      ['export-raising', k, path, vals, n]   a new instance whose getAllProperties raises for its interface RAISE_AT[n]
#      ['export-badpath', k, path, bad, vals] a new instance that reports the invalid path `bad` during the call
# instances are numbered 1, 2, ... in the order of the ops that create them (export, export-raising, export-badpath).
BAD_SUFFIX = ['/', '//x', '/x-y', '/x y', '/é']
RAISE_AT = ['org.verif.A', ID_IFACE, 'org.freedesktop.DBus.Properties']   # first, middle, last interface of KRaise


def gen_handlers_history(rng, universe, length, nh):
    ops = []
    live = [dict() for _ in range(nh)]          # per handler: path -> ident
    made = {}                                   # ident -> (path, kind, can be exported)
    nxt = [1]

    def new_ident(path, kind, good):
        i = nxt[0]
        nxt[0] += 1
        made[i] = (path, kind, good)
        return i

    def pick_handler():
        sizes = [len(x) for x in live]
        if rng.random() < 0.6 and len(set(sizes)) > 1:
            return sizes.index(min(sizes))      # towards EQUAL export counts on the handlers
        return rng.randrange(nh)

    def again(k, i):
        ops.append(['again', k, i])
        if made[i][2]:
            live[k][made[i][0]] = i

    burst = rng.randrange(0, max(2, len(universe) // 2))
    for n in range(length):
        k = pick_handler()
        others = [j for j in range(nh) if j != k]
        r = 0.99 if n < burst else rng.random()
        elsewhere = sorted(i for j in others for i in live[j].values() if live[k].get(made[i][0]) != i)
        idle = sorted(i for i in made if all(i not in x.values() for x in live))
        if live[k] and r < 0.17:
            p = rng.choice(sorted(live[k]))
            ops.append(['unexport', k, p])
            del live[k][p]
        elif r < 0.21:
            p = rng.choice(universe)
            ops.append(['unexport', k, p])
            live[k].pop(p, None)
        elif live[k] and r < 0.27:
            again(k, rng.choice(sorted(live[k].values())))          # the same instance, still exported there
        elif elsewhere and r < 0.41:
            again(k, rng.choice(elsewhere))                         # an instance exported on another handler
        elif idle and r < 0.52:
            again(k, rng.choice(idle))                              # an unexported / never exported instance
        elif r < 0.59:
            p = rng.choice(universe)
            vals = gen_vals(rng)
            ops.append(['export-raising', k, p, vals, rng.randrange(0, 3)])
            new_ident(p, 'KRaise', sendable('KRaise', 0, vals))
        elif r < 0.65:
            p = rng.choice([q for q in universe if q != '/'] or universe)
            vals = gen_vals(rng)
            bad = ('' if p == '/' else p) + rng.choice(BAD_SUFFIX)
            ops.append(['export-badpath', k, p, '//x' if bad == '/' else bad, vals])
            new_ident(p, 'KPath', sendable('KPath', 0, vals))
        else:
            q = rng.random()
            theirs = sorted(p for j in others for p in live[j] if p not in live[k])
            free = [p for p in universe if p not in live[k]]
            if theirs and q < 0.45:
                p = rng.choice(theirs)                              # a path another handler has: same path, other object
            elif free and q < 0.9:
                p = rng.choice(free)
            else:
                p = rng.choice(universe)                            # possibly over a live object
            kind = rng.choice(KINDS + ['KRaise', 'KPath'])
            vals = gen_vals(rng)
            ops.append(['export', k, p, kind, vals])
            i = new_ident(p, kind, sendable(kind, 0, vals))
            if made[i][2]:
                live[k][p] = i
    return ops


def handlers_hist(universe, ops, handlers, rng=None, fresh=False, variant=0, first=None):
    h = make_hist(universe, ops, rng)
    h['handlers'] = handlers
    if fresh:
        h['fresh'] = True
        if variant:
            h['variant'] = variant
    if first:
        h['first'] = list(first)
    return h


def run_handlers_history(ctx, stream, hist, lines, expect, judge=True):
    if hist.get('fresh'):
        objs = Objects(build_classes(hist.get('variant', 0)))
    else:
        objs = Objects()
        if hist.get('warm'):
            objs.warm(hist['warm'])
    objs.warm(hist.get('first', []))
    worlds = [World(client=(t == 'c'), objects=objs, index=j) for j, t in enumerate(hist['handlers'])]
    universe = hist['universe']
    queries = list(universe) + list(hist.get('neighbours', []))
    lines.append('reset')
    expect.append((stream, hist, 0, ['reset'], 'ok', None))
    nonempty_answers = 0
    rot = 0
    for step_no, op in enumerate(hist['ops'], 1):
        k = op[1]
        if k >= len(worlds):
            continue
        w = worlds[k]
        for x in worlds:
            x.take()
        line = None
        failing = False
        if op[0] == 'export':
            ident = try_make(ctx, w, hist, step_no, op[2], op[3], op[4], judge)
            if ident is None:
                continue
            res = w.export_ident(ident)
            line = export_line(w, ident)
            ctx.stat('op=export' + ('' if objs.registry[ident][4] else '-unsendable'))
            ctx.stat('kind=' + op[3])
        elif op[0] == 'again':
            ident = op[2]
            if ident not in objs.objs:                     # no such instance (a shrunk replay): skip the step
                continue
            path = objs.registry[ident][1]
            here = w.exported.get(path) == ident
            there = any(x.exported.get(path) == ident for x in worlds if x is not w)
            ctx.stat('op=again-' + ('same-handler' if here else 'other-handler' if there else 'not-exported'))
            res = w.export_ident(ident)
            line = export_line(w, ident)
        elif op[0] == 'export-raising':
            ident = try_make(ctx, w, hist, step_no, op[2], 'KRaise', op[3], False)
            if ident is None:
                continue
            res = w.export_ident(ident, fail=('raise', op[4]))
            line = export_line(w, ident, ok=False)
            failing = True
            ctx.stat('op=export-raising' + ('-over-live' if op[2] in w.exported else ''))
        elif op[0] == 'export-badpath':
            ident = try_make(ctx, w, hist, step_no, op[2], 'KPath', op[4], False)
            if ident is None:
                continue
            res = w.export_ident(ident, fail=('path', op[3]))
            line = export_line(w, ident, ok=False, path=op[3])
            failing = True
            ctx.stat('op=export-badpath')
        else:
            res = w.unexport(op[2])
            line = 'unexport ' + hx(op[2])
            ctx.stat('op=unexport' + ('' if res[0] is not None else '-not-exported'))
        lines.append('handler %d' % k)
        expect.append((stream, hist, step_no, ['handler'], 'ok', k))
        lines.append(line)
        expect.append((stream, hist, step_no, ['signals'], canon_signals(w, res[1], res[2]), k))
        # the announcement belongs to the connection the call was made on.  A message on ANOTHER handler's connection is
        # judged only when that handler never held the instance of this call: the statement is silent on one instance
        # living on two handlers (an implementation may "move" it: exporting on B unexports - and announces - on A), so
        # a message on a connection where the instance is or was exported is recorded, not flagged (review3 F5).
        inst = res[0]                    # the instance exported / the instance that was unexported (None: nothing was)
        stray = [(j, x.remote_view(x.take())) for j, x in enumerate(worlds) if x is not w]
        stray = [(j, m) for j, m in stray if m]
        for j, m in stray:
            if inst is not None and inst in worlds[j].held:
                ctx.stat('message-on-other-connection-holding-the-instance (unspecified, not judged)')
        stray = [(j, m) for j, m in stray if inst is None or inst not in worlds[j].held]
        if judge and stray and not any(x.tainted for x in worlds):
            j, msgs = stray[0]
            ctx.violation('announced-on-other-connection',
                          'an export / unexport call on one handler sends a message on the connection of ANOTHER handler, '
                          'on which the instance of the call was never exported',
                          case_input(hist, step_no, ['signals'], w),
                          observed={'connection': j, 'messages': canon_signals(worlds[j], None, msgs)}, expected='no message there')
            worlds[j].tainted = True
        if judge:
            judge_step(ctx, w, hist, step_no, op, res, is_export=op[0] != 'unexport',
                       path=op[2] if op[0] == 'unexport' else None, failing=failing)
        for x in worlds:
            x.churn(step_no)
        sizes = [len(x.exported) for x in worlds]
        ctx.stat('handlers-equal-counts=%s' % ('yes' if len(set(sizes)) == 1 and sizes[0] else 'no'))
        shared = sum(1 for x in worlds for p, i in x.exported.items()
                     if any(y is not x and y.exported.get(p) == i for y in worlds))
        ctx.stat('instance-on-two-handlers=%s' % ('yes' if shared else 'no'))
        # every handler is asked everything after every call
        for j, x in enumerate(worlds):
            lines.append('handler %d' % j)
            expect.append((stream, hist, step_no, ['handler'], 'ok', j))
            lines.append('keys')
            expect.append((stream, hist, step_no, ['keys'], 'keys ' + strs(list(x.h.exports.keys())), j))
            ne, rot = query_all(ctx, stream, x, hist, step_no, queries, lines, expect, judge, rot)
            nonempty_answers += ne
    ctx.impl_trace()
    return nonempty_answers


def run_handlers(ctx, stream, hists, judge=True):
    lines, expect = [], []
    for hist in hists:
        if ctx.time_left() < 5:
            ctx.note('time budget reached in stream %s' % stream)
            break
        if not hist.get('fresh') and 'warm' not in hist and first_use_order():
            hist['warm'] = first_use_order()
        log_case('handlers', stream, hist)
        ne = run_handlers_history(ctx, stream, hist, lines, expect, judge=judge)
        sample = {k: hist[k] for k in ('universe', 'ops', 'handlers', 'fresh', 'variant', 'first') if k in hist}
        ctx.case(stream, sample=sample, nontrivial=ne > 0 and any(o[0] in ('export', 'again') for o in hist['ops']))
        ctx.stat('handlers=%s' % ''.join(hist['handlers']))
        ctx.stat('family=%s' % ('fresh-v%d' % hist.get('variant', 0) if hist.get('fresh') else 'process-wide'))
        if hist.get('first'):
            ctx.stat('first-use=%s' % '>'.join(hist['first']))
    compare(ctx, lines, expect)


_VALS = {'label': 'x', 'secret': 0, 'level': 1, 'count': 7}


def scripted_handlers():
    """The shapes of STATE_AUDIT G6, deterministic."""
    uni = ['/', '/a', '/a/b', '/a/bc']
    v = dict(_VALS)
    out = []
    # two handlers with EQUAL export counts and different paths beneath /a; swap; empty one of them
    ops = [['export', 0, '/a/b', 'KAB', v], ['export', 1, '/a/bc', 'KA', v], ['unexport', 0, '/a/b'],
           ['export', 0, '/a/bc', 'Base', v], ['unexport', 1, '/a/bc'], ['export', 1, '/a/b', 'KABC', v],
           ['export', 0, '/', 'KFalse', v], ['export', 1, '/', 'KLen', v], ['unexport', 0, '/a/bc'], ['unexport', 1, '/']]
    # the same instance on two handlers, unexported on one, re-exported; failed exports in between must change nothing
    ops2 = [['export', 0, '/a/b', 'KAB', v], ['again', 1, 1], ['unexport', 1, '/a/b'], ['again', 0, 1],
            ['unexport', 0, '/a/b'], ['again', 0, 1], ['export-raising', 1, '/a/b', v, 1], ['again', 1, 1],
            ['export-badpath', 0, '/a/b', '/a/b//x', v], ['export-raising', 0, '/a/b', v, 0], ['again', 1, 2],
            ['export', 0, '/a', 'KA', v], ['export-badpath', 0, '/a/bc', '/a/bc/', v], ['again', 0, 3], ['unexport', 1, '/a/b'],
            ['again', 1, 4]]
    for handlers, fresh, variant, first in ((['h', 'h'], False, 0, None), (['h', 'h'], True, 1, ['Base', 'KAB']),
                                            (['h', 'c'], True, 2, ['KAB', 'Base'])):
        out.append(handlers_hist(uni, ops, handlers, fresh=fresh, variant=variant, first=first))
        out.append(handlers_hist(uni, ops2, handlers, fresh=fresh, variant=variant, first=first))
    return out


def enumerated_handlers(max_len):
    """All interleavings up to max_len of a small alphabet on TWO handlers over `/a/b`, `/a/bc` (exports, unexports,
    the first instance again, a raising export)."""
    uni = ['/a/b', '/a/bc']
    v = dict(_VALS)
    alphabet = []
    for k in (0, 1):
        alphabet += [['export', k, '/a/b', 'KAB', v], ['export', k, '/a/bc', 'KA', v], ['unexport', k, '/a/b'],
                     ['again', k, 1], ['export-raising', k, '/a/bc', v, 1]]

    def rec(prefix, n):
        if n == 0:
            yield list(prefix)
            return
        for op in alphabet:
            prefix.append(op)
            yield from rec(prefix, n - 1)
            prefix.pop()
    for n in range(1, max_len + 1):
        for ops in rec([], n):
            h = handlers_hist(uni, ops, ['h', 'h'])
            h['neighbours'] = ['/', '/a']
            yield h


# =========================================================================== stream `managed-values`
# Objects with DECLARED properties: instances of two class chains (the per-class scope of the C17 model) mixed
# in one tree.  The per-interface property dicts of InterfacesAdded and of the GetManagedObjects reply - interface
# names, property names, variant signatures AS MARSHALLED, values - are compared with the combined model
# lean/TxdbusModel/Obj/TreeProps.lean (p-commands of drv_c16) and judged by an oracle that knows only which
# value was assigned last to which property.
import struct as _struct

P_A, P_B, P_C = 'org.verif.P.A', 'org.verif.P.B', 'org.verif.P.sub.C'
Q_M, Q_N = 'org.verif.Q.M', 'org.verif.Q.N'
P_PROPS = 'org.freedesktop.DBus.Properties'
# chain id -> attribute -> (interface, property, signature, readable, writable)
CHAINS = {
    0: {'label': (P_A, 'label', 's', True, False), 'secret': (P_A, 'secret', 'i', False, True),
        'level': (P_A, 'level', 'i', True, True), 'count': (P_B, 'count', 'x', True, False),
        'flag': (P_B, 'flag', 'b', True, True)},
    # second chain: the derived class OVERRIDES the base's descriptor `name` (same interface and property), the
    # property name `name` exists on two interfaces, `size` on two interfaces with different types
    1: {'name': (Q_M, 'name', 's', True, True), 'size': (Q_M, 'size', 't', True, False),
        'where': (Q_M, 'where', 'o', True, False), 'tags': (Q_M, 'tags', 'as', True, True),
        'any': (Q_M, 'any', 'v', True, True), 'ratio': (Q_M, 'ratio', 'd', True, False),
        'small': (Q_M, 'small', 'y', True, True), 'shape': (Q_M, 'shape', 'g', True, False),
        'name_n': (Q_N, 'name', 's', True, False), 'size_n': (Q_N, 'size', 'i', True, True)},
}
# chains 2 and 3: instances of the BASE classes themselves (PBase, QBase) - what they declare, nothing of the derived class
CHAINS[2] = {a: CHAINS[0][a] for a in ('label', 'secret')}
CHAINS[3] = {a: CHAINS[1][a] for a in ('name', 'size', 'where', 'tags', 'any', 'ratio')}
CHAIN_IFACES = {0: [P_B, P_C, P_A, P_PROPS], 1: [Q_N, Q_M, P_PROPS], 2: [P_A, P_PROPS], 3: [Q_M, P_PROPS]}
BASE_OF = {0: 2, 1: 3}
_PCLS = {}


def pclasses(fresh=False):
    """chain id -> class.  fresh: NEW classes (and descriptors); otherwise the process-wide ones, used case after case."""
    import txdbus
    key = txdbus.__file__
    if key in _PCLS and not fresh:
        return _PCLS[key]
    from txdbus import objects
    from txdbus.interface import DBusInterface, Method, Property
    i_a = DBusInterface(P_A, Method('foo', '', 's'), Property('label', 's'),
                        Property('secret', 'i', readable=False, writeable=True),
                        Property('level', 'i', writeable=True))
    i_b = DBusInterface(P_B, Property('count', 'x'), Property('flag', 'b', writeable=True))
    i_c = DBusInterface(P_C, Method('baz', '', ''))

    class PBase(objects.DBusObject):
        dbusInterfaces = [i_a]
        label = objects.DBusProperty('label')
        secret = objects.DBusProperty('secret', P_A)

    class PDer(PBase):
        dbusInterfaces = [i_b, i_c]
        level = objects.DBusProperty('level')          # a property of the base class's interface, declared here
        count = objects.DBusProperty('count', P_B)
        flag = objects.DBusProperty('flag')

    i_m = DBusInterface(Q_M, Property('name', 's', writeable=True), Property('size', 't'), Property('where', 'o'),
                        Property('tags', 'as', writeable=True), Property('any', 'v', writeable=True),
                        Property('ratio', 'd'), Property('small', 'y', writeable=True), Property('shape', 'g'))
    i_n = DBusInterface(Q_N, Property('name', 's'), Property('size', 'i', writeable=True))

    class QBase(objects.DBusObject):
        dbusInterfaces = [i_m]
        name = objects.DBusProperty('name', Q_M)
        size = objects.DBusProperty('size', Q_M)
        where = objects.DBusProperty('where')
        tags = objects.DBusProperty('tags')
        any = objects.DBusProperty('any')
        ratio = objects.DBusProperty('ratio')

    class QDer(QBase):
        dbusInterfaces = [i_n]
        name = objects.DBusProperty('name', Q_M)       # overrides QBase.name: same interface, same property
        small = objects.DBusProperty('small')
        shape = objects.DBusProperty('shape')
        name_n = objects.DBusProperty('name', Q_N)     # the same property name on another interface
        size_n = objects.DBusProperty('size', Q_N)

    out = {0: PDer, 1: QDer, 2: PBase, 3: QBase}
    if not fresh:
        _PCLS[key] = out
    return out


def p_decl_lines():
    """Both class chains in the line format of the driver (most derived class first, class-dict order)."""
    def prop(n, sig, r, w):
        return '%s %s %d %d t' % (hx(n), hx(sig), r, w)

    def desc(attr, pn, iface):
        return 'pdesc %s %s %s' % (hx(attr), hx(pn), hx(iface) if iface else '~')
    return ['preset', 'pworld 0', 'pclass',
            'piface %s %s %s' % (hx(P_B), prop('count', 'x', 1, 0), prop('flag', 'b', 1, 1)),
            'piface %s' % hx(P_C),
            desc('level', 'level', None), desc('count', 'count', P_B), desc('flag', 'flag', None),
            'pclass',
            'piface %s %s %s %s' % (hx(P_A), prop('label', 's', 1, 0), prop('secret', 'i', 0, 1), prop('level', 'i', 1, 1)),
            desc('label', 'label', None), desc('secret', 'secret', P_A),
            'pbind',
            'pworld 1', 'pclass',
            'piface %s %s %s' % (hx(Q_N), prop('name', 's', 1, 0), prop('size', 'i', 1, 1)),
            desc('name', 'name', Q_M), desc('small', 'small', None), desc('shape', 'shape', None),
            desc('name_n', 'name', Q_N), desc('size_n', 'size', Q_N),
            'pclass',
            'piface %s %s' % (hx(Q_M), ' '.join([prop('name', 's', 1, 1), prop('size', 't', 1, 0), prop('where', 'o', 1, 0),
                                                 prop('tags', 'as', 1, 1), prop('any', 'v', 1, 1), prop('ratio', 'd', 1, 0),
                                                 prop('small', 'y', 1, 1), prop('shape', 'g', 1, 0)])),
            desc('name', 'name', Q_M), desc('size', 'size', Q_M), desc('where', 'where', None), desc('tags', 'tags', None),
            desc('any', 'any', None), desc('ratio', 'ratio', None),
            'pbind',
            # the base classes on their own
            'pworld 2', 'pclass',
            'piface %s %s %s %s' % (hx(P_A), prop('label', 's', 1, 0), prop('secret', 'i', 0, 1), prop('level', 'i', 1, 1)),
            desc('label', 'label', None), desc('secret', 'secret', P_A),
            'pbind',
            'pworld 3', 'pclass',
            'piface %s %s' % (hx(Q_M), ' '.join([prop('name', 's', 1, 1), prop('size', 't', 1, 0), prop('where', 'o', 1, 0),
                                                 prop('tags', 'as', 1, 1), prop('any', 'v', 1, 1), prop('ratio', 'd', 1, 0),
                                                 prop('small', 'y', 1, 1), prop('shape', 'g', 1, 0)])),
            desc('name', 'name', Q_M), desc('size', 'size', Q_M), desc('where', 'where', None), desc('tags', 'tags', None),
            desc('any', 'any', None), desc('ratio', 'ratio', None),
            'pbind']


def pval(v):
    """A Python value in the driver's value syntax."""
    if v is None:
        return 'N'
    if isinstance(v, bool):
        return 'B1' if v else 'B0'
    if isinstance(v, int):
        return 'I%d' % v
    if isinstance(v, float):
        return 'D%d' % _struct.unpack('<Q', _struct.pack('<d', v))[0]
    if isinstance(v, list):
        return 'L:' + ','.join(hx(x) for x in v)
    return 'S' + hx(v)


def p_fits(sig, v):
    """`v` is a value of the DBus type `sig` (DBus specification)."""
    if sig == 'b':
        return isinstance(v, bool)
    if sig == 'd':
        return isinstance(v, float)
    if sig == 'y':
        return isinstance(v, int) and not isinstance(v, bool) and 0 <= v <= 255
    if sig == 't':
        return isinstance(v, int) and not isinstance(v, bool) and 0 <= v <= 2 ** 64 - 1
    if sig == 'o':
        return isinstance(v, str) and valid_path(v)
    if sig == 'g':
        return isinstance(v, str) and v in ('', 'as', 'ii', 'a{sv}', 's')
    if sig == 'as':
        return isinstance(v, list) and all(isinstance(x, str) and '\0' not in x for x in v)
    if sig == 'v':
        return (isinstance(v, (bool, float)) or (isinstance(v, int) and -2 ** 63 <= v <= 2 ** 64 - 1)
                or (isinstance(v, str) and '\0' not in v) or p_fits('as', v))
    return value_fits(sig, v)


# ---- the marshalled bytes, read independently of txdbus: what a remote peer finds on the wire
def _align(pos, n):
    return (pos + n - 1) // n * n


_FIXED = {'y': ('B', 1), 'b': ('I', 4), 'n': ('h', 2), 'q': ('H', 2), 'i': ('i', 4), 'u': ('I', 4), 'x': ('q', 8),
          't': ('Q', 8), 'd': ('Q', 8), 'h': ('I', 4)}


def _one_type(sig, i):
    """End index of the single complete type starting at sig[i]."""
    c = sig[i]
    if c == 'a':
        return _one_type(sig, i + 1)
    if c in '({':
        close = ')' if c == '(' else '}'
        j = i + 1
        while sig[j] != close:
            j = _one_type(sig, j)
        return j + 1
    return i + 1


def _wire_align(t):
    c = t[0]
    if c in _FIXED:
        return _FIXED[c][1]
    return {'s': 4, 'o': 4, 'g': 1, 'v': 1, 'a': 4, '(': 8, '{': 8}[c]


def wire_read(t, data, pos, e):
    """Read one value of the single complete type `t`; variants come back as ('v', signature, value),
    doubles as ('d', 64-bit pattern)."""
    c = t[0]
    pos = _align(pos, _wire_align(t))
    if c in _FIXED:
        f, n = _FIXED[c]
        v = _struct.unpack_from(e + f, data, pos)[0]
        if c == 'b':
            v = bool(v)
        if c == 'd':
            v = ('d', v)
        return v, pos + n
    if c in 'so':
        n = _struct.unpack_from(e + 'I', data, pos)[0]
        return data[pos + 4:pos + 4 + n].decode('utf-8'), pos + 4 + n + 1
    if c == 'g':
        n = data[pos]
        return data[pos + 1:pos + 1 + n].decode('ascii'), pos + 1 + n + 1
    if c == 'v':
        sg, pos = wire_read('g', data, pos, e)
        v, pos = wire_read(sg, data, pos, e)
        return ('v', sg, v), pos
    if c == 'a':
        n = _struct.unpack_from(e + 'I', data, pos)[0]
        et = t[1:]
        pos = _align(pos + 4, _wire_align(et))
        end = pos + n
        items = []
        while pos < end:
            v, pos = wire_read(et, data, pos, e)
            items.append(v)
        return (dict(items) if et[0] == '{' else items), end
    if c in '({':
        j, out = 1, []
        while t[j] not in ')}':
            k = _one_type(t, j)
            v, pos = wire_read(t[j:k], data, pos, e)
            out.append(v)
            j = k
        return tuple(out), pos
    raise ValueError('type %r' % t)


def wire_body(raw):
    """The body of a marshalled message as a list of values (read from the bytes alone)."""
    e = '<' if raw[0:1] == b'l' else '>'
    (fields, pos) = wire_read('a(yv)', raw, 12, e)
    sig = ''
    for code, var in fields:
        if code == 8:
            sig = var[2]
    pos = _align(pos, 8)
    out, i = [], 0
    while i < len(sig):
        k = _one_type(sig, i)
        v, pos = wire_read(sig[i:k], raw, pos, e)
        out.append(v)
        i = k
    return out


def wire_val(sg, v):
    """A variant's payload as the driver prints the model's plain value."""
    if sg == 'b':
        return pval(bool(v))
    if sg == 'd':
        return 'D%d' % v[1]
    if sg and sg[0] == 'a':
        return 'L:' + ','.join(hx(x[2] if isinstance(x, tuple) else x) for x in v)
    return pval(v)


def p_show_dict(d):
    """{iface: {pname: ('v', sig, value)}} as read from the wire -> the driver's <objdict>."""
    items = []
    for iface, props in d.items():
        ps = ['%s~%s~%s' % (hx(n), hx(var[1]), wire_val(var[1], var[2])) for n, var in props.items()]
        items.append('%s=%s' % (hx(iface), '|'.join(ps) if ps else '[]'))
    return ','.join(items) if items else '[]'


def wire_plain(x):
    if isinstance(x, tuple) and x and x[0] == 'v':
        return wire_plain(x[2])
    if isinstance(x, tuple) and x and x[0] == 'd':
        return _struct.unpack('<d', _struct.pack('<Q', x[1]))[0]
    if isinstance(x, dict):
        return {k: wire_plain(v) for k, v in x.items()}
    if isinstance(x, list):
        return [wire_plain(v) for v in x]
    return x


def pcanon(line):
    toks = []
    for tok in line.split(' '):
        ents = []
        for ent in tok.split(';'):
            head, sep, od = ent.partition(':')
            if not sep or head.startswith('L'):
                head, sep, od = '', '', ent
            ifs = []
            for it in od.split(','):
                name, eq, props = it.partition('=')
                ifs.append(name + eq + '|'.join(sorted(props.split('|'))))
            ents.append(head + sep + ','.join(sorted(ifs)))
        toks.append(';'.join(sorted(ents)))
    return ' '.join(toks)


def p_expected(cur, n, chain):
    """{iface: {readable property: current value}} of instance n, from the assignments alone."""
    d = {i: {} for i in CHAIN_IFACES[chain]}
    for attr, (iface, pn, sig, r, w) in CHAINS[chain].items():
        if r:
            d[iface][pn] = cur.get((n, iface, pn))
    return d


def p_sendable(cur, n, chain):
    return all(p_fits(sig, cur.get((n, iface, pn))) for (iface, pn, sig, r, _) in CHAINS[chain].values() if r)


GOOD_VALS = {'label': ['', 'x', 'hello', 'café'], 'level': [0, 1, -1, 2 ** 31 - 1], 'count': [0, 7, -2 ** 40, 2 ** 62],
             'flag': [True, False], 'secret': [3, -4],
             'name': ['n', 'name'], 'size': [0, 2 ** 63, 5], 'where': ['/', '/x/y'], 'tags': [['a', 'b'], ['t']],
             'any': [5, 'x', True, ['p', 'q'], 0.5], 'ratio': [0.5, -2.0, 1e300], 'small': [0, 255, 7],
             'shape': ['as', 'ii', ''], 'name_n': ['other'], 'size_n': [3, -3]}
BAD_VALS = {'label': [None, 'a\0b'], 'level': ['zz', 2 ** 40, None], 'count': [2 ** 70, None], 'flag': [],
            'secret': ['zz', None, 2 ** 40],
            'name': [None], 'size': [-1, None], 'where': ['not/a/path', None], 'tags': [None], 'any': [None],
            'ratio': [None], 'small': [256, None], 'shape': [None], 'name_n': [None], 'size_n': [2 ** 40, None]}
SET_SHAPES = {0: [(P_A, 'level', [5, -7, 0, 11]), (P_A, 'level', ['zz']), (P_A, 'label', ['no']), (P_B, 'flag', [True, False]),
                  (P_A, 'nope', [1]), (P_A, 'secret', [9]), (P_B, 'count', [3]), ('', 'level', [21, 22]), ('', 'flag', [True])],
              1: [(Q_M, 'name', ['set', 'again']), (Q_N, 'name', ['no']), (Q_N, 'size', [4, -4]), (Q_M, 'size', [9]),
                  (Q_M, 'small', [9, 300]), (Q_M, 'tags', [['s', 't']]), (Q_M, 'any', [77, 'str', False]), ('', 'small', [1]),
                  (Q_M, 'nope', [1])]}
SET_SHAPES[2] = SET_SHAPES[0]       # a base-class instance is asked for the derived class's properties as well
SET_SHAPES[3] = SET_SHAPES[1]


def gen_values_history(rng, universe, length, order=None):
    """ops: ['make', n, chain, path] ['assign', n, attr, v] ['export', n] ['unexport', path]
    ['set', path, iface, pname, v].  order = (derived chain, 'base-first' | 'derived-first'): the history begins with
    the first instances of that (base, derived) class pair, in that order."""
    ops, made, live, cur = [], {}, {}, {}
    nxt = [0]

    def assign(n, attr, v):
        ops.append(['assign', n, attr, v])
        iface, pn = CHAINS[made[n][0]][attr][:2]
        cur[(n, iface, pn)] = v

    def export(n):
        ops.append(['export', n])
        if p_sendable(cur, n, made[n][0]):
            live[made[n][1]] = n

    def make(path, chain, bad=0.04, unset=0.01):
        n = nxt[0]
        nxt[0] += 1
        made[n] = (chain, path)
        ops.append(['make', n, chain, path])
        for attr in CHAINS[chain]:
            q = rng.random()
            # a bool property is always given a bool: `Boolean(None)` raises where a plain `bool(None)` would not, and
            # what is reported for an UNSET property is not the statement's business (deviation D3)
            if q < 1 - bad - unset or not BAD_VALS[attr]:
                assign(n, attr, rng.choice(GOOD_VALS[attr]))
            elif q < 1 - unset:
                assign(n, attr, rng.choice(BAD_VALS[attr]))
        export(n)
        return n

    if order is not None:
        der, which = order
        pair = [BASE_OF[der], der] if which == 'base-first' else [der, BASE_OF[der]]
        for c in pair:
            make(rng.choice(universe), c, bad=0, unset=0)
    for _ in range(length):
        r = rng.random()
        if not made or r < 0.22:
            # a free path, or (re-export over a live path with an instance of possibly ANOTHER class) a live one
            make(rng.choice(universe), rng.choice([0, 0, 0, 1, 1, 2, 3]))
        elif r < 0.42:
            n = rng.choice(sorted(made))
            attr = rng.choice(sorted(CHAINS[made[n][0]]))
            vals = GOOD_VALS[attr] if rng.random() < 0.85 or not BAD_VALS[attr] else BAD_VALS[attr]
            assign(n, attr, rng.choice(vals))
        elif r < 0.53:
            export(rng.choice(sorted(made)))
        elif r < 0.64:
            p = rng.choice(sorted(live)) if live and rng.random() < 0.8 else rng.choice(universe)
            ops.append(['unexport', p])
            live.pop(p, None)
        else:
            path = rng.choice(sorted(live)) if live and rng.random() < 0.85 else rng.choice(universe)
            chain = made[live[path]][0] if path in live else rng.choice([0, 1, 2, 3])
            iface, pn, vs = rng.choice(SET_SHAPES[chain])
            v = rng.choice(vs)
            ops.append(['set', path, iface, pn, v])
            if path in live:
                for attr, (di, dp, sig, rd, wr) in CHAINS[chain].items():
                    if dp == pn and (iface == di) and wr and p_fits(sig, v):
                        cur[(live[path], di, dp)] = v
    # forced: a well-typed parent and child of different classes, then the child's property goes bad and good again
    deep = [p for p in universe if any(strictly_below(q, p) for q in universe if q != p)]
    if deep:
        child = rng.choice(deep)
        parent = rng.choice([q for q in universe if strictly_below(q, child)])
        a = make(parent, 0, bad=0, unset=0)
        b = make(child, 1, bad=0, unset=0)
        assign(b, 'where', 'not/a/path')
        assign(a, 'level', 3)
        assign(b, 'where', '/ok')
    return ops


def run_values_history(ctx, hist, lines, expect):
    from txdbus import objects, message
    clss = pclasses(fresh=bool(hist.get('fresh')))
    conn = FakeConn()
    h = objects.DBusObjectHandler(conn)
    insts, chain_of, cur, exported = {}, {}, {}, {}
    universe = hist['universe']
    lines.extend(p_decl_lines())
    expect.extend([(hist, 0, ['decl'], 'ok')] * len(p_decl_lines()))
    tainted = [False]

    def take():
        out = conn.take()
        conn.msgs = []
        return out

    def is_sig(raw, member):
        m = message.parseMessage(raw, [])
        return isinstance(m, message.SignalMessage) and m.member == member and m

    def judge_managed(step_no, path, reply_d, line):
        if tainted[0] or path not in exported:
            return
        below = {q: m for q, m in exported.items() if strictly_below(path, q)}
        if not all(p_sendable(cur, m, chain_of[m]) for m in below.values()):
            return                      # a value that cannot be sent beneath: the statement is silent (Error.Failed, D4)
        inp = case_input(hist, step_no, ['managed', path])
        want = {q: p_expected(cur, m, chain_of[m]) for q, m in below.items()}
        if reply_d is None:
            ctx.violation('managed-objects-fails', 'GetManagedObjects on an exported path is not answered with the objects',
                          inp, observed=line, expected=sorted(want))
        elif sorted(reply_d) != sorted(want):
            ctx.violation('managed-objects-mismatch',
                          'GetManagedObjects does not report exactly the exported objects strictly beneath the path',
                          inp, observed=sorted(reply_d), expected=sorted(want))
        elif wire_plain(reply_d) != want:
            ctx.violation('managed-objects-content',
                          'an object reported by GetManagedObjects does not carry exactly its interfaces and its readable '
                          'properties with their current values', inp, observed=wire_plain(reply_d), expected=want)
        else:
            for q, m in below.items():          # the variant type of a well-typed basic property is its declared type
                for (iface, pn, sig, rd, _) in CHAINS[chain_of[m]].values():
                    if rd and len(sig) == 1 and sig != 'v' and reply_d[q][iface][pn][1] != sig:
                        ctx.violation('managed-objects-variant-type',
                                      'a readable property is reported with a variant type other than its declared basic type',
                                      inp, observed={q: {iface: {pn: reply_d[q][iface][pn][1]}}}, expected=sig)
                        return

    for step_no, op in enumerate(hist['ops'], 1):
        take()
        if op[0] == 'make':
            _, n, chain, path = op
            insts[n] = clss[chain](path)
            chain_of[n] = chain
            lines.append('pobj %d %d %s' % (n, chain, hx(path)))
            expect.append((hist, step_no, ['make'], 'ok'))
            continue
        if op[0] == 'assign':
            n, attr, v = op[1], op[2], op[3]
            try:
                setattr(insts[n], attr, v)
            except Exception:      # noqa   (PropertiesChanged of an attached object that cannot be built: C17)
                pass
            iface, pn = CHAINS[chain_of[n]][attr][:2]
            cur[(n, iface, pn)] = v
            lines.append('passign %d %s %s' % (n, hx(attr), pval(v)))
            expect.append((hist, step_no, ['assign'], None))          # what assignment answers is C17's subject
            ctx.stat('values-op=assign')
        elif op[0] == 'export':
            n = op[1]
            path = insts[n].getObjectPath()
            try:
                h.exportObject(insts[n])
                exc = None
            except Exception as e:     # noqa
                exc = type(e).__name__
            sent = take()
            ok = p_sendable(cur, n, chain_of[n])
            sig = len(sent) == 1 and is_sig(sent[0], 'InterfacesAdded')
            body = wire_body(sent[0]) if sig else None
            if exc is not None:
                line = 'raised' if not sent else 'raised+sent'
            elif sig:
                line = 'added %s %s %s' % (hx(sig.path), hx(body[0]), p_show_dict(body[1]))
            else:
                line = 'other:%d' % len(sent)
            lines.append('pexport %d' % n)
            expect.append((hist, step_no, ['export'], line))
            ctx.stat('values-op=export' + ('' if ok else '-unsendable') + ('-over-live' if path in exported else ''))
            inp = case_input(hist, step_no, ['signals'])
            if ok:
                exported[path] = n
                good = exc is None and sig and body[0] == path
                if not tainted[0] and not good:
                    ctx.violation('export-signal-wrong',
                                  'exportObject of an object whose readable properties all hold values of their types does not '
                                  'announce itself with one InterfacesAdded naming the path', inp, observed=line,
                                  expected=['InterfacesAdded', path])
                    tainted[0] = True
                elif not tainted[0] and wire_plain(body[1]) != p_expected(cur, n, chain_of[n]):
                    ctx.violation('export-signal-properties',
                                  'InterfacesAdded does not carry exactly the interfaces and the readable properties with their current values',
                                  inp, observed=wire_plain(body[1]), expected=p_expected(cur, n, chain_of[n]))
                    tainted[0] = True
            elif exc is None and sig:
                # an ill-typed value that still marshals (D3): the export happened; follow the implementation
                exported[path] = n
            elif not tainted[0] and (sent or (h.exports.get(path) is insts[n] and exported.get(path) != n)):
                ctx.violation('failed-export-stays-visible' if not sent else 'failed-export-announces',
                              'exportObject raised, yet it announces the object or leaves it in the table',
                              inp, observed=line, expected='raises, silent, no effect')
                tainted[0] = True
        elif op[0] == 'unexport':
            try:
                h.unexportObject(op[1])
                exc = None
            except Exception as e:     # noqa
                exc = type(e).__name__
            sent = take()
            sig = len(sent) == 1 and is_sig(sent[0], 'InterfacesRemoved')
            if exc is not None:
                line = 'raised' if not sent else 'raised+sent'
            elif sig:
                body = wire_body(sent[0])
                line = 'removed %s %s %s' % (hx(sig.path), hx(body[0]), strs(list(body[1])))
            else:
                line = 'other:%d' % len(sent)
            exported.pop(op[1], None)
            lines.append('punexport ' + hx(op[1]))
            expect.append((hist, step_no, ['unexport'], line))
            ctx.stat('values-op=unexport')
        elif op[0] == 'set':
            _, path, iface, pn, v = op
            m = message.MethodCallMessage(path, 'Set', interface=P_PROPS, destination=FakeConn.busName,
                                          signature='ssv', body=[iface, pn, v])
            pm = message.parseMessage(m.rawMessage, [])
            pm.sender = ':1.7'
            try:
                h.handleMethodCallMessage(pm)
                exc = None
            except Exception as e:     # noqa
                exc = type(e).__name__
            sent = [message.parseMessage(r, []) for r in take()]
            errs = [x for x in sent if isinstance(x, message.ErrorMessage)]
            rets = [x for x in sent if isinstance(x, message.MethodReturnMessage)]
            if exc is not None:
                line = 'raised'
            elif errs:
                line = 'unknown' if errs[0].error_name == UNKNOWN_OBJECT else 'answered'
            elif rets:
                line = 'answered'
            else:
                line = 'noreply'
            if rets and not errs and path in exported:
                n = exported[path]
                for attr, (di, dp, sig, rd, wr) in CHAINS[chain_of[n]].items():
                    if dp == pn and (iface == di or (iface == '' and wr)):
                        cur[(n, di, dp)] = v
                        break
            lines.append('pset %s %s %s %s' % (hx(path), hx(iface), hx(pn), pval(v)))
            expect.append((hist, step_no, ['set', path, iface, pn], line))
            ctx.stat('values-op=set/' + ('ret' if rets and not errs else line))
        # after every step: GetManagedObjects at every path of the universe
        for path in universe:
            m = message.MethodCallMessage(path, 'GetManagedObjects', interface=BUILTIN[2], destination=FakeConn.busName)
            pm = message.parseMessage(m.rawMessage, [])
            pm.sender = ':1.7'
            take()
            try:
                h.handleMethodCallMessage(pm)
                exc = None
            except Exception as e:     # noqa
                exc = type(e).__name__
            sent = take()
            reply_d = None
            parsed = [message.parseMessage(r, []) for r in sent]
            if exc is not None:
                line = 'raised'
            elif len(sent) != 1:
                line = 'replies=%d' % len(sent)
            elif isinstance(parsed[0], message.ErrorMessage):
                # the statement names no error: any error reply other than UnknownObject counts as "failed"
                line = 'unknown' if parsed[0].error_name == UNKNOWN_OBJECT else 'failed'
            else:
                reply_d = wire_body(sent[0])[0]
                line = 'managed ' + (';'.join('%s:%s' % (hx(k), p_show_dict(v)) for k, v in reply_d.items()) if reply_d else '[]')
            lines.append('pmanaged ' + hx(path))
            expect.append((hist, step_no, ['managed', path], line))
            ctx.stat('values-answer=' + line.split(' ', 1)[0] + ('-nonempty' if reply_d else ''))
            judge_managed(step_no, path, reply_d, line)
    ctx.impl_trace()


def run_values(ctx, hists):
    lines, expect = [], []
    for hist in hists:
        log_case('values', 'managed-values', hist)
        run_values_history(ctx, hist, lines, expect)
        ctx.case('managed-values', sample=hist, nontrivial=any(o[0] == 'export' for o in hist['ops']))
        ctx.stat('values-family=%s' % ('fresh' if hist.get('fresh') else 'process-wide'))
    out = ctx.model(lines)
    if out is None:
        return
    seen = set()
    for (hist, step_no, what, impl), m in zip(expect, out):
        if impl is None:
            continue
        if what[0] == 'set':
            m = 'unknown' if m == 'unknown' else 'answered'
        if pcanon(m) != pcanon(impl):
            key = (id(hist), what[0])
            if key in seen:
                continue
            seen.add(key)
            ctx.disagree('managed-values', case_input(hist, step_no, what), m, impl)


VALUES_UNIVERSE = ['/', '/a', '/a/b', '/a/bc', '/a/b/c', '/b']


def run(ctx):
    classes()
    # ---- corpus first (past failures): each file has 'input': {'universe', 'ops'}
    corpus_h, corpus_hh = [], []
    for name, case in ctx.corpus():
        if case.get('stream') == 'managed-values':
            continue
        inp = case.get('input', case)
        if case.get('stream') == 'history-handlers':
            corpus_hh.append(handlers_hist(inp['universe'], inp['ops'], inp['handlers'], fresh=inp.get('fresh', False),
                                           variant=inp.get('variant', 0), first=inp.get('first')))
            continue
        corpus_h.append(make_hist(inp['universe'], inp['ops']))
    if corpus_h:
        run_batch(ctx, 'history-fixed-universe', corpus_h)
    if corpus_hh:
        run_handlers(ctx, 'history-handlers', corpus_hh)

    rng = ctx.rng
    # ---- the fixed universes: parents, children, grandchildren, prefix-sharing siblings, the root,
    #      recurring elements (/b/c/b/d), case variants (/a/b, /A/b, /a/B)
    n = ctx.scale(quick=20, thorough=160)
    hs = []
    for i in range(n):
        base = FIXED_UNIVERSE if i % 2 == 0 else FIXED_UNIVERSE_2
        uni = base if i % 4 < 2 else sorted(rng.sample(base, rng.randrange(4, 9)) + (['/'] if i % 8 < 4 else []))
        uni = sorted(set(uni))
        hs.append(make_hist(uni, gen_history(rng, uni, rng.randrange(6, 22)), rng))
    run_batch(ctx, 'history-fixed-universe', hs)

    # ---- random universes
    n = ctx.scale(quick=36, thorough=360)
    hs = []
    for i in range(n):
        uni, shape = gen_universe(rng)
        ctx.stat('shape=' + shape)
        hs.append(make_hist(uni, gen_history(rng, uni, rng.randrange(4, 26)), rng))
    run_batch(ctx, 'history-random-universe', hs)

    # ---- bounded-exhaustive small histories
    max_len = 2 if ctx.tier == 'quick' and not ctx.widen else 3
    run_batch(ctx, 'history-enumerated', list(enumerated(max_len)))

    # ---- several handlers alive in one scenario, the same instances on several of them, failing exports in between
    hs = scripted_handlers()
    n = ctx.scale(quick=16, thorough=120)
    for i in range(n):
        base = FIXED_UNIVERSE if i % 2 == 0 else FIXED_UNIVERSE_2
        uni = sorted(set(rng.sample(base, rng.randrange(3, 7)) + (['/'] if i % 3 == 0 else [])))
        nh = 3 if i % 4 == 3 else 2
        handlers = ['h'] * nh
        if i % 5 == 0:
            handlers[-1] = 'c'
        ops = gen_handlers_history(rng, uni, rng.randrange(6, 20), nh)
        if i % 2 == 0:
            hs.append(handlers_hist(uni, ops, handlers, rng))                  # the process-wide classes
        else:
            # the SAME calls on two fresh class families, a (base, derived) pair first used in either order
            b, d = rng.choice(FAMILY_PAIRS)
            va = rng.randrange(0, 4)
            nb = handlers_hist(uni, ops, handlers, rng)['neighbours']
            for first, variant in (([b, d], va), ([d, b], va + 1)):
                h = handlers_hist(uni, ops, handlers, None, fresh=True, variant=variant, first=first)
                h['neighbours'] = nb
                hs.append(h)
    run_handlers(ctx, 'history-handlers', hs)
    max_len = 2 if ctx.tier == 'quick' and not ctx.widen else 3
    run_handlers(ctx, 'history-handlers', list(enumerated_handlers(max_len)))

    # ---- the same through a real DBusClientConnection (exportObject / unexportObject / received bytes)
    n = ctx.scale(quick=4, thorough=30)
    hs = []
    for i in range(n):
        uni = FIXED_UNIVERSE if i % 2 == 0 else FIXED_UNIVERSE_2
        uni = sorted(set(rng.sample(uni, 6) + ['/']))
        hs.append(make_hist(uni, gen_history(rng, uni, rng.randrange(6, 16)), rng))
    run_batch(ctx, 'history-client-connection', hs, client=True)

    # ---- objects with declared properties: the property dicts, values included, against Obj/TreeProps.lean
    n = ctx.scale(quick=16, thorough=120)
    hs = []
    for name, case in ctx.corpus():
        if case.get('stream') == 'managed-values':
            hs.append(dict(case['input']))
    for i in range(n):
        uni = sorted(rng.sample(VALUES_UNIVERSE, rng.randrange(3, 7)))
        if i % 3 == 0:
            hs.append({'universe': uni, 'ops': gen_values_history(rng, uni, rng.randrange(6, 22))})     # process-wide classes
        else:
            # NEW classes for this case; their first instances are a (base, derived) pair in a chosen order
            order = (rng.choice([0, 1]), 'base-first' if i % 3 == 1 else 'derived-first')
            ctx.stat('values-first=%d/%s' % order)
            hs.append({'universe': uni, 'ops': gen_values_history(rng, uni, rng.randrange(6, 22), order), 'fresh': True})
    run_values(ctx, hs)
    stabilise(ctx)


# --------------------------------------------------------------------------- replays that reproduce (STATE_AUDIT M6 / G7a)
class _Probe:
    """A silent run context: only collects the keys of the findings."""
    tier, widen, budget_s = 'quick', False, None

    def __init__(self):
        self.keys = set()

    def violation(self, key, *a, **k):
        self.keys.add(key)

    def model(self, lines):
        return None

    def time_left(self):
        return 1e9

    def corpus(self):
        return []

    def stat(self, *a, **k):
        pass

    case = disagree = note = impl_trace = stat


def _pristine():
    """Forget txdbus (module-level and class-level state included) and every class built from it."""
    import sys
    for m in list(sys.modules):
        if m == 'txdbus' or m.startswith('txdbus.'):
            del sys.modules[m]
    _CLASSES.clear()
    _PCLS.clear()
    _FIRST_USE.clear()


def _run_logged(probe, entry):
    runner, stream, hist = entry
    hist = dict(hist)
    if runner == 'values':
        run_values(probe, [hist])
    elif runner == 'handlers':
        run_handlers(probe, stream, [hist])
    else:
        run_batch(probe, stream, [hist], client=(runner == 'client'))


def _reproduces(before, inp, key):
    """Does `key` show again when `before` (whole cases) and then `inp` run on a freshly imported txdbus?"""
    global _RAN, _CASE_NO
    keep = (_RAN, _CASE_NO)
    _RAN, _CASE_NO = [], {}
    try:
        _pristine()
        probe = _Probe()
        for entry in before:
            _run_logged(probe, entry)
        replay(probe, {'input': inp})
        return key in probe.keys
    except Exception:       # noqa
        return False
    finally:
        _RAN, _CASE_NO = keep


def stabilise(ctx):
    """All cases of a run share one Python process, so a finding may need what EARLIER cases left behind in txdbus
    (a module-level or class-level memo); its own input, run alone, then shows nothing.  Every finding of this run is
    therefore run again on a freshly imported txdbus; one that does not show again gets the earlier cases it needs
    stored in front of it (`sequence`), and `replay` runs them first.  Costs nothing when there is no finding."""
    import time
    todo = [v for v in ctx.violations if isinstance(v.get('input'), dict) and 'sequence' not in v['input']
            and v.get('stabilised') is not v['input']]
    if not todo:
        return
    t0 = time.time()
    try:
        for v in todo:
            if time.time() - t0 > 25:
                ctx.note('replay of %s not re-checked on a fresh import (time)' % v['key'])
                continue
            inp = v['input']
            if _reproduces([], inp, v['key']):
                v['stabilised'] = inp
                continue
            no = inp.get('case')
            found = False
            back = 1
            while no is not None and not found and time.time() - t0 <= 25:
                before = _RAN[max(0, no - back):no]
                if _reproduces(before, inp, v['key']):
                    seq = [{'runner': r, 'stream': st, 'hist': {k: x for k, x in h.items()}} for r, st, h in before]
                    v['input'] = dict(inp, sequence=seq)
                    found = True
                if back >= no:
                    break
                back *= 2
            v['stabilised'] = v['input']
            if not found:
                ctx.note('the finding %s did not show again on a freshly imported txdbus, alone or after the earlier cases '
                         'of this run: its replay may not reproduce' % v['key'])
    finally:
        _pristine()


def replay(ctx, data):
    classes()
    inp = data['input']
    for e in inp.get('sequence', []):           # the earlier cases this finding needs (see `stabilise`)
        _run_logged(ctx, (e['runner'], e['stream'], e['hist']))
    if 'handlers' in inp:
        h = make_hist(inp['universe'], inp['ops'])
        for k in ('handlers', 'fresh', 'variant', 'first', 'warm'):
            if k in inp:
                h[k] = inp[k]
        run_handlers(ctx, 'history-handlers', [h])
        return
    if inp['ops'] and inp['ops'][0][0] == 'make':
        h = {'universe': inp['universe'], 'ops': inp['ops']}
        if inp.get('fresh'):
            h['fresh'] = True
        run_values(ctx, [h])
        return
    hist = make_hist(inp['universe'], inp['ops'])
    if inp.get('warm'):
        hist['warm'] = inp['warm']
    run_batch(ctx, 'history-fixed-universe', [hist])
