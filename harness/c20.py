"""C20 - file descriptors stay attached to the message that carried them.
Correspondence + oracle harness.

Receiver: a real BasicDBusProtocol (binary mode) on a StringTransport; integer stand-ins for
descriptors are injected through fileDescriptorReceived, bytes through dataReceived.  A scenario is a
list of messages (raw bytes + the descriptors sent with each) and an event sequence (`f<n>` descriptor
arrival, `r<hex>` read).  Observed per delivered message: raw bytes, what every `h` argument of the
parsed body resolved to, `_receivedFDs` before and after.

Sender: MethodCallMessage(..., oobFDs=[]) / DBusClientConnection.callRemote on a transport that records
sendFileDescriptor and write calls in order; the header field, the index values in the body, the
out-of-band list.

Model (S3): Proto/Fds.lean through drv_c20; the abstract parser `info` of the model is tabulated by
parsing each raw message once with a probe list that answers every index with the index itself.
Extension 2026-09-30 (C20 composed with C03 / C04 / C01, Proto/FdsMsg.lean): stream `end-to-end-constructed` -
real constructors with real oobFDs lists, real sendMessage on a recording UNIX transport, the recorded stream
replayed into a real receiver under a random interleaving the environment model allows; the Lean side (driver
command X) gets the constructor ARGUMENTS and the events and runs C03's constructor model + `oobAfter` /
`sendConstructed`, then `recvRun` with `infoOfParse` (no table from the real parser) and `parsedDelivery`; stream
`info-of-parse` - `infoOfParse` against the probe table of the real parser on every kind of message the receiver
streams use.  Stream `recv-reentrant` (S3 only - outside the property's quantifier): handlers that feed the next reads
before they return, or raise while the caller keeps the connection, against the Lean receiver on the linear events.
State-leak round 2026-09-30: every binary-mode receiver is made by `makeConnection` + one `BEGIN` read (nothing planted);
stream `recv-connections` (2-3 live connections, interleaved, one lost with a descriptor queued, `judge` and the model per
connection); `sender-default-list` (constructions without the `oobFDs` keyword); messages re-sent on a second transport.
Oracle (S4, implementation only): every `h` argument of message i resolves to the descriptor sent at
that position with message i, exactly len(fds(i)) entries are consumed, for every interleaving a stream
socket can produce; sender: header count = number of `h` arguments = len(oobFDs), indices 0..k-1 in
argument order, all sendFileDescriptor calls precede the write.
"""
import itertools
import struct

from harness import c04

STREAMS = ['recv-exhaustive', 'recv-random', 'recv-handshake', 'recv-malformed', 'sender-layout',
           'sender-callremote', 'end-to-end-constructed', 'info-of-parse', 'recv-reentrant', 'recv-connections',
           'sender-default-list']
THEOREMS = ['sender_layout', 'attribution', 'attribution_after_handshake', 'attribution_callRemote',
            'sender_calls_consistent', 'model_rules_match_source',
            'info_of_constructed', 'descriptors_end_to_end', 'descriptors_end_to_end_sender',
            'descriptors_end_to_end_after_handshake', 'sender_sends_constructed', 'senderEvs_consistent',
            'descriptors_end_to_end_literal']
TRUSTED_BASE = [
    'the message parser is an abstract parameter of the receiver model (raw message -> declared unix_fds, '
    'indices of its h arguments); in the streams recv-* the harness tabulates it by parsing each raw message with a '
    'probe list; in end-to-end-constructed / info-of-parse it is the model\'s own infoOfParse (C03 parseMessage model)',
    'bodies are abstracted to trees (descriptor leaf / other leaf / sequence); the harness maps signatures '
    'h, ah, (..), a(..), a{sh}, a{hs} onto them',
    'the environment model (Consistent in Proto/Fds.lean): SCM_RIGHTS ordering, Twisted >= 17.1 sendFileDescriptor; '
    'NO DESCRIPTOR IS LOST on the way (at RLIMIT_NOFILE / EMFILE the kernel drops descriptors and flags MSG_CTRUNC; txdbus '
    'never resynchronises, every later attribution would shift) - outside the stated environment, assumed',
]
ASSUMPTIONS = [
    'the parser reads back from a message the unix_fds header field and the index values that _marshal wrote '
    '(C01-C03 round trip): hypothesis of msgOK_of_callRemote / attribution_callRemote for an abstract parser; PROVED for '
    'infoOfParse on every message the C03 model constructs (info_of_constructed), so descriptors_end_to_end has no such '
    'hypothesis',
    'handlers that re-enter dataReceived, or raise while the caller keeps the connection (stream recv-reentrant), are '
    'OUTSIDE the property (a socket never delivers a read while a handler runs; a reactor drops the connection after an '
    'escaped exception): compared with the Lean model (S3, labels reentrant-...), never reported as a violation',
    'descriptors of message i arrive in sending order, after those of earlier messages, each no later than the '
    'read that contains the last byte of message i; bytes arrive in order, cut arbitrarily',
    'the order that upstream marks unfixable (bytes of a message before its descriptors) is outside the property',
]
RULE = ('one case = one (message sequence, event sequence) pair or one sender body; distinct = distinct '
        'canonical JSON; non-trivial = at least one message with a descriptor is delivered / marshalled')


def _mods():
    from txdbus import marshal, message, protocol
    return marshal, message, protocol


# --------------------------------------------------------------------------------------- bodies with descriptors
# a body shape: (signature, builder(fds iterator, rng) -> value, tree).  Trees: 'h' | 'p' | [trees]
def gen_arg(rng, nxt, depth=0):
    """One complete type with value, drawing descriptors from nxt().  -> (sig, value, tree)"""
    r = rng.random()
    if r < 0.30:
        d = nxt()
        return 'h', d, ('h', d)
    if r < 0.50:
        return rng.choice([('s', 'x\r\ny', 'p'), ('i', 2573, 'p'), ('u', 7, 'p'), ('s', '', 'p')])
    if r < 0.65 and depth < 2:
        n = rng.randrange(0, 3)
        ds = [nxt() for _ in range(n)]
        return 'ah', ds, [('h', d) for d in ds]
    if r < 0.80 and depth < 2:
        # struct
        parts = [gen_arg(rng, nxt, depth + 1) for _ in range(rng.randrange(1, 3))]
        return '(' + ''.join(p[0] for p in parts) + ')', [p[1] for p in parts], [p[2] for p in parts]
    if r < 0.88 and depth < 2:
        n = rng.randrange(0, 3)
        items = [(rng.randrange(100), nxt()) for _ in range(n)]
        return 'a(ih)', [[a, d] for a, d in items], [['p', ('h', d)] for a, d in items]
    if r < 0.94 and depth < 2:
        n = rng.randrange(0, 3)
        d = {}
        tree = []
        for k in range(n):
            fd = nxt()
            d['k%d' % k] = fd
            tree.append(['p', ('h', fd)])
        return 'a{sh}', d, tree
    if r < 0.96 and depth < 2:
        n = rng.randrange(0, 3)
        d = {}
        tree = []
        for k in range(n):
            fd = nxt(fresh=True)          # dict keys must be pairwise distinct
            d[fd] = 'v%d' % k
            tree.append([('h', fd), 'p'])
        return 'a{hs}', d, tree
    if depth < 2:
        # containers of containers with several handles per element
        shape = rng.choice(['aah', 'a(hh)', 'a{s(hh)}', 'a{sah}'])
        n = rng.randrange(0, 3)
        if shape == 'aah':
            rows = [[nxt() for _ in range(rng.randrange(0, 3))] for _ in range(n)]
            return shape, rows, [[('h', d) for d in row] for row in rows]
        if shape == 'a(hh)':
            rows = [[nxt(), nxt()] for _ in range(n)]
            return shape, rows, [[('h', a), ('h', b)] for a, b in rows]
        d, tree = {}, []
        for k in range(n):
            if shape == 'a{s(hh)}':
                v = [nxt(), nxt()]
            else:
                v = [nxt() for _ in range(rng.randrange(0, 3))]
            d['k%d' % k] = v
            tree.append(['p', [('h', x) for x in v]])
        return shape, d, tree
    return 'y', 3, 'p'


def gen_body(rng, base, want=None):
    """-> (sig or None, body or None, trees, fds in argument order).  Descriptor VALUES may repeat
    within a message (stdout and stderr being the same file) and, through `base`, across messages."""
    fds = []
    repeat = rng.random() < 0.35
    pool = []

    def nxt(fresh=False):
        if repeat and fds and not fresh and rng.random() < 0.5:
            fds.append(rng.choice(fds))
        else:
            fds.append(pool.pop())
        return fds[-1]
    for _ in range(200):
        del fds[:]
        # arbitrary values in a random order (real descriptors are not monotone in the argument order)
        pool[:] = rng.sample(range(base, base + 60), 60)
        n = rng.choice([0, 1, 1, 2, 3])
        parts = [gen_arg(rng, nxt) for _ in range(n)]
        if want is not None and len(fds) != want:
            continue
        if len(fds) > 3:
            continue
        sig = ''.join(p[0] for p in parts)
        if not sig:
            return None, None, [], []
        return sig, [p[1] for p in parts], [p[2] for p in parts], list(fds)
    if want == 0:
        return None, None, [], []
    ds = rng.sample(range(base, base + 60), want or 0)
    return 'h' * len(ds), list(ds), [('h', d) for d in ds], ds


def tree_tokens(tree):
    if tree == 'p':
        return ['p']
    if isinstance(tree, tuple):
        return ['h%d' % tree[1]]
    out = ['[']
    for t in tree:
        out += tree_tokens(t)
    return out + [']']


def build_raw(rng, mtype, sig, body, big, serial):
    """Reference serializer for any message type carrying descriptors (txdbus itself can only build
    method calls with descriptors).  -> (raw, oob list)"""
    marshal, message, _ = _mods()
    lend = not big
    oob = []
    bodyb = b''.join(marshal.marshal(sig, body, lendian=lend, oobFDs=oob)[1]) if sig else b''
    headers = []
    if mtype in (1, 4):
        headers.append([1, marshal.ObjectPath('/a')])
    if mtype == 4:
        headers.append([2, 'a.b'])
    if mtype in (1, 4):
        headers.append([3, 'M'])
    if mtype == 3:
        headers.append([4, 'a.Err'])
    if mtype in (2, 3):
        headers.append([5, marshal.UInt32(rng.choice([1, 2573]))])
    if sig:
        headers.append([8, marshal.Signature(sig)])
    if oob:
        headers.append([9, marshal.UInt32(len(oob))])
    # what crosses a bus carries a sender, often a destination; flags vary; the order of the fields is free
    if rng.random() < 0.5:
        headers.append([7, ':1.%d' % rng.randrange(1, 99)])
    if rng.random() < 0.4:
        headers.append([6, rng.choice([':1.7', 'a.b'])])
    if rng.random() < 0.5:
        rng.shuffle(headers)
    flags = rng.choice([0, 0, 1, 2, 3])
    hdr = b''.join(marshal.marshal(c04.header_signature(),
                                   [ord('B') if big else ord('l'), mtype, flags, 1, len(bodyb), serial, headers],
                                   lendian=lend)[1])
    return hdr + b'\0' * (-len(hdr) % 8) + bodyb, oob


def build_variant_msg(rng, base, want, big, serial):
    """A message whose descriptors travel inside VARIANTS (signature without a literal 'h'; header
    unix_fds = k).  txdbus cannot marshal that: the indices are encoded as UINT32 variants and the
    variants' type code is switched to 'h' in the body bytes.  -> (raw, fds, sig)"""
    marshal, message, _ = _mods()
    k = want if want is not None else rng.choice([1, 1, 2, 3])
    fds = [base + j for j in range(k)]
    if k > 1 and rng.random() < 0.4:
        fds[1] = fds[0]
    U = marshal.UInt32
    shape = rng.choice(['v', 'sv', 'a{sv}', 'vv']) if k else 'sv'
    if k == 0:
        sig, body = 'sv', ['plain', 'text']
    elif shape == 'a{sv}' or k > 2:
        sig, body = 'a{sv}', [dict(('k%d' % j, U(j)) for j in range(k))]
    elif shape == 'vv' and k == 2:
        sig, body = 'vv', [U(0), U(1)]
    elif k == 1:
        sig, body = ('v', [U(0)]) if shape == 'v' else ('sv', ['x\r\ny', U(0)])
    else:
        sig, body = 'a{sv}', [dict(('k%d' % j, U(j)) for j in range(k))]
    lend = not big
    bodyb = b''.join(marshal.marshal(sig, body, lendian=lend)[1])
    bodyb = bodyb.replace(b'\x01u\x00', b'\x01h\x00')
    mtype = rng.choice([1, 2, 4])
    headers = []
    if mtype in (1, 4):
        headers.append([1, marshal.ObjectPath('/a')])
    if mtype == 4:
        headers.append([2, 'a.b'])
    if mtype in (1, 4):
        headers.append([3, 'M'])
    if mtype == 2:
        headers.append([5, U(1)])
    headers.append([8, marshal.Signature(sig)])
    if k:
        headers.append([9, U(k)])
    hdr = b''.join(marshal.marshal(c04.header_signature(),
                                   [ord('B') if big else ord('l'), mtype, 0, 1, len(bodyb), serial, headers],
                                   lendian=lend)[1])
    return hdr + b'\0' * (-len(hdr) % 8) + bodyb, fds, sig


SENDER_DEFECTS = []


def gen_msg(rng, i, want=None):
    """Message number i of a sequence.  -> dict(raw, fds, sig)"""
    marshal, message, _ = _mods()
    if rng.random() < 0.15 and (want is None or want <= 3):
        raw, fds, sig = build_variant_msg(rng, 1000 * (i + 1), want, rng.random() < 0.3, i + 1)
        decl, idx = info_of(raw)
        if (decl or 0) != len(fds) or idx != list(range(len(fds))):
            # the hand-built message is not what was intended (parser or marshaller changed): not usable
            return gen_msg(rng, i, want)
        return {'raw': raw, 'fds': fds, 'sig': sig}
    # mostly a range of its own per message; sometimes a range shared by all messages (values repeat
    # across messages)
    sig, body, trees, fds = gen_body(rng, 1000 * (i + 1) if rng.random() < 0.8 else 7, want)
    big = rng.random() < 0.3
    mtype = rng.choice([1, 1, 2, 3, 4])
    serial = rng.choice([i + 1, 2573, 3338])
    if mtype == 1 and not big and rng.random() < 0.6:
        # the real sender
        m = message.MethodCallMessage('/a', 'M', signature=sig, body=body, oobFDs=[],
                                      destination=rng.choice([None, None, ':1.7', 'a.b']),
                                      interface=rng.choice([None, 'a.b']),
                                      expectReply=rng.random() < 0.7, autoStart=rng.random() < 0.7)
        raw, oob = m.rawMessage, list(m.oobFDs or [])
        if oob != fds:
            # a defect of the SENDER: reported by run() as a violation with this body as the replay input;
            # the receiver streams go on with the reference serializer
            SENDER_DEFECTS.append({'sig': sig, 'body': repr(body), 'fds': fds, 'oob': oob})
            raw, oob = build_raw(rng, mtype, sig, body, big, serial)
    else:
        raw, oob = build_raw(rng, mtype, sig, body, big, serial)
    if oob != fds:
        SENDER_DEFECTS.append({'sig': sig, 'body': repr(body), 'fds': fds, 'oob': oob, 'by': 'marshal.marshal'})
    return {'raw': raw, 'fds': fds, 'sig': sig or ''}


# --------------------------------------------------------------------------------------- the real receiver
QCAP = 512      # more than any scenario queues (deep-queue: <= 120); a longer queue is recorded up to here


def capq(q):
    """The queue as recorded: whole when it is as short as any scenario can make it, else its first QCAP entries
    followed by -len (a queue that long holds descriptors that were never received on this connection)."""
    if len(q) <= QCAP:
        return [int(x) for x in q]
    return [int(x) for x in q[:QCAP]] + [-len(q)]


class Probe(list):
    """A descriptor list that answers every index with the index itself - also for code that checks the bounds first
    (`i < len(oobFDs)`), slices before indexing (`oobFDs[:n][i]`) or tests it for truth; iterating it yields nothing."""

    def __getitem__(self, i):
        if isinstance(i, slice):
            return self
        return ('idx', i)

    def __len__(self):
        return 2 ** 40

    def __bool__(self):
        return True

    def __iter__(self):
        return iter(())

    def __contains__(self, x):
        return False


class FD(int):
    """Stand-in for a descriptor: recognisable wherever the parser puts it (also inside a variant,
    whose inner signature the parsed body no longer shows)."""


def walk(v, out):
    """The descriptor arguments of a parsed body in argument order: FD stand-ins, probe markers, and
    None (what an index outside the queue resolves to; DBus bodies hold no other None)."""
    if isinstance(v, FD) or v is None or (isinstance(v, tuple) and len(v) == 2 and v[0] == 'idx'):
        out.append(v)
    elif isinstance(v, dict):
        for k, x in v.items():
            walk(k, out)
            walk(x, out)
    elif isinstance(v, (list, tuple)):
        for x in v:
            walk(x, out)


def unfd(v):
    """A parsed body with the descriptor stand-ins as the plain ints they stand for."""
    if isinstance(v, FD):
        return int(v)
    if isinstance(v, dict):
        return dict((unfd(k), unfd(x)) for k, x in v.items())
    if isinstance(v, list):
        return [unfd(x) for x in v]
    if isinstance(v, tuple):
        return tuple(unfd(x) for x in v)
    return v


def body_line(m):
    """The parsed body in the value syntax of harness/valcodec.py (`N`: no body; `!`: no message / not encodable)."""
    from harness import valcodec
    if m is None:
        return '!'
    if not m.signature:
        return 'N' if m.body is None else '!'
    try:
        return valcodec.to_line(unfd(m.body))
    except ValueError:
        return '!'


def info_of(raw):
    """The abstract parser of the model, tabulated with the real parser: (declared or None, indices)."""
    marshal, message, _ = _mods()
    m = message.parseMessage(raw, Probe())
    out = []
    if m.signature:
        walk(m.body, out)
    decl = getattr(m, 'unix_fds', None)
    return (None if decl is None else int(decl)), [x[1] for x in out]


_CLS = {}


def recv_classes(ctx):
    """-> (P: BasicDBusProtocol with the delivery log, PServer: the same on BusProtocol)"""
    if ctx.repo not in _CLS:
        marshal, message, protocol = _mods()
        from txdbus import bus

        class Rec:
            def rawDBusMessageReceived(self, raw):
                qb = capq(self._receivedFDs)
                self._last = None
                # BasicDBusProtocol's method also for the bus protocol (its own override is C14's)
                protocol.BasicDBusProtocol.rawDBusMessageReceived(self, raw)
                m = self._last
                args = []
                if m is not None and m.signature:
                    walk(m.body, args)
                args = [None if a is None else int(a) for a in args]
                entry = {'raw': bytes(raw).hex(), 'args': args, 'qb': qb, 'qa': capq(self._receivedFDs)}
                if getattr(self, 'want_body', False):
                    entry['body'] = body_line(m)
                self.log.append(entry)

            def methodCallReceived(self, m):
                self._last = m

            methodReturnReceived = errorReceived = signalReceived = methodCallReceived

        class P(Rec, protocol.BasicDBusProtocol):
            pass

        class PServer(Rec, bus.BusProtocol):
            pass

        from txdbus import client

        class PClient(Rec, client.DBusClientConnection):
            """The real client protocol as receiver (connectionAuthenticated runs before the hand-off)."""
        P.PClient = PClient
        _CLS[ctx.repo] = (P, PServer)
    return _CLS[ctx.repo]


_STUB = {}


def make_binary_receiver(ctx, cls=None, want_body=False):
    """A receiver in binary mode made the way a reactor makes it (state-leak round 2026-09-30, STATE_AUDIT G3):
    `p = Class()`, the public `authenticator` hook (a stub that accepts the first line), `p.makeConnection(transport)`,
    then ONE read `BEGIN\r\n`.  Nothing of the receiver's state (`_receivedFDs`, `_authenticated`, `_buffer`) is set by
    hand: a queue that is not per connection shows."""
    from twisted.internet.testing import StringTransport
    from txdbus import protocol
    P, _ = recv_classes(ctx)
    key = ctx.repo
    if key not in _STUB:
        _, _, StubAuth, _, _ = c04.classes(ctx)
        stub = type('StubAuthS', (StubAuth,), {'script': 's'})
        from zope.interface import classImplements
        classImplements(stub, protocol.IDBusAuthenticator)
        _STUB[key] = stub
    tr = StringTransport()
    tr.socket = c04._FakeSocket()
    p = (cls or P)()
    p.log = []
    p.effects = []
    p.want_body = want_body
    p.authenticator = _STUB[key]
    p.factory = c04._FakeFactory()
    p.makeConnection(tr)
    p.dataReceived(b'BEGIN\r\n')
    if not p._authenticated:
        raise c04.HarnessFault('the stub handshake did not put the receiver into binary mode')
    return p, tr


def observe(ctx, events, mode='binary', script='', linux=False, want_body=False):
    from twisted.internet.testing import StringTransport
    from txdbus import protocol
    P, PServer = recv_classes(ctx)
    tr = StringTransport()
    tr.socket = c04._FakeSocket()     # whatever the platform switch says, a server's first read finds a socket
    if hasattr(protocol, '_is_linux'):
        protocol._is_linux = bool(linux) and mode.endswith('server')
    wrapbox = []
    try:
        if mode == 'binary':
            p, tr = make_binary_receiver(ctx, want_body=want_body)
        else:
            _, _, StubAuth, Wrap, authentication = c04.classes(ctx)

            def wrapped(cls_):
                # through the public hook `authenticator`: record each handled line and its outcome
                def make(*a):
                    w = Wrap(cls_(*a), p)
                    wrapbox.append(w)
                    return w
                return make
            if mode in ('stub-client', 'stub-server'):
                p = P() if mode == 'stub-client' else PServer()      # the role comes from the real class
                cls = type('StubAuthS', (StubAuth,), {'script': script})
                from zope.interface import classImplements
                classImplements(cls, protocol.IDBusAuthenticator)
                p.authenticator = cls
            elif mode == 'real-client':
                p = P()
                p.authenticator = wrapped(authentication.ClientAuthenticator)
            elif mode == 'real-server':
                p = PServer()
                p.authenticator = wrapped(type(p).authenticator)
            elif mode == 'real-clientconn':
                p = P.PClient()
                p.authenticator = wrapped(type(p).authenticator)
            else:
                raise ValueError(mode)
            p.log = []
            p.effects = []
            p.factory = c04._FakeFactory()
            p.makeConnection(tr)
            if mode.startswith('real') and not wrapbox:
                raise c04.HarnessFault('the authenticator hook was not used by connectionMade')
    except c04.HarnessFault:
        raise
    except (AttributeError, TypeError) as e:
        raise c04.HarnessFault('setting up mode %s failed: %s: %s' % (mode, type(e).__name__, e))
    wrap = wrapbox[0] if wrapbox else None
    crashed = None
    for ev in events:
        try:
            if ev[0] == 'f':
                p.fileDescriptorReceived(FD(int(ev[1:])))
            else:
                p.dataReceived(bytes.fromhex(ev[1:]))
        except Exception as e:
            import traceback
            tb = traceback.extract_tb(e.__traceback__)
            if isinstance(e, (AttributeError, TypeError)) and tb and tb[-1].filename.endswith(
                    ('harness/c04.py', 'harness/c20.py')):
                raise c04.HarnessFault('%s inside the harness at line %d: %s' % (type(e).__name__, tb[-1].lineno, e))
            crashed = type(e).__name__
            break
    ctx.impl_trace()
    return {'log': p.log, 'buffer': bytes(p._buffer).hex(), 'queue': capq(p._receivedFDs),
            'crashed': crashed, 'effects': list(getattr(p, 'effects', [])),
            'script': ''.join(wrap.script) if wrap is not None else script,
            'auth': 1 if p._authenticated else 0, 'closed': 1 if p.transport.disconnecting else 0}


def nl(l):
    return ','.join('None' if x is None else str(x) for x in l) if l else '-'


def impl_line(o, mode='binary'):
    ds = ['D %s a=%s b=%s q=%s' % (d['raw'] or '-', nl(d['args']), nl(d['qb']), nl(d['qa'])) for d in o['log']]
    tail = '' if mode == 'binary' else ' %d %d' % (o['auth'], o['closed'])
    return ' '.join(ds) + ' | ' + (o['buffer'] or '-') + ' ' + nl(o['queue']) + tail


def model_line(sc, script=''):
    raws = []
    for h in sc['raws']:
        if h not in raws:
            raws.append(h)
    mode = sc.get('mode', 'binary')
    if mode == 'binary':
        toks = ['V', str(len(raws))]
    else:
        toks = ['W', '0' if mode.endswith('server') else '1', script or '-', str(len(raws))]
    for h in raws:
        decl, idx = info_of(bytes.fromhex(h))
        toks += [h, '-' if decl is None else str(decl), nl(idx)]
    toks.append('E')
    toks += [e if len(e) > 1 else 'r-' for e in sc['events']]
    return ' '.join(toks)


def judge(sc, o):
    """Oracle on the implementation alone.  -> (key, what) or (None, None)."""
    msgs = sc['msgs']          # [{'raw': hex, 'fds': [...]}] in sending order
    total = b''.join(bytes.fromhex(e[1:]) for e in sc['events'] if e[0] == 'r')
    total = total[len(sc.get('handshake', '')) // 2:]      # the messages follow the handshake
    # messages whose last byte has been read
    done, pos = 0, 0
    for m in msgs:
        pos += len(m['raw']) // 2
        if pos <= len(total):
            done += 1
    if sc.get('mode', 'binary') != 'binary' and c04.refused_by_authenticator(sc, o['auth'], o['effects'], o['script']):
        return None, None      # the authenticator refused the handshake: authentication is not C20's business
    if o['crashed']:
        return 'receiver-exception', '%s escaped while descriptors were queued' % o['crashed']
    if [d['raw'] for d in o['log']] != [m['raw'] for m in msgs[:done]]:
        return 'delivery-differs', 'delivered %d messages, %d were complete' % (len(o['log']), done)
    for i, (d, m) in enumerate(zip(o['log'], msgs)):
        if d['args'] != m['fds']:
            return ('descriptor-misattributed',
                    'message %d (sent with %r) saw its h arguments as %r; queue at that moment %r'
                    % (i, m['fds'], d['args'], d['qb']))
        k = len(m['fds'])
        if d['qb'][:k] != m['fds'] or d['qb'][k:] != d['qa']:
            return ('descriptor-consumption',
                    'message %d declared %d descriptors: queue %r -> %r' % (i, k, d['qb'], d['qa']))
    return None, None


SKIPPED = {}


class Batch:
    def __init__(self, ctx):
        self.ctx = ctx
        self.items = []

    def add(self, stream, sc, oracle=True):
        self.items.append((stream, sc, oracle))
        if len(self.items) >= 5000:
            self.flush()

    def flush(self):
        ctx = self.ctx
        items, self.items = self.items, []
        if not items:
            return
        obs, kept = [], []
        for it in items:
            sc = it[1]
            try:
                obs.append(observe(ctx, sc['events'], sc.get('mode', 'binary'), sc.get('script', ''),
                                   sc.get('linux', False)))
                kept.append(it)
            except c04.HarnessFault as e:
                ctx.streams_run.add(it[0])
                SKIPPED[it[0]] = SKIPPED.get(it[0], 0) + 1
                if SKIPPED[it[0]] == 1:
                    ctx.note('stream %s: scenario skipped, the harness could not run it (%s)' % (it[0], e))
        items = kept
        out = ctx.model([model_line(sc, o['script']) for (_, sc, _), o in zip(items, obs)])
        for k, ((stream, sc, oracle), o) in enumerate(zip(items, obs)):
            withfd = any(d['args'] for d in o['log'])
            ctx.case(stream, sample={'mode': sc.get('mode', 'binary'), 'msgs': sc['msgs'], 'events': sc['events']},
                     nontrivial=withfd)
            ctx.stat('%s:msgs=%d' % (stream, len(sc['msgs'])))
            ctx.stat('%s:descriptors-in-variants=%s' % (stream, any(m['fds'] and 'h' not in m.get('sig', 'h')
                                                                     for m in sc['msgs'])))
            ctx.stat('%s:fds-total=%s' % (stream, c04.bucket(sum(len(m['fds']) for m in sc['msgs']))))
            ctx.stat('%s:max-early-queue=%s' % (stream, c04.bucket(max([len(d['qa']) for d in o['log']] or [0]))))
            if out is not None:
                il = impl_line(o, sc.get('mode', 'binary'))
                if out[k] != il and not o['crashed']:
                    ctx.disagree(stream, sc, c04.clip(out[k]), c04.clip(il))
            if oracle and sc.get('mode', 'binary') != 'binary' and c04.refused_by_authenticator(
                    sc, o['auth'], o['effects'], o['script']):
                ctx.stat('%s:not-authenticated(S3 only)' % stream)
            if oracle:
                key, what = judge(sc, o)
                if key:
                    ctx.violation(key, what, inp=sc, observed={'log': o['log'], 'queue': o['queue']},
                                  expected='every h argument of message i = the descriptor sent at that position '
                                           'with message i; exactly len(fds(i)) entries consumed')


# --------------------------------------------------------------------------------------- event sequences
def scenario(msgs, events):
    if sum(len(m['fds']) for m in msgs) > QCAP:
        raise c04.HarnessFault('a generated scenario queues more than QCAP=%d descriptors: raise QCAP' % QCAP)
    return {'msgs': [{'raw': m['raw'].hex(), 'fds': m['fds'], 'sig': m.get('sig', '')} for m in msgs],
            'raws': [m['raw'].hex() for m in msgs], 'events': events}


def deadlines(msgs, reads):
    """For every descriptor (global order): the index of the read that contains the last byte of its message
    (len(reads) if the message is never completed)."""
    ends, pos = [], 0
    for m in msgs:
        pos += len(m['raw'])
        ends.append(pos)
    cum, acc = [], 0
    for r in reads:
        acc += len(r)
        cum.append(acc)
    out = []
    for m, e in zip(msgs, ends):
        idx = next((i for i, c in enumerate(cum) if c >= e), len(reads))
        out += [idx] * len(m['fds'])
    return out


def interleave(reads, fds, slots):
    """slots[j] = the descriptor j arrives just before read number slots[j]."""
    ev, j = [], 0
    for i, r in enumerate(reads):
        while j < len(fds) and slots[j] <= i:
            ev.append('f%d' % fds[j])
            j += 1
        ev.append('r' + r.hex())
    while j < len(fds):
        ev.append('f%d' % fds[j])
        j += 1
    return ev


def all_slot_assignments(dl, nreads):
    """All non-decreasing slot vectors with slots[j] <= dl[j]."""
    def rec(j, lo):
        if j == len(dl):
            yield ()
            return
        for s in range(lo, min(dl[j], nreads) + 1):
            for rest in rec(j + 1, s):
                yield (s,) + rest
    return rec(0, 0)


def random_slots(rng, dl, nreads):
    out, lo = [], 0
    for d in dl:
        hi = min(d, nreads)
        if lo > hi:
            lo = hi
        style = rng.random()
        s = lo if style < 0.4 else (hi if style < 0.6 else rng.randrange(lo, hi + 1))
        out.append(s)
        lo = s
    return out


def stream_recv_exhaustive(ctx, B):
    rng = ctx.rng
    n_seq = ctx.scale(quick=10, thorough=200)
    for _ in range(n_seq):
        n = rng.choice([2, 2, 3])
        wants = [rng.choice([0, 1, 1, 2]) for _ in range(n)]
        while sum(wants) > 4 or sum(wants) == 0:
            wants = [rng.choice([0, 1, 1, 2]) for _ in range(n)]
        msgs = [gen_msg(rng, i, want=w) for i, w in enumerate(wants)]
        stream = b''.join(m['raw'] for m in msgs)
        fds = [d for m in msgs for d in m['fds']]
        # candidate cut points: message boundaries and one interior point per message
        cands, pos = [], 0
        for m in msgs:
            cands.append(pos + rng.choice([1, 15, 16, 17, len(m['raw']) - 1]))
            pos += len(m['raw'])
            cands.append(pos)
        cands = sorted(set(c for c in cands if 0 < c < len(stream)))
        for k in range(len(cands) + 1):
            for cs in itertools.combinations(cands, k):
                reads = c04.cut(stream, list(cs))
                dl = deadlines(msgs, reads)
                for slots in all_slot_assignments(dl, len(reads)):
                    B.add('recv-exhaustive', scenario(msgs, interleave(reads, fds, slots)))
    B.flush()


def stream_recv_random(ctx, B):
    rng = ctx.rng
    n = ctx.scale(quick=2500, thorough=60000)
    for _ in range(n):
        k = rng.choice([1, 2, 3, 4, 6, 9, 12])
        msgs = [gen_msg(rng, i) for i in range(k)]
        stream = b''.join(m['raw'] for m in msgs)
        if rng.random() < 0.15:
            stream = stream[:len(stream) - rng.randrange(1, len(msgs[-1]['raw']))]
        reads = c04.random_partition(rng, stream)
        fds = [d for m in msgs for d in m['fds']]
        dl = deadlines(msgs, reads)
        B.add('recv-random', scenario(msgs, interleave(reads, fds, random_slots(rng, dl, len(reads)))))
    B.flush()


def hs_scenario(mode, hs, script, msgs, events, linux=False):
    sc = scenario(msgs, events)
    sc.update(mode=mode, handshake=hs.hex(), script=script, linux=linux)
    return sc


def handshake_of(rng, mode):
    """-> (handshake bytes, stub script)"""
    if mode.startswith('real'):
        return c04.handshake_for(rng, 'real-client' if mode == 'real-clientconn' else mode), ''
    lines = [rng.choice([b'AUTH X', b'', b'DATA', b'x']) for _ in range(rng.choice([0, 0, 1, 2]))] + [b'BEGIN']
    hs = b''.join(l + b'\r\n' for l in lines)
    if mode == 'stub-server':
        hs = b'\0' + hs
    return hs, 'c' * (len(lines) - 1) + 's'


def stream_recv_handshake(ctx, B):
    """The connection starts in line mode; descriptors arrive before, among and together with the reads
    that carry the handshake.  Short cases: every subset of candidate cuts x every consistent slot
    assignment; then random ones."""
    rng = ctx.rng
    modes = ['stub-client', 'stub-server', 'real-client', 'real-server', 'real-clientconn']
    n_seq = ctx.scale(quick=10, thorough=120)
    for i in range(n_seq):
        mode = modes[i % 5]
        hs, script = handshake_of(rng, mode)
        n = rng.choice([1, 2, 2])
        wants = [rng.choice([1, 1, 2, 0]) for _ in range(n)]
        if sum(wants) == 0:
            wants[0] = 1
        if sum(wants) > 3:
            wants = [1] * n
        msgs = [gen_msg(rng, j, want=w) for j, w in enumerate(wants)]
        stream = hs + b''.join(m['raw'] for m in msgs)
        fds = [d for m in msgs for d in m['fds']]
        H = len(hs)
        cands = {H - 2, H - 1, H, H + 1, H + 16, rng.randrange(1, H)}
        pos = H
        for m in msgs:
            pos += len(m['raw'])
            cands.add(pos)
            cands.add(pos - 1)
        cands = sorted(c for c in cands if 0 < c < len(stream))
        if len(cands) > 7:
            # keep the end of the handshake, spread the rest over the whole stream
            keep = [c for c in cands if H - 1 <= c <= H + 1]
            others = [c for c in cands if c not in keep]
            cands = sorted(keep + rng.sample(others, 7 - len(keep)))
        shifted = [{'raw': b'\0' * H + msgs[0]['raw'], 'fds': msgs[0]['fds']}] + msgs[1:]
        for k in range(len(cands) + 1):
            for cs in itertools.combinations(cands, k):
                reads = c04.cut(stream, list(cs))
                dl = deadlines(shifted, reads)
                for slots in all_slot_assignments(dl, len(reads)):
                    B.add('recv-handshake', hs_scenario(mode, hs, script, msgs, interleave(reads, fds, slots)))
    n = ctx.scale(quick=600, thorough=12000)
    for i in range(n):
        mode = modes[i % 5]
        hs, script = handshake_of(rng, mode)
        k = rng.choice([1, 2, 3, 5])
        msgs = [gen_msg(rng, j) for j in range(k)]
        stream = hs + b''.join(m['raw'] for m in msgs)
        reads = c04.random_partition(rng, stream)
        if rng.random() < 0.5:
            # the final handshake line and message bytes in one read
            a = rng.randrange(max(1, len(hs) - 8), len(hs) + 1)
            b = rng.randrange(len(hs), len(stream) + 1)
            reads = ([r for r in c04.random_partition(rng, stream[:a]) if r] + [stream[a:b]]
                     + c04.random_partition(rng, stream[b:]))
        if mode.endswith('server'):
            reads = [r for r in reads if r] or [stream]
        fds = [d for m in msgs for d in m['fds']]
        shifted = [{'raw': b'\0' * len(hs) + msgs[0]['raw'], 'fds': msgs[0]['fds']}] + msgs[1:]
        dl = deadlines(shifted, reads)
        B.add('recv-handshake', hs_scenario(mode, hs, script, msgs,
                                            interleave(reads, fds, random_slots(rng, dl, len(reads))),
                                            linux=mode.endswith('server') and rng.random() < 0.5))
    B.flush()


def stream_recv_deep_queue(ctx, B):
    """More than 64 descriptors queued before the first message is complete (30-40 messages x up to 3
    descriptors, all arriving ahead of the bytes)."""
    rng = ctx.rng
    for _ in range(ctx.scale(quick=6, thorough=60)):
        msgs = [gen_msg(rng, i, want=rng.choice([2, 3, 3])) for i in range(rng.randrange(30, 41))]
        stream = b''.join(m['raw'] for m in msgs)
        fds = [d for m in msgs for d in m['fds']]
        reads = c04.random_partition(rng, stream)
        ev = ['f%d' % d for d in fds] + ['r' + r.hex() for r in reads]
        ctx.stat('recv-random:queued-ahead=%s' % c04.bucket(len(fds)))
        B.add('recv-random', scenario(msgs, ev))
    B.flush()


def stream_recv_malformed(ctx, B):
    """Outside the property's environment or sender: correspondence only."""
    rng = ctx.rng
    marshal, message, _ = _mods()
    n = ctx.scale(quick=400, thorough=6000)
    for _ in range(n):
        k = rng.choice([1, 2, 3, 4])
        msgs = []
        for i in range(k):
            style = rng.randrange(5)
            base = 1000 * (i + 1)
            if style == 0:
                m = gen_msg(rng, i)
                while 'a{h' in m['sig']:     # unresolved keys (None) would collapse the parsed dict
                    m = gen_msg(rng, i)
                msgs.append(m)
                continue
            nf = rng.choice([1, 2, 3])
            idx = [rng.choice([0, 1, 2, 5, 2 ** 32 - 1]) for _ in range(nf)]
            bodyb = b''.join(struct.pack('<I', j) for j in idx)
            headers = [[5, marshal.UInt32(1)], [8, marshal.Signature('h' * nf)]]
            decl = rng.choice([None, 0, 1, nf, nf + 2, 2 ** 32 - 1])
            if decl is not None:
                headers.append([9, marshal.UInt32(decl)])
            hdr = b''.join(marshal.marshal(c04.header_signature(),
                                           [ord('l'), 2, 0, 1, len(bodyb), i + 1, headers])[1])
            raw = hdr + b'\0' * (-len(hdr) % 8) + bodyb
            msgs.append({'raw': raw, 'fds': [base + j for j in range(rng.choice([0, 1, nf]))], 'sig': 'h' * nf})
        stream = b''.join(m['raw'] for m in msgs)
        reads = c04.random_partition(rng, stream)
        fds = [d for m in msgs for d in m['fds']]
        # any order, including descriptors after the bytes of their message
        slots = sorted(rng.randrange(0, len(reads) + 1) for _ in fds)
        B.add('recv-malformed', scenario(msgs, interleave(reads, fds, slots)), oracle=False)
    B.flush()


# --------------------------------------------------------------------------------------- sender
class RecTransport:
    def __init__(self):
        self.calls = []
        self.disconnecting = False

    def sendFileDescriptor(self, fd):
        self.calls.append('f%d' % fd)

    def write(self, data):
        self.calls.append('W')
        self.last = bytes(data)
        self.writes = getattr(self, 'writes', []) + [bytes(data)]

    def writeSequence(self, seq):
        self.write(b''.join(seq))

    def loseConnection(self):
        self.disconnecting = True


def norm_calls(calls):
    """Transport calls with consecutive writes taken as one (a sendMessage that writes header and body separately is
    correct: what matters is that every descriptor is handed over before the first byte and the bytes are the message)."""
    out = []
    for c in calls:
        if c == 'W' and out and out[-1] == 'W':
            continue
        out.append(c)
    return out


def sender_obs(raw, oob, calls):
    decl, idx = info_of(raw)
    return 'hdr=%s idx=%s oob=%s send=%s' % ('-' if decl is None else decl, nl(idx), nl(oob), ' '.join(norm_calls(calls)))


def judge_sender(fds, obs_line, decl, idx, oob, calls):
    """The statement: "the sender transmits a message's descriptors in argument order ahead of its bytes and
    declares their count in the header".  So: one sendFileDescriptor per descriptor ARGUMENT, in argument
    order (a sender that transmits a repeated descriptor once is not in argument order with the declared
    count - and txdbus's receiver, which indexes by argument position, would misattribute), header = number of
    descriptor arguments (absent for 0), index values 0..k-1, everything before the single write."""
    k = len(fds)
    if (decl or 0) != k or (decl is not None and k == 0 and decl != 0):
        return 'sender-header-count', 'unix_fds header %r for %d descriptor arguments' % (decl, k)
    sent_fds = [c for c in calls if c != 'W']
    if len(sent_fds) != k:
        return ('sender-descriptors-not-transmitted',
                'the header declares %r descriptors, %d were handed to the transport (calls %r)' % (decl, len(sent_fds), calls))
    if idx != list(range(k)):
        return 'sender-indices', 'index values %r for %d descriptor arguments' % (idx, k)
    if oob != fds:
        return 'sender-oob-order', 'out-of-band list %r, arguments carry %r' % (oob, fds)
    if norm_calls(calls) != ['f%d' % d for d in fds] + ['W']:
        return 'sender-send-order', 'transport calls %r' % (calls,)
    return None, None


def stream_sender(ctx):
    rng = ctx.rng
    marshal, message, protocol = _mods()
    from txdbus import client
    n = ctx.scale(quick=1500, thorough=40000)
    cases = []
    for _ in range(n):
        sig, body, trees, fds = gen_body(rng, rng.choice([3, 1000]))
        mode = rng.choice(['direct', 'direct', 'callremote', 'reused'])
        cases.append((sig, body, trees, fds, mode))
    lines = []
    obs = []
    conn = client.DBusClientConnection()
    conn._pendingCalls = {}
    # can this harness drive callRemote on a bare connection at all?  (a plain call, both reply modes)
    callremote_works = True
    for expect in (True, False):
        tr0 = RecTransport()
        conn.transport = tr0
        try:
            conn.callRemote('/a', 'M', signature='s', body=['x'], expectReply=expect)
        except Exception:
            pass
        if norm_calls(tr0.calls) != ['W']:
            callremote_works = False
    if not callremote_works:
        ctx.note('sender-callremote: a plain callRemote on a bare DBusClientConnection writes nothing - the harness '
                 'cannot drive this path; callRemote cases are not judged')
    for sig, body, trees, fds, mode in cases:
        tr = RecTransport()
        toks = []
        for t in trees:
            toks += tree_tokens(t)
        if mode == 'reused':
            oob0 = [7, 8][:rng.choice([1, 2])]
            m = message.MethodCallMessage('/a', 'M', signature=sig, body=body, oobFDs=list(oob0))
            p = protocol.BasicDBusProtocol()
            p.transport = tr
            p.sendMessage(m)
        elif mode == 'direct':
            oob0 = []
            m = message.MethodCallMessage('/a', 'M', signature=sig, body=body, oobFDs=[])
            p = protocol.BasicDBusProtocol()
            p.transport = tr
            p.sendMessage(m)
        else:
            # callRemote is observed at the TRANSPORT only (what reaches the wire), with and without a reply
            # expected; the message object is picked up when sendMessage happens to be the path taken
            oob0 = []
            conn.transport = tr
            sent = []
            orig = conn.sendMessage
            conn.sendMessage = lambda msg: (sent.append(msg), orig(msg))[1]
            expect = rng.random() < 0.5
            try:
                conn.callRemote('/a', 'M', signature=sig, body=body, expectReply=expect)
            finally:
                del conn.sendMessage
            m = sent[0] if len(sent) == 1 else None
            mode = 'callremote' if expect else 'callremote-noreply'
        ctx.impl_trace()
        lines.append('S %d %s %s' % (1 if sig else 0, nl(oob0), ' '.join(toks)))
        writes = getattr(tr, 'writes', [])
        raw = m.rawMessage if m is not None else (b''.join(writes) if writes else None)
        # the out-of-band list: the message's own when we hold the object, else what was handed to the transport
        oob = list(m.oobFDs or []) if m is not None else [int(c[1:]) for c in tr.calls if c != 'W']
        obs.append((raw, oob, list(tr.calls), mode, fds, len(writes)))
    out = ctx.model(lines)
    for k, ((raw, oob, calls, mode, fds, nwrites), (sig, body, trees, _, _)) in enumerate(zip(obs, cases)):
        stream = 'sender-callremote' if mode.startswith('callremote') else 'sender-layout'
        inp = {'sig': sig, 'body': repr(body), 'mode': mode, 'line': lines[k]}
        ctx.case(stream, sample={'sig': sig, 'fds': fds, 'mode': mode, 'line': lines[k]}, nontrivial=bool(fds))
        ctx.stat('%s:fds=%d' % (stream, len(fds)))
        ctx.stat('%s:mode=%s' % (stream, mode))
        if raw is None:
            if callremote_works:
                ctx.violation('sender-nothing-sent', 'callRemote wrote %d messages to the transport for a valid body '
                              '(transport calls %r)' % (nwrites, calls), inp=inp, observed=calls,
                              expected='f.. W (the descriptors, then the one message)')
            continue
        il = sender_obs(raw, oob, calls)
        if out is not None and out[k] != il:
            ctx.disagree(stream, {'line': lines[k], 'sig': sig, 'body': repr(body), 'mode': mode}, out[k], il)
        if mode != 'reused':
            decl, idx = info_of(raw)
            key, what = judge_sender(fds, il, decl, idx, oob, calls)
            if key:
                ctx.violation(key, what, inp=inp, observed=il, expected='hdr=k idx=0..k-1 oob=fds send=f.. W')
    # callRemote hands out a fresh list per call: two calls in a row on one connection
    tr = RecTransport()
    conn.transport = tr
    conn.callRemote('/a', 'M', signature='h', body=[11], expectReply=False)
    conn.callRemote('/a', 'M', signature='h', body=[12], expectReply=True)
    ctx.case('sender-callremote', sample={'two-calls': tr.calls})
    if norm_calls(tr.calls) != ['f11', 'W', 'f12', 'W'] and callremote_works:
        got = sorted(c for c in tr.calls if c != 'W')
        key = ('sender-descriptors-not-transmitted' if len(got) < 2 else
               'sender-list-reused' if got != ['f11', 'f12'] else 'sender-send-order')
        ctx.violation(key,
                      'two callRemote calls in a row sent %r' % (tr.calls,),
                      inp={'calls': [['h', [11]], ['h', [12]]]}, observed=tr.calls, expected=['f11', 'W', 'f12', 'W'])




# --------------------------------------------------------------------------------------- handlers that re-enter or raise
class HandlerError(Exception):
    """Raised by a scheduled message handler (stream recv-reentrant)."""


def observe_reentrant(ctx, events, nest, raise_at):
    """Implementation-only schedules on a real BasicDBusProtocol in binary mode (as harness/c04.py `reentrant-delivery`):
    (a) the handler of message j feeds the next event(s) of the SAME stream - up to and including the next read -
    before it returns (a peer on a synchronous in-memory transport answering at once); (b) the handler of message j
    raises; the caller of dataReceived catches it as a transport glue would and the stream goes on.
    Every message is recorded when its HANDLER is entered: raw bytes, what its `h` arguments resolved to."""
    from twisted.internet.testing import StringTransport
    marshal, message, protocol = _mods()
    pending = list(reversed(events))

    def feed(ev):
        if ev[0] == 'f':
            p.fileDescriptorReceived(FD(int(ev[1:])))
        else:
            p.dataReceived(bytes.fromhex(ev[1:]))

    def feed_to_next_read():
        while pending:
            ev = pending.pop()
            feed(ev)
            if ev[0] == 'r':
                return

    class PNest(protocol.BasicDBusProtocol):
        def rawDBusMessageReceived(self, raw):
            self.stack.append(bytes(raw))
            try:
                protocol.BasicDBusProtocol.rawDBusMessageReceived(self, raw)
            finally:
                self.stack.pop()

        def _handler(self, m):
            j = len(self.log)
            args = []
            if m.signature:
                walk(m.body, args)
            self.log.append({'raw': self.stack[-1].hex() if self.stack else '',
                             'args': [None if a is None else int(a) for a in args]})
            for _ in range(nest.get(j, 0)):
                feed_to_next_read()
            if raise_at == j:
                raise HandlerError('handler of message %d' % j)

        methodCallReceived = methodReturnReceived = errorReceived = signalReceived = _handler

    try:
        p, _tr = make_binary_receiver(ctx, cls=PNest)
        p.stack = []
    except (AttributeError, TypeError) as e:
        raise c04.HarnessFault('setting up the re-entrant receiver failed: %s: %s' % (type(e).__name__, e))
    crashed, raised = None, 0
    while pending:
        try:
            feed(pending.pop())
        except HandlerError:
            raised += 1
            if not pending:
                pending.append('r')          # what was buffered behind the failing message is framed by the next read
        except Exception as e:
            import traceback
            tb = traceback.extract_tb(e.__traceback__)
            if isinstance(e, (AttributeError, TypeError)) and tb and tb[-1].filename.endswith(
                    ('harness/c04.py', 'harness/c20.py')):
                raise c04.HarnessFault('%s inside the harness at line %d: %s' % (type(e).__name__, tb[-1].lineno, e))
            crashed = type(e).__name__
            break
    ctx.impl_trace()
    return {'log': p.log, 'queue': capq(p._receivedFDs), 'crashed': crashed, 'raised': raised,
            'buffer': bytes(p._buffer).hex()}


def judge_reentrant(sc, o):
    """NOT a property oracle (review 3, F2): these schedules are outside the property's quantifier - "every interleaving
    of descriptor arrival and byte arrival a stream socket can produce": a socket never delivers a read while a handler
    runs, and a reactor drops the connection when an exception escapes dataReceived.  The result only labels the
    correspondence disagreement (`reentrant-...`) that `run_reentrant` reports against the Lean model.  Framing under re-entrant or failing handlers is C04's subject: when the messages whose
    handler was entered are not the first messages of the stream, in order, nothing is judged here.  Otherwise every
    message whose handler was entered must have seen, in every `h` argument, the descriptor attached to IT at that
    position ("a descriptor is never attributed to another message"), and when every event has been delivered the
    queue holds exactly the descriptors that arrived for messages not yet delivered ("consumes exactly the declared
    count" - of every message it resolved, also one whose handler failed afterwards)."""
    msgs = sc['msgs']
    if o['crashed']:
        return None, None
    if [d['raw'] for d in o['log']] != [m['raw'] for m in msgs[:len(o['log'])]]:
        return None, None
    for i, (d, m) in enumerate(zip(o['log'], msgs)):
        if d['args'] != m['fds']:
            return ('reentrant-descriptor-misattributed',
                    'message %d (sent with %r) saw its h arguments as %r (handlers re-entering: %r, handler raising at '
                    'message %r)' % (i, m['fds'], d['args'], sc['nest'], sc['raise_at']))
    arrived = [int(e[1:]) for e in sc['events'] if e[0] == 'f']
    used = sum(len(m['fds']) for m in msgs[:len(o['log'])])
    if o['queue'] != arrived[used:]:
        return ('reentrant-descriptor-consumption',
                'after all events %d messages had been delivered (their %d descriptors resolved); the queue holds %r, '
                'the descriptors received for later messages are %r (handler raising at message %r)'
                % (len(o['log']), used, o['queue'], arrived[used:], sc['raise_at']))
    return None, None


def stream_recv_reentrant(ctx):
    rng = ctx.rng
    n = ctx.scale(quick=700, thorough=8000)
    scs = []
    for _ in range(n):
        k = rng.choice([2, 3, 4, 6, 9])
        msgs = [gen_msg(rng, i) for i in range(k)]
        if not any(m['fds'] for m in msgs):
            msgs[rng.randrange(k)] = gen_msg(rng, 0, want=rng.choice([1, 2, 3]))
        stream = b''.join(m['raw'] for m in msgs)
        style = rng.randrange(3)
        if style == 0:
            reads = [m['raw'] for m in msgs]                 # every message its own read
        elif style == 1:
            reads = [stream]                                 # everything in one read
        else:
            reads = c04.random_partition(rng, stream)
        fds = [d for m in msgs for d in m['fds']]
        events = interleave(reads, fds, random_slots(rng, deadlines(msgs, reads), len(reads)))
        nest, raise_at = {}, None
        kind = rng.random()
        if kind < 0.6:
            for j in rng.sample(range(k), rng.choice([1, 1, 2])):
                nest[j] = rng.choice([1, 1, 2, 3])
        if kind >= 0.4:
            raise_at = rng.randrange(k)
        sc = scenario(msgs, events)
        sc.update(nest=dict((str(a), b) for a, b in nest.items()), raise_at=raise_at, mode='reentrant')
        scs.append(sc)
    run_reentrant_batch(ctx, scs)


def run_reentrant(ctx, sc):
    run_reentrant_batch(ctx, [sc])


def run_reentrant_batch(ctx, scs):
    done = []
    for sc in scs:
        nest = dict((int(a), b) for a, b in (sc.get('nest') or {}).items())
        try:
            o = observe_reentrant(ctx, sc['events'], nest, sc.get('raise_at'))
        except c04.HarnessFault as e:
            SKIPPED['recv-reentrant'] = SKIPPED.get('recv-reentrant', 0) + 1
            if SKIPPED['recv-reentrant'] == 1:
                ctx.note('stream recv-reentrant: scenario skipped, the harness could not run it (%s)' % e)
            continue
        ctx.case('recv-reentrant', sample={'msgs': sc['msgs'], 'events': sc['events'], 'nest': sc.get('nest'),
                                           'raise_at': sc.get('raise_at')},
                 nontrivial=any(d['args'] for d in o['log']))
        ctx.stat('recv-reentrant:nested=%s raises=%s' % (bool(nest), sc.get('raise_at') is not None))
        ctx.stat('recv-reentrant:handler-raised=%d' % o['raised'])
        if o['crashed']:
            ctx.stat('recv-reentrant:exception=%s(not compared: framing is C04)' % o['crashed'])
            continue
        done.append((sc, o))
    # S3 only (review 3, F2: these schedules are outside the property's quantifier - no violation is raised from them).
    # The Lean receiver (handlers return; the declared count is consumed BEFORE the hook - also C04's
    # `Receive.handleFrame`) on the same events in their linear order: under that order of consumption a nested or
    # aborted delivery changes nothing, so the messages in the order their handlers were entered, what each saw in its
    # `h` arguments, and the final buffer and queue must be the model's.
    lines = [model_line(dict(sc, mode='binary')) + (' r-' if o['raised'] else '') for sc, o in done]
    out = ctx.model(lines)
    if out is None:
        return
    for (sc, o), mo in zip(done, out):
        head, _, tail = mo.rpartition(' | ')
        mdl = ' '.join('D ' + ' '.join(seg.split()[:2]) for seg in head.split('D ')[1:] if seg.strip())
        impl = ' '.join('D %s a=%s' % (d['raw'] or '-', nl(d['args'])) for d in o['log'])
        mdl += ' | ' + tail
        impl += ' | ' + (o['buffer'] or '-') + ' ' + nl(o['queue'])
        if mdl != impl:
            key, what = judge_reentrant(sc, o)
            ctx.disagree('recv-reentrant', sc, c04.clip(mdl), c04.clip(impl),
                         detail='%s: %s' % (key or 'reentrant-delivery-differs', what or 'see model / impl'))



# --------------------------------------------------------------------------------------- several live connections
# State-leak round 2026-09-30 (STATE_AUDIT G3, TODO C20): two or three receivers alive in one process, each made by
# `makeConnection` (nothing planted), their events interleaved; one of them may be LOST with a descriptor still queued,
# after which a new connection is made.  The descriptor queue is per connection: `judge()` and the Lean model (one
# independent receiver per connection) are applied to every connection on its own events.
def observe_connections(ctx, nconn, steps):
    """steps: ['c<i>'] connect connection i | ['l<i>'] connection i is lost | ['e<i>', event] an event for connection i.
    -> per connection the observation of `observe` (log, buffer, queue, crashed)."""
    from twisted.python import failure
    from twisted.internet import error as ierror
    conns, dead, crashed = {}, set(), {}
    for st in steps:
        op, i = st[0][0], int(st[0][1:])
        if op == 'c':
            conns[i] = make_binary_receiver(ctx)[0]
        elif op == 'l':
            dead.add(i)
            try:
                conns[i].connectionLost(failure.Failure(ierror.ConnectionDone()))
            except Exception as e:
                crashed.setdefault(i, type(e).__name__)
        elif i in conns and i not in dead and i not in crashed:
            ev = st[1]
            try:
                if ev[0] == 'f':
                    conns[i].fileDescriptorReceived(FD(int(ev[1:])))
                else:
                    conns[i].dataReceived(bytes.fromhex(ev[1:]))
            except Exception as e:
                import traceback
                tb = traceback.extract_tb(e.__traceback__)
                if isinstance(e, (AttributeError, TypeError)) and tb and tb[-1].filename.endswith(
                        ('harness/c04.py', 'harness/c20.py')):
                    raise c04.HarnessFault('%s inside the harness at line %d: %s' % (type(e).__name__, tb[-1].lineno, e))
                crashed[i] = type(e).__name__
    ctx.impl_trace()
    out = []
    for i in range(nconn):
        p = conns.get(i)
        if p is None:
            out.append(None)
            continue
        out.append({'log': p.log, 'buffer': bytes(p._buffer).hex(), 'queue': capq(p._receivedFDs),
                    'crashed': crashed.get(i), 'effects': [], 'script': '', 'auth': 1, 'closed': 0})
    return out


def gen_connections(rng):
    nconn = rng.choice([2, 2, 3])
    per = []
    for c in range(nconn):
        k = rng.choice([1, 2, 3])
        msgs = [gen_msg(rng, i) for i in range(k)]
        if not any(m['fds'] for m in msgs):
            msgs[rng.randrange(k)] = gen_msg(rng, 0, want=rng.choice([1, 2, 3]))
        # some connections share the descriptor NUMBERS of another one (a descriptor number means nothing across
        # connections), most have a range of their own
        shift = 0 if rng.random() < 0.3 else 10000 * (c + 1)
        if shift:
            for m in msgs:
                # the numbers are only stand-ins: renumbering the injected descriptors, not the bytes
                m['fds'] = [d + shift for d in m['fds']]
        stream = b''.join(m['raw'] for m in msgs)
        reads = c04.random_partition(rng, stream)
        fds = [d for m in msgs for d in m['fds']]
        events = interleave(reads, fds, random_slots(rng, deadlines(msgs, reads), len(reads)))
        per.append({'msgs': msgs, 'events': events})
    # the loss: a connection whose events stop right after a descriptor arrived (it stays queued), then a NEW connection
    lost = None
    if rng.random() < 0.5:
        lost = rng.randrange(nconn)
        ev = per[lost]['events']
        cut = [j + 1 for j, e in enumerate(ev) if e[0] == 'f']
        if cut:
            per[lost]['events'] = ev[:rng.choice(cut)]
        else:
            lost = None
    # merge, keeping each connection's own order; a connection is made at a random moment before its first event
    pos = [0] * nconn
    steps, made = [], set()
    order = list(range(nconn))
    late = set(c for c in order if rng.random() < 0.5)          # connected only when its first event is due
    for c in order:
        if c not in late:
            steps.append(['c%d' % c])
            made.add(c)
    live = [c for c in order if per[c]['events']]
    while live:
        c = rng.choice(live)
        if lost is not None and c != lost and lost in live and rng.random() < 0.3:
            c = lost                                              # the lost one tends to finish early
        if c not in made:
            steps.append(['c%d' % c])
            made.add(c)
        steps.append(['e%d' % c, per[c]['events'][pos[c]]])
        pos[c] += 1
        if pos[c] == len(per[c]['events']):
            live.remove(c)
            if c == lost:
                steps.append(['l%d' % c])
    for c in order:
        if c not in made:
            steps.append(['c%d' % c])
    return {'mode': 'connections', 'nconn': nconn, 'steps': steps, 'lost': lost,
            'conns': [scenario(x['msgs'], x['events']) for x in per]}


def run_connections_batch(ctx, scs):
    done = []
    for sc in scs:
        try:
            obs = observe_connections(ctx, sc['nconn'], sc['steps'])
        except c04.HarnessFault as e:
            SKIPPED['recv-connections'] = SKIPPED.get('recv-connections', 0) + 1
            if SKIPPED['recv-connections'] == 1:
                ctx.note('stream recv-connections: scenario skipped, the harness could not run it (%s)' % e)
            continue
        done.append((sc, obs))
    lines, where = [], []
    for n, (sc, obs) in enumerate(done):
        for i, o in enumerate(obs):
            if o is not None:
                lines.append(model_line(sc['conns'][i]))
                where.append((n, i))
    out = ctx.model(lines)
    mo = dict(zip(where, out)) if out is not None else {}
    for n, (sc, obs) in enumerate(done):
        ctx.case('recv-connections', sample={'steps': sc['steps'], 'lost': sc['lost']},
                 nontrivial=any(o and any(d['args'] for d in o['log']) for o in obs))
        ctx.stat('recv-connections:connections=%d lost=%s' % (sc['nconn'], sc['lost'] is not None))
        for i, o in enumerate(obs):
            if o is None:
                continue
            if (n, i) in mo and not o['crashed']:
                il = impl_line(o)
                if mo[(n, i)] != il:
                    ctx.disagree('recv-connections', {'scenario': sc, 'connection': i}, c04.clip(mo[(n, i)]), c04.clip(il))
            key, what = judge(sc['conns'][i], o)
            if key:
                # the whole history is the replay input: a single connection of it does not reproduce a leak
                ctx.violation(key, 'connection %d of %d live connections: %s' % (i, sc['nconn'], what), inp=sc,
                              observed={'log': o['log'], 'queue': o['queue']},
                              expected='every connection resolves its messages against the descriptors received on THAT '
                                       'connection')
                break


def stream_recv_connections(ctx):
    rng = ctx.rng
    n = ctx.scale(quick=500, thorough=6000)
    run_connections_batch(ctx, [gen_connections(rng) for _ in range(n)])


# --------------------------------------------------------------------------------------- `oobFDs` omitted
def stream_sender_default_list(ctx):
    """State-leak round (STATE_AUDIT G2): histories of 3-5 `MethodCallMessage(...)` constructions WITHOUT the `oobFDs`
    keyword (a mutable default argument would accumulate), some with `h` in the body, each followed by `sendMessage`.
    Every construction that succeeds is judged by `judge_sender` like any other message (header = the message's OWN
    count, indices from 0, `f.. W`); the Lean side (driver X, `oobFDs=None`) says which constructions fail and with what."""
    rng = ctx.rng
    marshal, message, protocol = _mods()
    from harness import valcodec
    n = ctx.scale(quick=150, thorough=3000)
    hist = []
    for _ in range(n):
        items = []
        for i in range(rng.choice([3, 4, 5])):
            if rng.random() < 0.55:
                k = rng.choice([1, 1, 2])
                fds = [rng.randrange(3, 60) for _ in range(k)]
                sig, body, tree = 'h' * k, list(fds), ' '.join('h%d' % d for d in fds)
            else:
                sig, body, trees = gen_plain(rng)
                fds, toks = [], []
                for t in trees:
                    toks += tree_tokens(t)
                tree = ' '.join(toks) or '-'
            try:
                m = message.MethodCallMessage('/a', 'M', signature=sig, body=body)
                err = None
            except Exception as e:
                m, err = None, type(e).__name__
            calls = None
            if m is not None:
                tr = RecTransport()
                p = protocol.BasicDBusProtocol()
                p.transport = tr
                try:
                    p.sendMessage(m)
                    calls = list(tr.calls)
                except Exception as e:
                    calls = ['!' + type(e).__name__]
            body_toks = ['N'] if body is None else valcodec.to_line(body).split()
            # when the construction failed no serial was taken: the model is given the counter as it stands
            nxt = m.serial if m is not None else None
            items.append({'sig': sig, 'body': body, 'fds': fds, 'tree': tree, 'msg': m, 'err': err, 'calls': calls,
                          'body_toks': body_toks, 'next': nxt})
        ctx.impl_trace()
        hist.append(items)
    lines = []
    for items in hist:
        toks = ['X', str(len(items))]
        for x in items:
            nxt = x['next'] if x['next'] is not None else 1
            toks += ['call', str(nxt), str(message.MethodCallMessage._maxMsgLen), 'T', 'T', _opt_s('/a'), _opt_s('M'), 'N',
                     'N', 'N', 'N', 'N', _opt_s(x['sig']), 'N', str(len(x['body_toks']))] + x['body_toks']
        toks.append('E')
        lines.append(' '.join(toks))
    out = ctx.model(lines)
    probe_faults = 0
    for k, items in enumerate(hist):
        inp = {'constructions': [{'signature': x['sig'], 'body': repr(x['body'])} for x in items],
               'note': 'MethodCallMessage(path, member, signature=, body=) without the oobFDs keyword, in this order'}
        ctx.case('sender-default-list', sample=inp, nontrivial=any(x['fds'] for x in items))
        ms = []
        for x in items:
            if x['msg'] is None:
                ms.append('M err=%s' % x['err'])
            else:
                ms.append('M raw=%s send=%s tree=%s' % (x['msg'].rawMessage.hex(), ' '.join(norm_calls(x['calls'])), x['tree']))
        il = ' ; '.join(ms) + ' ||  | - - L 0 0 -'
        if out is not None and out[k] != il:
            ctx.disagree('sender-default-list', inp, c04.clip(out[k]), c04.clip(il))
        for j, x in enumerate(items):
            if x['msg'] is None:
                continue
            ctx.stat('sender-default-list:constructed-with-h=%s' % bool(x['fds']))
            try:
                decl, idx = info_of(x['msg'].rawMessage)
            except Exception:
                probe_faults += 1
                break
            key, what = judge_sender(x['fds'], None, decl, idx, list(getattr(x['msg'], 'oobFDs', None) or []), x['calls'])
            if key:
                ctx.violation(key, 'construction %d of a history without the oobFDs keyword: %s' % (j, what), inp=inp,
                              observed={'calls': x['calls'], 'hdr': decl, 'idx': idx},
                              expected='every message declares and transmits its OWN descriptors: hdr=k idx=0..k-1 send=f.. W')
                break
    if probe_faults:
        raise RuntimeError('sender-default-list: the probe list of the harness failed on %d histories' % probe_faults)


# --------------------------------------------------------------------------------------- end to end, constructed messages
# C20 composed with C03 / C04 / C01 (extension 2026-09-30): real constructors, real sendMessage on a recording UNIX
# transport, the recorded stream replayed into a real receiver under a random interleaving the environment model
# allows; the composed Lean model (driver command X: C03's constructor model + oobAfter / sendConstructed, then
# recvRun with infoOfParse and parsedDelivery) gets the constructor ARGUMENTS and the events.
PLAIN_ARGS = [
    ('s', 'x\r\ny', 'p'), ('s', '', 'p'), ('i', 2573, 'p'), ('u', 7, 'p'), ('b', True, 'p'),
    ('as', ['a', 'b'], ['p', 'p']), ('ai', [], []), ('(is)', [1, 'z'], ['p', 'p']),
    ('a{su}', {'k': 1, 'l': 2}, [['p', 'p'], ['p', 'p']]), ('v', 'text', ['p']), ('o', '/x/y', 'p'),
    ('g', 'a{sv}', 'p'), ('d', 1.5, 'p'), ('x', -2 ** 40, 'p'), ('ay', [1, 2, 3], ['p', 'p', 'p']),
]


def gen_plain(rng):
    """A descriptor-free body.  -> (sig or None, body or None, trees)"""
    parts = [rng.choice(PLAIN_ARGS) for _ in range(rng.choice([0, 1, 1, 2, 3]))]
    if not parts:
        return rng.choice([None, None, '']), None, []
    return ''.join(p[0] for p in parts), [p[1] for p in parts], [p[2] for p in parts]


def _opt_s(x):
    from harness import valcodec
    return 'N' if x is None else 's' + valcodec.str_hex(x)


def _tf(b):
    return 'T' if b else 'F'


def e2e_message(rng, i):
    """Message number i of a sequence, built by a REAL constructor.
    -> dict(msg, call (tokens of the driver's <call>), fds (descriptor arguments in argument order), trees, kind)"""
    from harness import valcodec
    marshal, message, _ = _mods()
    base = 1000 * (i + 1) if rng.random() < 0.8 else 7
    r = rng.random()
    dest = rng.choice([None, None, ':1.7', 'a.b'])
    oob, fds = None, []
    if r < 0.45:
        kind = 'call-oob'
        sig, body, trees, fds = gen_body(rng, base)
        oob = []
    elif r < 0.60:
        # several `h`, the same descriptor number more than once
        kind = 'call-oob-repeat'
        k = rng.choice([2, 3, 4])
        d0 = base + rng.randrange(50)
        fds = [d0 if rng.random() < 0.6 else base + rng.randrange(50) for _ in range(k)]
        sig, body, trees = 'h' * k, list(fds), [('h', x) for x in fds]
        oob = []
    elif r < 0.70:
        kind = 'call-oob-plain'
        sig, body, trees = gen_plain(rng)
        oob = []
    elif r < 0.80:
        kind = 'call-none'
        sig, body, trees = gen_plain(rng)
    else:
        kind = rng.choice(['ret', 'err', 'sig'])
        sig, body, trees = gen_plain(rng)
    body_toks = ['N'] if body is None else valcodec.to_line(body).split()
    if kind.startswith('call'):
        iface = rng.choice([None, 'a.b'])
        er, as_ = rng.random() < 0.7, rng.random() < 0.7
        m = message.MethodCallMessage('/a', 'M', interface=iface, destination=dest, signature=sig, body=body,
                                      expectReply=er, autoStart=as_, oobFDs=oob)
        head = ['call', None, None, _tf(er), _tf(as_), _opt_s('/a'), _opt_s('M'), _opt_s(iface), 'N', 'N',
                _opt_s(dest), 'N']
    elif kind == 'ret':
        rs = rng.choice([1, 2573, 2 ** 32 - 1])
        m = message.MethodReturnMessage(rs, body=body, destination=dest, signature=sig)
        head = ['ret', None, None, 'T', 'T', 'N', 'N', 'N', 'N', str(rs), _opt_s(dest), 'N']
    elif kind == 'err':
        rs = rng.choice([1, 2573])
        snd = rng.choice([None, ':1.9'])
        m = message.ErrorMessage('a.Err', rs, destination=dest, signature=sig, body=body, sender=snd)
        head = ['err', None, None, 'T', 'T', 'N', 'N', 'N', _opt_s('a.Err'), str(rs), _opt_s(dest), _opt_s(snd)]
    else:
        m = message.SignalMessage('/a', 'M', 'a.b', destination=dest, signature=sig, body=body)
        head = ['sig', None, None, 'T', 'T', _opt_s('/a'), _opt_s('M'), _opt_s('a.b'), 'N', 'N', _opt_s(dest), 'N']
    head[1] = str(m.serial)                 # the counter stood at the serial this message got
    head[2] = str(type(m)._maxMsgLen)
    call = head + [_opt_s(sig), 'N' if oob is None else '-', str(len(body_toks))] + body_toks
    toks = []
    for t in trees:
        toks += tree_tokens(t)
    return {'msg': m, 'call': call, 'fds': list(fds), 'tree': ' '.join(toks) or '-', 'kind': kind, 'sig': sig or ''}


def e2e_impl_line(sent, o):
    ms = ['M raw=%s send=%s tree=%s' % (x['raw'].hex(), ' '.join(norm_calls(x['calls'])), x['tree']) for x in sent]
    ds = ['D %s a=%s b=%s q=%s p=%s' % (d['raw'] or '-', nl(d['args']), nl(d['qb']), nl(d['qa']), d.get('body', '!'))
          for d in o['log']]
    # the literal receiver of the model (`litRecvRun`): hook calls made, crashed?, final queue
    return (' ; '.join(ms) + ' || ' + ' ; '.join(ds) + ' | ' + (o['buffer'] or '-') + ' ' + nl(o['queue'])
            + ' L %d %d %s' % (len(o['log']), 1 if o['crashed'] else 0, nl(o['queue'])))


def stream_end_to_end(ctx):
    rng = ctx.rng
    marshal, message, protocol = _mods()
    n = ctx.scale(quick=1200, thorough=12000)
    cases = []
    for _ in range(n):
        k = rng.choice([1, 2, 3, 3, 4, 6, 9])
        built = [e2e_message(rng, i) for i in range(k)]
        # the real sender: BasicDBusProtocol.sendMessage on a transport that records the calls in order
        tr = RecTransport()
        p = protocol.BasicDBusProtocol()
        p.transport = tr
        sent, sender_fault = [], None
        for x in built:
            before, nwrites = len(tr.calls), len(getattr(tr, 'writes', []))
            try:
                p.sendMessage(x['msg'])
            except Exception as e:
                sender_fault = '%s: %s' % (type(e).__name__, e)
                break
            calls = tr.calls[before:]
            writes = getattr(tr, 'writes', [])[nwrites:]
            sent.append({'raw': b''.join(writes), 'calls': calls, 'tree': x['tree'], 'nwrites': len(writes),
                         'sent_fds': [int(c[1:]) for c in calls if c != 'W']})
        # state-leak round (STATE_AUDIT E, C20): the SAME message objects sent once more, on another connection - the
        # descriptors belong to the message, not to its first transmission
        resent = None
        if sender_fault is None and rng.random() < 0.3:
            tr2 = RecTransport()
            p2 = protocol.BasicDBusProtocol()
            p2.transport = tr2
            resent = []
            for x in built:
                before = len(tr2.calls)
                try:
                    p2.sendMessage(x['msg'])
                except Exception as e:
                    resent.append(['!' + type(e).__name__])
                    continue
                resent.append(tr2.calls[before:])
        ctx.impl_trace()
        if sender_fault is not None:
            cases.append((built, sent, None, None, sender_fault, None))
            continue
        # what the wire carries: per message the descriptors handed to the transport and the bytes written
        wire = [{'raw': x['raw'], 'fds': x['sent_fds']} for x in sent]
        stream = b''.join(w['raw'] for w in wire)
        if rng.random() < 0.12 and len(wire[-1]['raw']) > 1:
            stream = stream[:len(stream) - rng.randrange(1, len(wire[-1]['raw']))]
        reads = c04.random_partition(rng, stream)
        allfds = [d for w in wire for d in w['fds']]
        events = interleave(reads, allfds, random_slots(rng, deadlines(wire, reads), len(reads)))
        cases.append((built, sent, events, len(stream) == sum(len(w['raw']) for w in wire), None, resent))
    lines = []
    for built, sent, events, complete, fault, resent in cases:
        if fault is not None:
            lines.append('X 0 E')
            continue
        toks = ['X', str(len(built))]
        for x in built:
            toks += x['call']
        toks.append('E')
        toks += [e if len(e) > 1 else 'r-' for e in events]
        lines.append(' '.join(toks))
    out = ctx.model(lines)
    probe_faults = 0
    for k, (built, sent, events, complete, fault, resent) in enumerate(cases):
        inp = {'calls': [' '.join(x['call']) for x in built], 'fds': [x['fds'] for x in built],
               'sigs': [x['sig'] for x in built], 'events': events}
        nfds = sum(len(x['fds']) for x in built)
        ctx.case('end-to-end-constructed', sample=inp, nontrivial=nfds > 0)
        ctx.stat('end-to-end-constructed:msgs=%d' % len(built))
        ctx.stat('end-to-end-constructed:fds-total=%s' % c04.bucket(nfds))
        for x in built:
            ctx.stat('end-to-end-constructed:kind=%s' % x['kind'])
            if len(set(x['fds'])) < len(x['fds']):
                ctx.stat('end-to-end-constructed:same-descriptor-twice-in-a-message')
        if fault is not None:
            ctx.violation('sender-exception', 'sendMessage raised %s for a constructed message' % fault, inp=inp,
                          observed=fault, expected='f.. W per message')
            continue
        # ---- S4, sender (implementation only): descriptors of every message, in argument order, then its bytes
        sender_ok = True
        for j, (x, y) in enumerate(zip(built, sent)):
            if y['raw'] != x['msg'].rawMessage:
                key, what = 'sender-nothing-sent', ('sendMessage wrote %d times, %d bytes in all, for a message of %d bytes'
                                                   % (y['nwrites'], len(y['raw']), len(x['msg'].rawMessage)))
            else:
                try:
                    decl, idx = info_of(y['raw'])
                except Exception as e:
                    # the harness's probe list does not get through this parser: nothing is judged from it (obligation below)
                    probe_faults += 1
                    sender_ok = False
                    if probe_faults == 1:
                        ctx.note('end-to-end-constructed: the probe parse raised %s: %s' % (type(e).__name__, e))
                    break
                key, what = judge_sender(x['fds'], None, decl, idx, list(getattr(x['msg'], 'oobFDs', None) or []),
                                         y['calls'])
                if not key and resent is not None and norm_calls(resent[j]) != norm_calls(y['calls']):
                    key, what = ('sender-resend-differs',
                                 'the same message object sent on a second connection: transport calls %r, on the first '
                                 'connection %r' % (resent[j], y['calls']))
            if key:
                sender_ok = False
                ctx.violation(key, what, inp=inp, observed=y['calls'], expected='hdr=k idx=0..k-1 oob=fds send=f.. W')
                break
        if resent is not None:
            ctx.stat('end-to-end-constructed:sent-on-two-connections')
        # ---- the real receiver on the recorded stream
        try:
            o = observe(ctx, events, 'binary', want_body=True)
        except c04.HarnessFault as e:
            SKIPPED['end-to-end-constructed'] = SKIPPED.get('end-to-end-constructed', 0) + 1
            if SKIPPED['end-to-end-constructed'] == 1:
                ctx.note('stream end-to-end-constructed: scenario skipped, the harness could not run it (%s)' % e)
            continue
        ctx.stat('end-to-end-constructed:max-early-queue=%s' % c04.bucket(max([len(d['qa']) for d in o['log']] or [0])))
        if out is not None and not o['crashed']:
            il = e2e_impl_line(sent, o)
            if out[k] != il:
                ctx.disagree('end-to-end-constructed', inp, c04.clip(out[k]), c04.clip(il))
        if not sender_ok:
            continue
        # ---- S4, receiver (implementation only): every message gets exactly the descriptors its sender attached
        sc = {'msgs': [{'raw': x['msg'].rawMessage.hex(), 'fds': x['fds']} for x in built], 'events': events}
        key, what = judge(sc, o)
        if not key and complete and o['queue']:
            key, what = ('descriptor-left-queued', 'all bytes of all messages were read, %r is still queued' % (o['queue'],))
        if key:
            ctx.violation(key, what, inp=inp, observed={'log': [dict(d, body=None) for d in o['log']], 'queue': o['queue']},
                          expected='every message delivered with exactly the descriptors attached to it, in order, '
                                   'none left queued')
    if probe_faults:
        raise RuntimeError('end-to-end-constructed: the probe list of the harness failed on %d cases - the sender oracle '
                           'did not run for them (repair `Probe`)' % probe_faults)


def stream_info_of_parse(ctx):
    """`infoOfParse` (the model's parser: C03's parseMessage model + the specification decoder on the body) against
    the table the real parseMessage gives with a probe list, on every kind of message the receiver streams use:
    either byte order, every message type, descriptors inside variants, indices out of range, header absent / 0 /
    too large."""
    rng = ctx.rng
    marshal, message, _ = _mods()
    raws = []
    n = ctx.scale(quick=500, thorough=8000)
    for i in range(n):
        if rng.random() < 0.75:
            raws.append(gen_msg(rng, i % 12)['raw'])
        else:
            nf = rng.choice([1, 2, 3])
            idx = [rng.choice([0, 1, 2, 5, 2 ** 32 - 1]) for _ in range(nf)]
            big = rng.random() < 0.3
            bodyb = b''.join(struct.pack('>I' if big else '<I', j) for j in idx)
            headers = [[5, marshal.UInt32(1)], [8, marshal.Signature('h' * nf)]]
            decl = rng.choice([None, 0, 1, nf, nf + 2, 2 ** 32 - 1])
            if decl is not None:
                headers.append([9, marshal.UInt32(decl)])
            hdr = b''.join(marshal.marshal(c04.header_signature(),
                                           [ord('B') if big else ord('l'), 2, 0, 1, len(bodyb), i + 1, headers],
                                           lendian=not big)[1])
            raws.append(hdr + b'\0' * (-len(hdr) % 8) + bodyb)
    out = ctx.model(['I ' + r.hex() for r in raws])
    failed, with_idx = 0, 0
    for k, raw in enumerate(raws):
        try:
            decl, idx = info_of(raw)
        except Exception as e:
            failed += 1
            if failed == 1:
                ctx.note('info-of-parse: the probe parse raised %s on a generated message: %s' % (type(e).__name__, e))
            continue
        ctx.case('info-of-parse', sample=raw.hex(), nontrivial=bool(idx))
        with_idx += bool(idx)
        ctx.stat('info-of-parse:%s,indices=%d' % ('big' if raw[:1] == b'B' else 'little', len(idx)))
        il = '%s %s' % ('-' if decl is None else decl, nl(idx))
        if out is not None and out[k] != il:
            ctx.disagree('info-of-parse', raw.hex(), out[k], il)
    # no cases = not green (review 3, F6): a probe that the parser under test rejects must not turn the stream quiet
    if failed or not with_idx:
        raise RuntimeError('info-of-parse: the probe parse failed on %d of %d messages, %d messages with indices were '
                           'compared - the tie of infoOfParse did not run' % (failed, len(raws), with_idx))


# --------------------------------------------------------------------------------------- entry points
def run_corpus_entry(ctx, B, data):
    sc = data.get('input', data)
    if sc.get('mode') == 'reentrant':
        run_reentrant(ctx, sc)
        return
    if sc.get('mode') == 'connections':
        run_connections_batch(ctx, [sc])
        return
    if 'events' in sc:
        if 'raws' not in sc:
            sc = dict(sc, raws=[m['raw'] for m in sc['msgs']])
        B.add(data.get('stream', 'recv-random'), sc, oracle=data.get('oracle', True))


def run(ctx):
    SKIPPED.clear()
    B = Batch(ctx)
    for name, data in ctx.corpus():
        run_corpus_entry(ctx, B, data)
    B.flush()
    del SENDER_DEFECTS[:]
    errors = []

    def guarded(fn, *a):
        # an exception of the harness itself in one stream must not hide the other streams
        try:
            fn(*a)
        except Exception:
            import traceback
            errors.append('%s: %s' % (fn.__name__, traceback.format_exc()[-1500:]))
            B.items = []
    guarded(stream_sender, ctx)
    guarded(stream_recv_exhaustive, ctx, B)
    guarded(stream_recv_random, ctx, B)
    guarded(stream_recv_deep_queue, ctx, B)
    guarded(stream_recv_handshake, ctx, B)
    guarded(stream_recv_malformed, ctx, B)
    guarded(stream_recv_reentrant, ctx)
    guarded(stream_recv_connections, ctx)
    guarded(stream_sender_default_list, ctx)
    guarded(stream_end_to_end, ctx)
    guarded(stream_info_of_parse, ctx)
    for st, k in sorted(SKIPPED.items()):
        ctx.note('stream %s: %d scenarios skipped by the harness (an internal it reaches for has moved)' % (st, k))
    if SKIPPED and ctx.cases == 0:
        raise RuntimeError('no stream of C20 could run: %r' % (SKIPPED,))
    for d in SENDER_DEFECTS[:20]:
        ctx.violation('sender-oob-order', 'the out-of-band list of a marshalled body is %r, its descriptor arguments '
                      'are %r (argument order)' % (d['oob'], d['fds']), inp=d, observed=d['oob'], expected=d['fds'])
    if errors:
        # every stream has had its turn; now the harness fault is reported (obligation `harness`)
        raise RuntimeError('harness fault in %d stream(s):\n%s' % (len(errors), '\n'.join(errors)))


def replay(ctx, data):
    B = Batch(ctx)
    run_corpus_entry(ctx, B, data)
    B.flush()
