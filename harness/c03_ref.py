"""C03 helper - an INDEPENDENT reference implementation of the DBus message format, written from the
DBus specification ("Marshaling (Wire Format)", "Message Format") and from nothing in txdbus:

  * ref_encode_values / ref_decode_values : the wire codec over an abstract value tree, either byte order;
  * ref_message                           : a whole message (fixed header, header-field array in a given
                                            list order, padding, body);
  * wf_parse                              : a strict structural well-formedness parser of a message.

Used by harness/c03.py as (a) "the bytes another implementation would produce" and (b) the property
oracle for "serialises to a well-formed DBus message".  No import of txdbus in this file.

Abstract values (type directed, `sig` tells how to read them):
  y n q i u x t   int            b  bool          d  float          s o g  str
  h               int  (the descriptor itself; the encoder writes its index in `fds` and appends it)
  a<T>            list of values of T             a{KV}  list of (k, v) pairs, order kept
  (..)            list of field values            v      Var(sig, value)
"""
import struct

ALIGN = {'y': 1, 'b': 4, 'n': 2, 'q': 2, 'i': 4, 'u': 4, 'x': 8, 't': 8, 'd': 8, 's': 4, 'o': 4,
         'g': 1, 'a': 4, '(': 8, 'v': 1, '{': 8, 'h': 4}
INTS = {'y': (1, False), 'n': (2, True), 'q': (2, False), 'i': (4, True), 'u': (4, False),
        'x': (8, True), 't': (8, False)}
MAX_MSG = 2 ** 27
MAX_ARRAY = 2 ** 26
# C03's statement defines a well-formed message by header, padding, body-length word and serial; it does not mention the
# 64 MiB limit on arrays INSIDE the body (that is the wire codec's domain, C01/C02).  `wf_parse(..., lax_body_arrays=True)`
# decodes such a body anyway and lists the oversize arrays instead of refusing the message.
_LAX_BODY_ARRAYS = [False]
_OVERSIZE_ARRAYS = []

# header field code -> (spec name, type)
FIELD_TYPES = {1: 'o', 2: 's', 3: 's', 4: 's', 5: 'u', 6: 's', 7: 's', 8: 'g', 9: 'u'}
REQUIRED = {1: {1, 3}, 2: {5}, 3: {4, 5}, 4: {1, 2, 3}}


class Var:
    """A variant: the signature of its single complete type and the value."""
    __slots__ = ('sig', 'val')

    def __init__(self, sig, val):
        self.sig = sig
        self.val = val

    def __repr__(self):
        return 'Var(%r, %r)' % (self.sig, self.val)


class NotWF(Exception):
    pass


# ------------------------------------------------------------------ signatures
def type_end(sig, i):
    """Index just after the single complete type that starts at sig[i]."""
    if i >= len(sig):
        raise NotWF('signature ends inside a type: %r' % (sig,))
    c = sig[i]
    if c == 'a':
        return type_end(sig, i + 1)
    if c == '(':
        j = i + 1
        if j < len(sig) and sig[j] == ')':
            raise NotWF('empty struct in %r' % (sig,))
        while True:
            if j >= len(sig):
                raise NotWF('unclosed struct in %r' % (sig,))
            if sig[j] == ')':
                return j + 1
            j = type_end(sig, j)
    if c == '{':
        j = type_end(sig, i + 1)
        if sig[i + 1] not in 'ybnqiuxtdsogh':
            raise NotWF('dict key not basic in %r' % (sig,))
        j = type_end(sig, j)
        if j >= len(sig) or sig[j] != '}':
            raise NotWF('dict entry with other than two fields in %r' % (sig,))
        return j + 1
    if c in 'ybnqiuxtdsoghv':
        return i + 1
    raise NotWF('unknown type code %r in %r' % (c, sig))


def split_sig(sig):
    out, i = [], 0
    while i < len(sig):
        j = type_end(sig, i)
        out.append(sig[i:j])
        i = j
    return out


# ------------------------------------------------------------------ encoder
def _pad(buf, a):
    while len(buf) % a:
        buf.append(0)


def _uint(buf, n, k, big):
    buf += int(n).to_bytes(k, 'big' if big else 'little', signed=False)


def enc_value(buf, t, v, big, fds):
    """Append value v of the single complete type t to buf (offset = len(buf) from the message start)."""
    c = t[0]
    _pad(buf, ALIGN[c])
    if c in INTS:
        k, signed = INTS[c]
        buf += int(v).to_bytes(k, 'big' if big else 'little', signed=signed)
    elif c == 'b':
        _uint(buf, 1 if v else 0, 4, big)
    elif c == 'd':
        bits = struct.unpack('>Q', struct.pack('>d', v))[0]
        _uint(buf, bits, 8, big)
    elif c == 'h':
        _uint(buf, len(fds), 4, big)
        fds.append(v)
    elif c in 'so':
        b = v.encode('utf-8')
        _uint(buf, len(b), 4, big)
        buf += b
        buf.append(0)
    elif c == 'g':
        b = v.encode('ascii')
        buf.append(len(b))
        buf += b
        buf.append(0)
    elif c == 'v':
        b = v.sig.encode('ascii')
        buf.append(len(b))
        buf += b
        buf.append(0)
        enc_value(buf, v.sig, v.val, big, fds)
    elif c == 'a':
        et = t[1:]
        pos = len(buf)
        buf += b'\0\0\0\0'
        _pad(buf, ALIGN[et[0]])
        start = len(buf)
        for e in v:
            enc_value(buf, et, e, big, fds)
        n = len(buf) - start
        buf[pos:pos + 4] = int(n).to_bytes(4, 'big' if big else 'little')
    elif c == '(':
        for ft, fv in zip(split_sig(t[1:-1]), v, strict=True):
            enc_value(buf, ft, fv, big, fds)
    elif c == '{':
        kt, vt = split_sig(t[1:-1])
        enc_value(buf, kt, v[0], big, fds)
        enc_value(buf, vt, v[1], big, fds)
    else:
        raise ValueError(t)


def ref_encode_values(sig, values, big, buf=None, fds=None):
    buf = bytearray() if buf is None else buf
    fds = [] if fds is None else fds
    for t, v in zip(split_sig(sig), values, strict=True):
        enc_value(buf, t, v, big, fds)
    return buf, fds


# ------------------------------------------------------------------ strict decoder
def _skip(data, pos, a, end):
    while pos % a:
        if pos >= end:
            raise NotWF('padding runs past the end at %d' % pos)
        if data[pos] != 0:
            raise NotWF('non-zero padding byte at offset %d' % pos)
        pos += 1
    return pos


def _take(data, pos, k, end):
    if pos + k > end:
        raise NotWF('value at %d needs %d bytes, %d left' % (pos, k, end - pos))
    return data[pos:pos + k], pos + k


def dec_value(data, pos, t, big, fds, end):
    """Decode one value of type t at pos (absolute offset in data); returns (erased value, new pos).
    Erased: array of dict entries -> dict, struct -> list, variant -> its content."""
    c = t[0]
    pos = _skip(data, pos, ALIGN[c], end)
    bo = 'big' if big else 'little'
    if c in INTS:
        k, signed = INTS[c]
        b, pos = _take(data, pos, k, end)
        return int.from_bytes(b, bo, signed=signed), pos
    if c == 'b':
        b, pos = _take(data, pos, 4, end)
        n = int.from_bytes(b, bo)
        if n not in (0, 1):
            raise NotWF('boolean %d at %d' % (n, pos - 4))
        return n == 1, pos
    if c == 'd':
        b, pos = _take(data, pos, 8, end)
        return struct.unpack('>d', int.from_bytes(b, bo).to_bytes(8, 'big'))[0], pos
    if c == 'h':
        b, pos = _take(data, pos, 4, end)
        i = int.from_bytes(b, bo)
        return (fds[i] if fds is not None and i < len(fds) else None), pos
    if c in 'sog':
        lb, pos = _take(data, pos, 1 if c == 'g' else 4, end)
        n = int.from_bytes(lb, bo)
        b, pos = _take(data, pos, n, end)
        z, pos = _take(data, pos, 1, end)
        if z != b'\0':
            raise NotWF('string at %d not NUL terminated' % pos)
        if 0 in b:
            raise NotWF('NUL inside a string at %d' % pos)
        try:
            s = bytes(b).decode('ascii' if c == 'g' else 'utf-8')
        except UnicodeDecodeError:
            raise NotWF('string at %d is not valid %s' % (pos, 'ASCII' if c == 'g' else 'UTF-8'))
        if c == 'g':
            split_sig(s)
        if c == 'o' and not valid_path(s):
            raise NotWF('invalid object path %r' % (s,))
        return s, pos
    if c == 'v':
        s, pos = dec_value(data, pos, 'g', big, fds, end)
        if len(split_sig(s)) != 1:
            raise NotWF('variant signature %r is not one complete type' % (s,))
        return dec_value(data, pos, s, big, fds, end)
    if c == 'a':
        b, pos = _take(data, pos, 4, end)
        n = int.from_bytes(b, bo)
        if n > MAX_ARRAY:
            if _LAX_BODY_ARRAYS[0]:
                _OVERSIZE_ARRAYS.append(n)      # observed, reported by wf_parse in 'body_arrays_over_limit'; not a verdict
            else:
                raise NotWF('array of %d bytes' % n)
        et = t[1:]
        pos = _skip(data, pos, ALIGN[et[0]], end)
        stop = pos + n
        if stop > end:
            raise NotWF('array data runs past the end')
        out = []
        while pos < stop:
            v, pos = dec_value(data, pos, et, big, fds, stop)
            out.append(v)
        if pos != stop:
            raise NotWF('array elements end at %d, declared end %d' % (pos, stop))
        if et[0] == '{':
            d = {}
            for k, v in out:
                d[k] = v
            return d, pos
        return out, pos
    if c == '(':
        out = []
        for ft in split_sig(t[1:-1]):
            v, pos = dec_value(data, pos, ft, big, fds, end)
            out.append(v)
        return out, pos
    if c == '{':
        kt, vt = split_sig(t[1:-1])
        k, pos = dec_value(data, pos, kt, big, fds, end)
        v, pos = dec_value(data, pos, vt, big, fds, end)
        return (k, v), pos
    raise NotWF('type %r' % (t,))


def ref_decode_values(sig, data, pos, big, fds, end=None):
    end = len(data) if end is None else end
    out = []
    for t in split_sig(sig):
        v, pos = dec_value(data, pos, t, big, fds, end)
        out.append(v)
    return out, pos


def erase(t, v):
    """What a decoder returns for abstract value v of type t (same erasure as dec_value)."""
    c = t[0]
    if c == 'v':
        return erase(v.sig, v.val)
    if c == 'a':
        et = t[1:]
        if et[0] == '{':
            kt, vt = split_sig(et[1:-1])
            d = {}
            for k, x in v:
                d[erase(kt, k)] = erase(vt, x)
            return d
        return [erase(et, e) for e in v]
    if c == '(':
        return [erase(ft, fv) for ft, fv in zip(split_sig(t[1:-1]), v)]
    return v


def erase_all(sig, values):
    return [erase(t, v) for t, v in zip(split_sig(sig), values)]


# ------------------------------------------------------------------ name grammars (DBus spec "Valid Names")
def _elem_ok(e, allow_hyphen=False, digit_first=False):
    if not e:
        return False
    for ch in e:
        if not (('a' <= ch <= 'z') or ('A' <= ch <= 'Z') or ('0' <= ch <= '9') or ch == '_'
                or (allow_hyphen and ch == '-')):
            return False
    if not digit_first and '0' <= e[0] <= '9':
        return False
    return True


def valid_path(p):
    if not isinstance(p, str) or not p.startswith('/'):
        return False
    if p == '/':
        return True
    return all(_elem_ok(e, digit_first=True) for e in p[1:].split('/'))


def valid_interface(n):
    if not isinstance(n, str) or len(n.encode('utf-8', 'surrogatepass')) > 255:
        return False
    es = n.split('.')
    return len(es) >= 2 and all(_elem_ok(e) for e in es)


valid_error_name = valid_interface


def valid_member(n):
    return isinstance(n, str) and len(n.encode('utf-8', 'surrogatepass')) <= 255 and _elem_ok(n)


def valid_bus_name(n):
    if not isinstance(n, str) or len(n.encode('utf-8', 'surrogatepass')) > 255:
        return False
    if n.startswith(':'):
        es = n[1:].split('.')
        return len(es) >= 2 and all(_elem_ok(e, allow_hyphen=True, digit_first=True) for e in es)
    es = n.split('.')
    return len(es) >= 2 and all(_elem_ok(e, allow_hyphen=True) for e in es)


# ------------------------------------------------------------------ a whole message
def ref_message(mtype, flags, serial, fields, body_sig, body_vals, big, version=1):
    """fields: list of (code, sig, abstract value) in the order they are to appear.
    Returns (bytes, fds)."""
    buf = bytearray()
    buf.append(ord('B') if big else ord('l'))
    buf.append(mtype)
    buf.append(flags)
    buf.append(version)
    buf += b'\0\0\0\0'                       # body length, patched below
    _uint(buf, serial, 4, big)
    hdr_fds = []
    enc_value(buf, 'a(yv)', [[code, Var(sig, val)] for code, sig, val in fields], big, hdr_fds)
    _pad(buf, 8)
    start = len(buf)
    fds = []
    if body_sig:
        ref_encode_values(body_sig, body_vals, big, buf, fds)
    n = len(buf) - start
    buf[4:8] = int(n).to_bytes(4, 'big' if big else 'little')
    return bytes(buf), fds


def wf_parse(raw, fds=None, max_len=MAX_MSG, lax_body_arrays=False):
    """Strict structural parse of one message.  Returns a dict; raises NotWF with the reason.
    `lax_body_arrays`: an array of more than 2^26 bytes inside the BODY is not a reason to refuse the message (C03's
    statement does not speak about it); such arrays are listed under 'body_arrays_over_limit'."""
    raw = bytes(raw)
    if len(raw) < 16:
        raise NotWF('shorter than the fixed header: %d bytes' % len(raw))
    if len(raw) > max_len:
        raise NotWF('message of %d bytes exceeds %d' % (len(raw), max_len))
    if raw[0] not in (ord('l'), ord('B')):
        raise NotWF('byte order mark %r' % (raw[0:1],))
    big = raw[0] == ord('B')
    bo = 'big' if big else 'little'
    mtype, flags, version = raw[1], raw[2], raw[3]
    if mtype not in (1, 2, 3, 4):
        raise NotWF('message type %d' % mtype)
    if flags & ~0x7:
        raise NotWF('undefined flag bits 0x%02x' % flags)
    if version != 1:
        raise NotWF('protocol version %d' % version)
    body_len = int.from_bytes(raw[4:8], bo)
    serial = int.from_bytes(raw[8:12], bo)
    if serial == 0:
        raise NotWF('serial 0')
    arr_len = int.from_bytes(raw[12:16], bo)
    if arr_len > MAX_ARRAY:
        raise NotWF('header array of %d bytes' % arr_len)
    pos, stop = 16, 16 + arr_len
    if stop > len(raw):
        raise NotWF('header array runs past the end of the message')
    fields = []
    while pos < stop:
        pos = _skip(raw, pos, 8, stop)
        if pos >= stop:
            raise NotWF('header array ends in padding')
        code = raw[pos]
        pos += 1
        sig, pos = dec_value(raw, pos, 'g', big, None, stop)
        if len(split_sig(sig)) != 1:
            raise NotWF('header field %d: variant signature %r' % (code, sig))
        val, pos = dec_value(raw, pos, sig, big, None, stop)
        fields.append((code, sig, val))
    if pos != stop:
        raise NotWF('header fields end at %d, declared end %d' % (pos, stop))
    hdr_end = pos
    pad_end = _skip(raw, pos, 8, len(raw)) if pos % 8 else pos
    padding = raw[hdr_end:pad_end]
    if len(padding) >= 8:
        raise NotWF('padding of %d bytes' % len(padding))
    body = raw[pad_end:]
    if len(body) != body_len:
        raise NotWF('declared body length %d, actual %d' % (body_len, len(body)))
    seen = {}
    for code, sig, val in fields:
        if code == 0:
            raise NotWF('header field code 0')
        if code in FIELD_TYPES:
            if code in seen:
                raise NotWF('header field %d twice' % code)
            if sig != FIELD_TYPES[code]:
                raise NotWF('header field %d has type %r, the specification says %r' % (code, sig, FIELD_TYPES[code]))
        seen[code] = (sig, val)
    missing = REQUIRED[mtype] - set(seen)
    body_sig = seen[8][1] if 8 in seen else ''
    del _OVERSIZE_ARRAYS[:]
    _LAX_BODY_ARRAYS[0] = bool(lax_body_arrays)
    try:
        body_vals, bend = ref_decode_values(body_sig, raw, pad_end, big, fds)
    finally:
        _LAX_BODY_ARRAYS[0] = False
    over = list(_OVERSIZE_ARRAYS)
    if bend != len(raw):
        raise NotWF('body of signature %r ends at %d, message at %d' % (body_sig, bend, len(raw)))
    return {'big': big, 'type': mtype, 'flags': flags, 'version': version, 'body_len': body_len,
            'serial': serial, 'array_len': arr_len, 'fields': fields, 'known': seen,
            'header_end': hdr_end, 'padding': padding, 'body': body, 'body_vals': body_vals,
            'missing_required': sorted(missing), 'body_arrays_over_limit': over}
